"""cluster - a simulated Kafka cluster on top of `sim/world.py` (deterministic, virtual time, in-memory).

The real afkak objects connect through `world.net` (the endpoint factory); every connection attempt
lands in `Cluster._on_connect`, every request frame in `Cluster._on_frame`.  Frames are parsed STRICTLY
with `sim/refcodec.py` (independent of afkak); what the brokers do with them follows Kafka 0.10.x.

Quick tour
==========
    c = Cluster(brokers=3, rng=random.Random(0))          # node ids 1..3, hosts "kafka<N>.sim":9092
    c.add_topic("t", partitions=2)                        # leaders round-robin over the brokers
    c.append("t", 0, [b"a", b"b"])                        # put messages in a log (not via the wire)
    c.append("t", 0, [b"c", b"d"], magic=1, codec="gzip") # ... a compressed wrapper, protocol offset rules
    c.log_of("t", 0).skip(5)                              # ... a gap (as compaction leaves)
    client = KafkaClient(c.hosts(), reactor=c.clock, endpoint_factory=c.net)
    c.advance(1.5)                                        # virtual time; timers fire one by one, bytes move
    c.settle()                                            # move bytes / run due timers until nothing moves
    c.run_until(lambda: d.called, timeout=60)             # step timer by timer until the predicate holds
    c.log_of("t", 0).messages()                           # ground truth: [(offset, key, value, ts, magic)]
    c.log / c.requests(api="Produce") / broker.log        # ordered record of everything that happened
    c.violations                                          # frames that did not parse strictly (+ others)
    rc = RawClient(c, "other").connect(1); rc.call("Metadata", 0, {"topics": []})   # refcodec-only client

Pumping.  Nothing moves by itself: bytes move in `settle()` (called by `advance`, `step`, `run_*`);
`advance(dt)` goes timer by timer so that a reply written at virtual time t is delivered at t (zero
latency network) and not at the end of the advance.  `World.advance` keeps working for everything
except chunked delivery (`chunk_rng`), which needs `Cluster.settle`.  `settle` raises `Livelock` when
the system keeps itself busy at one virtual instant (max_iter rounds) - a finding, not an accident.

Ground truth.  `cluster.log` (and `broker.log`, same dict objects) has one entry per event, in order:
    kind "request": {n, t (frame received), t_processed, broker, conn, api, api_key, version, corr, client_id,
                     request (parsed body), applied (list of effects, see each handler),
                     response (body dict | None), fate, t_sent, fault (name of the injected fault | None)}
        fate: "answered" | "no-response" (acks=0) | "silent" | "dropped-before" | "dropped-after" |
              "dropped-mid" | "parked" (long poll / join in progress; becomes "answered") |
              "delayed" (becomes "answered") | "conn-closed" (peer went away first) |
              "queued" (behind a muted request; becomes one of the others) | "never-served" (was still
              queued when the connection died) | "unparseable" | "unsupported" | "closed-acks0-error"
        Every frame is parsed and logged when it ARRIVES, also when it is served later or never.
    kind "connect": {t, host, port, broker, result: accepted|refused|blackholed|timeout, conn}
    kind "close":   {t, broker, conn, by: "peer"|"broker"}
    kind "violation": {t, broker, conn, what, error, frame}      (also in cluster.violations)
    kind "admin":   {t, what, ...}   leader moves, restarts, coordinator moves, ...
    kind "group":   {t, group, event, generation, state, members, leader, ...}
Kafka processes one request at a time per connection (the channel is muted until the response has
been written): a parked or delayed request blocks the requests behind it on that connection; acks=0
produce requests do not.

Fault injection (all deterministic; counters are per fault):
    c.inject(action, api=None, broker=None, topic=None, partition=None, group=None, conn=None,
             nth=None, times=1, when=None, t_from=None, t_to=None, name=None, **params) -> Fault
      matching: api (key or name), broker (node id), topic/partition (any partition of the request
      matches; per-partition actions apply to the matching partitions only), group (group_id),
      when(header, body) -> bool, virtual time window; `nth` = fire on the nth match (int or set,
      1-based), otherwise on the first `times` matches (times=None: always).  First matching fault wins.
      actions:
        "error"      code=N, apply=False      answer with that error code (apply=True: do it, then lie)
        "silent"     apply=False, block=True  never answer (block=True: nothing behind it on that connection
                                              is served either, like a hung broker)
        "delay"      seconds=X                answer X virtual seconds late
        "drop_before"                         close the connection, nothing applied
        "drop_after"                          apply, then close without answering
        "drop_mid"   nbytes=K | fraction=F    apply, write the first K bytes of the framed answer, close
        "hook"       fn(cluster, broker, bconn, header, body) -> None | response body dict | NO_RESPONSE
    broker.mode = "accept" | "refuse" | "blackhole";  broker.connect_timeout (for black holes)
    broker.silent = True (accepts, reads, never answers);  broker.response_delay = seconds
    broker.api_versions = [(key, min, max)...] in ANY order | None (old broker: `old_broker_mode`
        "close" or "ignore");  broker.api_versions_error = code;  broker.max_magic = 0 | 1
    c.kill_broker(n, elect=True) / c.start_broker(n) / c.restart_broker(n, host=None, port=None)
        (elect=True also moves the dead broker's groups to another coordinator, state kept)
    c.heal_silence(n)   broker.silent = False + reset of the connections it left muted
    c.move_leader(topic, partition, new, old="not_leader"|"unknown"|"silent"|"down")
    c.move_coordinator(group, node, lose_state=False);  c.remove_from_metadata(n) / restore_to_metadata
    group control: c.join_window (virtual seconds a rebalance of an EMPTY group stays open),
        c.group(g).hold = True + c.complete_join(g) for explicit control, c.rebalance_timeout override.

Faithful: wire formats (via refcodec), per-connection ordering and muting, offset assignment incl.
re-written compressed wrappers (v0 absolute / v1 relative inner offsets), fetch max_bytes truncation
(partial trailing message as Kafka's file slice), min_bytes / max_wait long poll completed by appends,
down-conversion of format-1 logs for Fetch < v2, acks 0/1/-1 (acks=0: no response; on error the
connection is closed), NotLeader / UnknownTopicOrPartition / OffsetOutOfRange, metadata v0 with
LeaderNotAvailable, group coordinator state machine (Empty / PreparingRebalance / AwaitingSync /
Stable, generations, leader election, protocol selection, session expiry, rebalance timeout),
OffsetCommit v1 generation / member checks, OffsetFetch v1, ApiVersions.
Simplified: one replica set view (high watermark = log end), no ISR dynamics (acks=-1 == acks=1
unless a fault says otherwise), one log segment (ListOffsets v0 returns [end, start] / [start]),
no quotas (throttle 0), no SASL/TLS, no transactions, retention only through `PartitionLog.trim`,
group metadata survives coordinator moves unless lose_state=True, snappy/lz4 absent.
"""
import collections
import random
import zlib

from twisted.internet import error
from twisted.internet.protocol import Factory
from twisted.protocols.basic import Int32StringReceiver

from harness.sim import refcodec as R
from harness.sim.world import World

NO_RESPONSE = object()
_PARKED = object()
_ALREADY_ANSWERED = object()

E = R.ERR

EMPTY, PREPARING, AWAITING_SYNC, STABLE, DEAD = "Empty", "PreparingRebalance", "AwaitingSync", "Stable", "Dead"

# Kafka 0.10.0's ApiVersions table (in key order, the way a broker sends it)
DEFAULT_API_VERSIONS = [
    (0, 0, 2), (1, 0, 2), (2, 0, 0), (3, 0, 1), (4, 0, 0), (5, 0, 0), (6, 0, 2), (7, 1, 1), (8, 0, 2),
    (9, 0, 1), (10, 0, 0), (11, 0, 0), (12, 0, 0), (13, 0, 0), (14, 0, 0), (15, 0, 0), (16, 0, 0),
    (17, 0, 0), (18, 0, 0),
]  # fmt: skip

_API_BY_NAME = {v.lower(): k for k, v in R.API_NAMES.items()}
_API_BY_NAME.update({"offsets": 2, "offset": 2, "groupcoordinator": 10, "consumermetadata": 10})


def api_key_of(api):
    if api is None or isinstance(api, int):
        return api
    return _API_BY_NAME[api.lower()]


class Livelock(RuntimeError):
    """settle() did not reach quiescence at one virtual instant."""


# =========================================================================== partition logs


class Entry(object):
    """One shallow message-set entry of a log: a plain message or a compressed wrapper."""

    __slots__ = ("first", "last", "msg", "_raw")

    def __init__(self, first, last, msg):
        self.first, self.last, self.msg, self._raw = first, last, msg, None

    @property
    def raw(self):
        if self._raw is None:
            self._raw = R.encode_entry(self.msg["offset"], R.encode_message(self.msg))
        return self._raw


def _convert(entry, magic):
    """The entry in message format `magic` (Kafka's up/down conversion)."""
    m = entry.msg
    if m["magic"] == magic:
        return entry
    if R.codec_of(m) == R.CODEC_NONE:
        new = dict(m, magic=magic, timestamp=(-1 if magic == 1 else None))
        return Entry(entry.first, entry.last, new)
    inner = R.expand_message_set([m])
    w = R.gzip_wrapper(inner, magic, offsets=[x["offset"] for x in inner], attributes=m["attributes"] & ~R.TIMESTAMP_TYPE_MASK)
    return Entry(entry.first, entry.last, w)


class PartitionLog(object):
    def __init__(self, topic, partition):
        self.topic, self.partition = topic, partition
        self.entries = []
        self.start = 0  # log start offset (earliest)
        self.next = 0  # log end offset (latest); high watermark == log end here
        self.last_append_ms = -1
        self.listeners = []  # callables() invoked after every append (long polls)

    # ---- building / appending
    def append_shallow(self, msgs, now_ms=0, message_format=None):
        """Append shallow entries the way a leader does: assign offsets, re-write wrappers.

        -> (base_offset, last_offset, [logical messages appended])"""
        base = self.next
        logical = []
        for m in msgs:
            if R.codec_of(m) == R.CODEC_NONE:
                new = dict(m, offset=self.next)
                e = Entry(self.next, self.next, new)
                self.next += 1
            else:
                inner = R.expand_message_set([m])
                offsets = list(range(self.next, self.next + len(inner)))
                w = R.gzip_wrapper(inner, m["magic"], offsets=offsets, timestamp=m["timestamp"], attributes=m["attributes"])
                e = Entry(offsets[0], offsets[-1], w)
                self.next = offsets[-1] + 1
            if message_format is not None:
                e = _convert(e, message_format)
            self.entries.append(e)
            logical.extend(R.expand_message_set([e.msg]))
        self.last_append_ms = now_ms
        self._notify()
        return base, self.next - 1, logical

    def put(self, values, key=None, magic=0, codec=None, timestamps=None, offsets=None, keys=None, now_ms=0):
        """Scenario construction: append `values` (bytes | None each) as plain messages or as ONE gzip
        wrapper (`codec="gzip"`).  `offsets`: explicit absolute offsets (strictly increasing, >= log end)
        for logs with gaps.  -> list of offsets used."""
        values = list(values)
        n = len(values)
        keys = list(keys) if keys is not None else [key] * n
        if timestamps is None:
            timestamps = [now_ms + i for i in range(n)] if magic == 1 else [None] * n
        if offsets is None:
            offsets = list(range(self.next, self.next + n))
        offsets = list(offsets)
        if not offsets:
            return []
        assert offsets[0] >= self.next and all(b > a for a, b in zip(offsets, offsets[1:])), "offsets must increase"
        msgs = [R.message(v, k, magic, 0, ts) for v, k, ts in zip(values, keys, timestamps)]
        if codec in (None, "none", 0):
            for m, off in zip(msgs, offsets):
                self.entries.append(Entry(off, off, dict(m, offset=off)))
        elif codec in ("gzip", 1):
            self.entries.append(Entry(offsets[0], offsets[-1], R.gzip_wrapper(msgs, magic, offsets=offsets)))
        else:
            raise ValueError("codec %r not available" % (codec,))
        self.next = offsets[-1] + 1
        self.last_append_ms = now_ms
        self._notify()
        return offsets

    def skip(self, n=1):
        """Leave a gap of n offsets at the end (compaction / aborted batches leave such holes)."""
        self.next += n

    def trim(self, new_start):
        """Retention: drop everything entirely below `new_start`; log start offset moves there."""
        self.start = max(self.start, min(new_start, self.next))
        self.entries = [e for e in self.entries if e.last >= self.start]

    def truncate(self, new_end):
        """Unclean leader election: lose the tail."""
        self.entries = [e for e in self.entries if e.last < new_end]
        self.next = max(self.start, min(self.next, new_end))

    def _notify(self):
        for f in list(self.listeners):
            f()

    # ---- reading
    def messages(self):
        """Ground truth: [(offset, key, value, timestamp, magic)] of every logical message."""
        out = []
        for e in self.entries:
            for m in R.expand_message_set([e.msg]):
                if m["offset"] >= self.start:
                    out.append((m["offset"], m["key"], m["value"], m["timestamp"], m["magic"]))
        return out

    def offsets(self):
        return [m[0] for m in self.messages()]

    def entries_from(self, offset):
        return [e for e in self.entries if e.last >= offset]

    def available_bytes(self, offset):
        return sum(len(e.raw) for e in self.entries_from(offset))

    def read(self, offset, max_bytes, down_convert_to=None):
        """What a fetch at `offset` returns: whole entries from the first one whose LAST offset is
        >= offset (a wrapper that merely contains it is returned whole), cut at max_bytes exactly like
        Kafka's file slice (the trailing message may be partial)."""
        chunks, size = [], 0
        for e in self.entries_from(offset):
            if size >= max_bytes:
                break
            chunks.append(e)
            size += len(e.raw)
        data = b"".join(e.raw for e in chunks)[: max(0, max_bytes)]
        if down_convert_to is not None and any(e.msg["magic"] != down_convert_to for e in chunks):
            # Kafka converts the complete shallow messages of the slice and drops a partial tail
            whole, consumed = R.split_message_set(data)
            conv = [_convert(e, down_convert_to) for e in chunks[: len(whole)]]
            data = b"".join(e.raw for e in conv)
        return data


class Partition(object):
    def __init__(self, topic, pid, leader, replicas):
        self.topic, self.id = topic, pid
        self.leader = leader  # node id or -1
        self.replicas = list(replicas)
        self.isr = list(replicas)
        self.log = PartitionLog(topic, pid)
        self.former = {}  # node id -> how a former leader behaves: "not_leader"|"unknown"|"silent"


class Topic(object):
    def __init__(self, name):
        self.name = name
        self.partitions = collections.OrderedDict()
        self.message_format = None  # None: store as produced; 0 / 1: convert on append
        self.max_message_bytes = 1000012
        self.error = 0  # topic-level error code reported in metadata (e.g. 5 while being created)


# =========================================================================== groups


class Member(object):
    def __init__(self, member_id, client_id, session_timeout, protocol_type, protocols, order):
        self.member_id, self.client_id = member_id, client_id
        self.session_timeout = session_timeout
        self.protocol_type = protocol_type
        self.protocols = protocols  # [(name, metadata bytes)]
        self.order = order
        self.join_parked = None  # (bconn, entry) while a JoinGroup waits
        self.sync_parked = None
        self.assignment = b""
        self.timer = None
        self.last_heartbeat = None

    def metadata_for(self, protocol):
        for n, md in self.protocols:
            if n == protocol:
                return md
        return b""


class Group(object):
    def __init__(self, group_id):
        self.group_id = group_id
        self.state = EMPTY
        self.generation = 0
        self.protocol_type = None
        self.protocol = None
        self.leader = None
        self.members = collections.OrderedDict()
        self.join_timer = None
        self.window_timer = None
        self.window_until = None
        self.hold = False  # explicit control: joins complete only on Cluster.complete_join
        self.history = []  # [{t, generation, members, leader, protocol, assignments (filled at sync)}]
        self.loading = False  # answers CoordinatorLoadInProgress while True

    def snapshot(self):
        return {
            "state": self.state,
            "generation": self.generation,
            "leader": self.leader,
            "protocol": self.protocol,
            "members": list(self.members),
        }


# =========================================================================== brokers and connections


class BrokerConn(object):
    """Server side of one accepted connection."""

    def __init__(self, broker, conn):
        self.broker, self.conn, self.cid = broker, conn, conn.cid
        self.inbox = collections.deque()
        self.busy = None  # the log entry whose response is outstanding (channel muted)
        self.dead = False
        self.parked = []  # callables(reason) to cancel parked work when the connection dies

    def __repr__(self):
        return "<BrokerConn %d to broker %d>" % (self.cid, self.broker.node_id)


class Broker(object):
    def __init__(self, cluster, node_id, host, port):
        self.cluster = cluster
        self.node_id, self.host, self.port = node_id, host, port
        self.alive = True
        self.mode = "accept"  # "accept" | "refuse" | "blackhole"
        self.connect_timeout = None  # black-holed attempts fail with TimeoutError after this long
        self.in_metadata = True
        self.silent = False
        self.response_delay = 0
        self.api_versions = list(DEFAULT_API_VERSIONS)
        self.api_versions_error = 0
        self.old_broker_mode = "close"  # what a broker without ApiVersions does: "close" | "ignore"
        self.max_magic = 1
        self.conns = []
        self.log = []
        self.response_hook = None  # fn(broker, header, body, response) -> response (stale views etc.)

    def __repr__(self):
        return "<Broker %d %s:%d %s>" % (self.node_id, self.host, self.port, "up" if self.alive else "DOWN")

    def advertises(self, api_key, version):
        if self.api_versions is None:  # pre-0.10 broker: everything it knows at the old versions
            return api_key != R.API_VERSIONS and (api_key, version) in _OLD_BROKER_VERSIONS
        for k, lo, hi in self.api_versions:
            if k == api_key:
                return lo <= version <= hi
        return False

    def open_conns(self):
        return [bc for bc in self.conns if not bc.dead]


_OLD_BROKER_VERSIONS = {
    (0, 0), (0, 1), (1, 0), (1, 1), (2, 0), (3, 0), (8, 0), (8, 1), (8, 2), (9, 0), (9, 1), (10, 0),
    (11, 0), (12, 0), (13, 0), (14, 0),
}  # fmt: skip  (Kafka 0.9)


class Fault(object):
    def __init__(self, action, api, broker, topic, partition, group, conn, nth, times, when, t_from, t_to, name, params):
        self.action, self.api, self.broker = action, api_key_of(api), broker
        self.topic, self.partition, self.group, self.conn = topic, partition, group, conn
        self.nth = {nth} if isinstance(nth, int) else (set(nth) if nth is not None else None)
        self.times, self.when, self.t_from, self.t_to = times, when, t_from, t_to
        self.name = name or action
        self.params = params
        self.seen = 0
        self.fired = 0
        self.active = True

    def cancel(self):
        self.active = False

    def hits_partition(self, topic, partition):
        return (self.topic is None or self.topic == topic) and (self.partition is None or self.partition == partition)

    def _static_match(self, now, broker, bconn, header, body):
        if not self.active:
            return False
        if self.api is not None and self.api != header[0]:
            return False
        if self.broker is not None and self.broker != broker.node_id:
            return False
        if self.conn is not None and self.conn != bconn.cid:
            return False
        if self.t_from is not None and now < self.t_from:
            return False
        if self.t_to is not None and now >= self.t_to:
            return False
        if self.group is not None and body.get("group_id") != self.group:
            return False
        if self.topic is not None or self.partition is not None:
            tps = _request_tps(header[0], body)
            if not any(self.hits_partition(t, p) for t, p in tps):
                return False
        if self.when is not None and not self.when(header, body):
            return False
        return True

    def take(self, now, broker, bconn, header, body):
        if not self._static_match(now, broker, bconn, header, body):
            return False
        self.seen += 1
        if self.nth is not None:
            hit = self.seen in self.nth
        else:
            hit = self.times is None or self.fired < self.times
        if hit:
            self.fired += 1
        return hit

    def __repr__(self):
        return "<Fault %s seen=%d fired=%d>" % (self.name, self.seen, self.fired)


def _request_tps(api_key, body):
    if api_key == R.METADATA:
        return [(t, None) for t in body.get("topics", [])]
    out = []
    for t in body.get("topics", []) if isinstance(body.get("topics"), list) else []:
        if isinstance(t, dict):
            for p in t.get("partitions", []):
                out.append((t["topic"], p["partition"]))
    return out


# =========================================================================== the cluster


class Cluster(object):
    def __init__(self, brokers=3, world=None, rng=None, connect_delay=0, auto_create_topics=False,
                 default_partitions=1, chunk_rng=None, strict_action="lenient"):  # fmt: skip
        """brokers: int (node ids 1..n) or [(node_id, host, port)].
        connect_delay: None = connections are accepted synchronously inside `connect()`; a number =
            accepted that many virtual seconds later (0 = the next reactor turn, the default).
        chunk_rng: a random.Random; when given every response is delivered cut into random pieces.
        strict_action: what to do with a frame that fails the strict parse only because of trailing
            bytes: "lenient" = record the violation, then serve it as a real broker would;
            "close" = record and close the connection.  Frames that do not parse at all always close.
        """
        self.world = world or World()
        self.clock, self.net = self.world.clock, self.world.net
        self.rng = rng or random.Random(0)
        self.connect_delay = connect_delay
        self.auto_create_topics = auto_create_topics
        self.default_partitions = default_partitions
        self.chunk_rng = chunk_rng
        self.strict_action = strict_action
        self.brokers = collections.OrderedDict()
        self.by_addr = {}
        self.topics = collections.OrderedDict()
        self.groups = collections.OrderedDict()
        self.coordinators = {}  # group -> node id (sticky)
        self.former_coordinators = {}  # group -> set(node ids that answer NOT_COORDINATOR)
        self.offsets = {}  # (group, topic, partition) -> {"offset","metadata","t","generation","member"}
        self.commits = []  # every applied commit, in order (ground truth for C03/C16)
        self.log = []
        self.violations = []
        self.faults = []
        self.join_window = 0.0
        self.rebalance_timeout = None  # seconds; None = max session timeout of the members (Kafka 0.10.0)
        self.session_timeout_range = (1, 3600000)  # ms; Kafka's default is (6000, 30000)
        self.offset_metadata_max = 4096
        self.acks0_close_on_error = True
        self._seq = 0
        self._member_seq = 0
        self._outbox = collections.deque()
        self._bconns = {}
        self._live = []  # connections that can still move bytes
        self._seen_conns = 0
        self.max_rounds = 20000  # settle() gives up (Livelock) after this many rounds at one instant
        self.net.policy = self._on_connect
        self.net.on_frame = self._on_frame
        if isinstance(brokers, int):
            brokers = [(i, "kafka%d.sim" % i, 9092) for i in range(1, brokers + 1)]
        for node_id, host, port in brokers:
            self.add_broker(node_id, host, port)

    # ------------------------------------------------------------------ topology
    def add_broker(self, node_id, host, port):
        b = Broker(self, node_id, host, port)
        self.brokers[node_id] = b
        self.by_addr[(host, port)] = b
        return b

    def broker(self, node_id):
        return self.brokers[node_id]

    def hosts(self, only=None):
        """Bootstrap string "host:port,..." of the brokers (or of the node ids in `only`)."""
        return ",".join("%s:%d" % (b.host, b.port) for b in self.brokers.values() if only is None or b.node_id in only)

    def alive_ids(self):
        return [b.node_id for b in self.brokers.values() if b.alive]

    def add_topic(self, name, partitions=1, leaders=None, replicas=None, partition_ids=None, message_format=None):
        """leaders: list of node ids (one per partition) | None = round robin over brokers."""
        t = Topic(name)
        t.message_format = message_format
        ids = list(partition_ids) if partition_ids is not None else list(range(partitions))
        nodes = list(self.brokers)
        for i, pid in enumerate(ids):
            leader = leaders[i] if leaders is not None else nodes[i % len(nodes)]
            reps = replicas[i] if replicas is not None else [leader]
            t.partitions[pid] = Partition(name, pid, leader, reps)
        self.topics[name] = t
        self._admin("add_topic", topic=name, partitions=ids, leaders=[p.leader for p in t.partitions.values()])
        return t

    def partition(self, topic, partition):
        return self.topics[topic].partitions[partition]

    def log_of(self, topic, partition):
        return self.topics[topic].partitions[partition].log

    def leader_of(self, topic, partition):
        return self.topics[topic].partitions[partition].leader

    def append(self, topic, partition, values, **kw):
        """PartitionLog.put with the virtual clock for timestamps."""
        kw.setdefault("now_ms", self.now_ms())
        return self.log_of(topic, partition).put(values, **kw)

    def now(self):
        return self.clock.seconds()

    def now_ms(self):
        return int(round(self.clock.seconds() * 1000))

    # ------------------------------------------------------------------ pump
    def _flush(self):
        conns = self.net.conns
        if self._seen_conns < len(conns):
            self._live.extend(conns[self._seen_conns:])
            self._seen_conns = len(conns)
        moved, keep = False, []
        for c in self._live:
            if c.pump.flush():
                moved = True
            if not (c.ct.disconnected and c.st.disconnected):
                keep.append(c)
        self._live = keep
        return moved

    def _drain_outbox(self):
        did = False
        while self._outbox:
            bconn, data, cuts, then_drop = self._outbox.popleft()
            did = True
            if bconn.dead:
                continue
            bconn.conn.deliver_chunked(data, cuts)
            if then_drop:
                self._close(bconn)
        return did

    def _run_due(self):
        now = self.clock.seconds()
        if any(c.getTime() <= now for c in self.clock.getDelayedCalls()):
            self.clock.advance(0)
            return True
        return False

    def settle(self, max_iter=None):
        """Move bytes and run the timers that are due NOW until nothing moves."""
        max_iter = max_iter or self.max_rounds
        for _ in range(max_iter):
            a = self._drain_outbox()
            b = self._flush()
            c = self._run_due()
            if not (a or b or c):
                return
        raise Livelock("no quiescence at virtual time %r after %d rounds" % (self.clock.seconds(), max_iter))

    def next_timer(self):
        ts = [c.getTime() for c in self.clock.getDelayedCalls()]
        return min(ts) if ts else None

    def step(self, limit=None):
        """Settle, then jump to the next timer (not beyond `limit`, an absolute time) and settle again.
        -> False when there was no timer to run."""
        self.settle()
        nxt = self.next_timer()
        if nxt is None or (limit is not None and nxt > limit):
            return False
        self.clock.advance(max(0.0, nxt - self.clock.seconds()))
        self.settle()
        return True

    def advance(self, dt):
        target = self.clock.seconds() + dt
        while self.step(limit=target):
            pass
        if target > self.clock.seconds():
            self.clock.advance(target - self.clock.seconds())
        self.settle()

    def run_until(self, pred, timeout=60.0):
        """Step timer by timer until pred() (-> True) or `timeout` virtual seconds passed (-> False)."""
        deadline = self.clock.seconds() + timeout
        self.settle()
        while not pred():
            if not self.step(limit=deadline):
                if self.clock.seconds() < deadline and self.next_timer() is not None:
                    self.advance(deadline - self.clock.seconds())
                return bool(pred())
        return True

    def run_until_idle(self, timeout=60.0):
        """Run until no timer is pending (-> True) or `timeout` virtual seconds passed (-> False)."""
        deadline = self.clock.seconds() + timeout
        while self.step(limit=deadline):
            pass
        self.settle()
        return self.next_timer() is None

    # ------------------------------------------------------------------ logging helpers
    def _record(self, entry, broker=None):
        self._seq += 1
        entry["n"] = self._seq
        entry.setdefault("t", self.clock.seconds())
        self.log.append(entry)
        if broker is not None:
            broker.log.append(entry)
        return entry

    def _admin(self, what, **kw):
        return self._record(dict(kind="admin", what=what, **kw))

    def _violation(self, broker, bconn, what, err, frame):
        v = dict(kind="violation", broker=broker.node_id, conn=bconn.cid, what=what, error=str(err), frame=bytes(frame))
        self._record(v, broker)
        self.violations.append(v)
        return v

    def requests(self, api=None, broker=None, conn=None):
        k = api_key_of(api)
        return [
            e for e in self.log
            if e["kind"] == "request" and (k is None or e["api_key"] == k)
            and (broker is None or e["broker"] == broker) and (conn is None or e["conn"] == conn)
        ]  # fmt: skip

    # ------------------------------------------------------------------ connections
    def _on_connect(self, pending):
        b = self.by_addr.get((pending.host, pending.port))
        rec = dict(kind="connect", host=pending.host, port=pending.port, broker=b.node_id if b else None, conn=None)
        if b is None or not b.alive or b.mode == "refuse":
            rec["result"] = "refused"
            self._record(rec, b)
            self._later(self.connect_delay, self._refuse, pending)
            return
        if b.mode == "blackhole":
            rec["result"] = "blackholed"
            self._record(rec, b)
            if b.connect_timeout is not None:
                self.clock.callLater(b.connect_timeout, self._refuse, pending, error.TimeoutError("connect timed out"))
            return
        rec["result"] = "accepting"
        self._record(rec, b)
        self._later(self.connect_delay, self._accept, pending, b, rec)

    def _later(self, delay, fn, *a):
        if delay is None:
            fn(*a)
        else:
            self.clock.callLater(delay, fn, *a)

    def _refuse(self, pending, exc=None):
        if pending.done or pending.cancelled:
            return
        pending.refuse(exc)

    def _accept(self, pending, b, rec):
        if pending.done or pending.cancelled:
            rec["result"] = "cancelled"
            return
        if not b.alive or b.mode != "accept" or self.by_addr.get((pending.host, pending.port)) is not b:
            rec["result"] = "refused"
            pending.refuse()
            return
        # Pending.accept builds the Conn and then fires the client's Deferred; frames the client writes
        # inside that callback are delivered on the next flush.
        conn = pending.accept()
        self._bconn_for(conn)
        rec["result"] = "accepted"
        rec["conn"] = conn.cid

    def _bconn_for(self, conn):
        bc = self._bconns.get(conn.cid)
        if bc is None:
            b = self.by_addr.get((conn.host, conn.port))
            bc = BrokerConn(b, conn)
            self._bconns[conn.cid] = bc
            b.conns.append(bc)
            conn.on_close = self._on_conn_closed
        return bc

    def _on_conn_closed(self, conn, reason):
        bc = self._bconns.get(conn.cid)
        if bc is None or bc.dead:
            return
        bc.dead = True
        self._record(dict(kind="close", broker=bc.broker.node_id, conn=bc.cid, by="peer"), bc.broker)
        self._cancel_parked(bc, "conn-closed")

    def _cancel_parked(self, bc, reason):
        parked, bc.parked = bc.parked, []
        for cancel in parked:
            cancel(reason)
        if bc.busy is not None and bc.busy.get("fate") in ("parked", "delayed", "silent"):
            if bc.busy["fate"] != "silent":
                bc.busy["fate"] = reason
        bc.busy = None
        for entry, _ in bc.inbox:
            entry["fate"] = "never-served"
        bc.inbox.clear()

    def _close(self, bc, by="broker"):
        """The broker closes a connection."""
        if bc.dead:
            return
        bc.dead = True
        self._record(dict(kind="close", broker=bc.broker.node_id, conn=bc.cid, by=by), bc.broker)
        bc.conn.drop()
        self._cancel_parked(bc, "conn-closed")

    # ------------------------------------------------------------------ request intake
    def _on_frame(self, conn, frame):
        """A complete frame arrived: validate and log it NOW (even if the channel is muted and it will be
        served later, or never), then queue it behind what this connection still has to answer."""
        bc = self._bconn_for(conn)
        if bc.dead:
            return
        b = bc.broker
        entry = dict(kind="request", broker=b.node_id, conn=bc.cid, api=None, api_key=None, version=None, corr=None,
                     client_id=None, request=None, applied=[], response=None, fate="queued", t_processed=None,
                     t_sent=None, fault=None, frame_len=len(frame))  # fmt: skip
        self._record(entry, b)
        bc.inbox.append((entry, self._parse(bc, entry, frame)))
        self._drain(bc)

    def _parse(self, bc, entry, frame):
        """Strict parse + violations.  -> ("serve", header, body) | ("close", fate) | ("old-broker",) |
        ("answer", header, response body)"""
        b = bc.broker
        try:
            header = R.request_header(frame)
        except R.CodecError as e:
            self._violation(b, bc, "unparseable header", e, frame)
            return ("close", "unparseable")
        key, ver = header[0], header[1]
        entry.update(api=R.api_name(key), api_key=key, version=ver, corr=header[2], client_id=header[3])
        if key == R.API_VERSIONS and ver != 0 and b.api_versions is not None:
            # a broker answers an ApiVersions version it does not know with error 35 in the v0 layout
            return ("answer", (key, 0, header[2], header[3]), self._api_versions_body(b, E["UNSUPPORTED_VERSION"]))
        if (key, ver) not in R.SCHEMAS:
            if key == R.API_VERSIONS and b.api_versions is None:
                return ("old-broker",)
            self._violation(b, bc, "unsupported api/version %s v%d" % (R.api_name(key), ver), "no schema", frame)
            return ("close", "unsupported")
        try:
            header, body = R.parse_request(frame)
        except R.CodecError as strict_err:
            try:
                header, body = R.parse_request(frame, allow_trailing=True)
            except R.CodecError as e:
                self._violation(b, bc, "malformed %s v%d request" % (R.api_name(key), ver), e, frame)
                return ("close", "unparseable")
            self._violation(b, bc, "trailing bytes after %s v%d request" % (R.api_name(key), ver), strict_err, frame)
            if self.strict_action == "close":
                entry["request"] = body
                return ("close", "unparseable")
        entry["request"] = body
        if key == R.API_VERSIONS and b.api_versions is None:
            return ("old-broker",)
        if not b.advertises(key, ver):
            self._violation(b, bc, "version not advertised by the broker: %s v%d" % (entry["api"], ver), "", frame)
            return ("close", "unsupported")
        return ("serve", header, body)

    def _drain(self, bc):
        while bc.inbox and bc.busy is None and not bc.dead:
            self._process(bc, *bc.inbox.popleft())

    def _process(self, bc, entry, parsed):
        b = bc.broker
        entry["t_processed"] = self.clock.seconds()
        entry["fate"] = None
        if parsed[0] == "close":
            entry["fate"] = parsed[1]
            return self._close(bc)
        if parsed[0] == "old-broker":
            return self._old_broker(bc, entry)
        if parsed[0] == "answer":
            return self._finish(bc, entry, parsed[1], parsed[2])
        _, header, body = parsed
        if b.silent:
            entry["fate"] = "silent"
            bc.busy = entry
            return
        fault = None
        now = self.clock.seconds()
        for f in self.faults:
            if f.take(now, b, bc, header, body):
                fault = f
                break
        if fault is not None:
            entry["fault"] = fault.name
            return self._apply_fault(fault, bc, entry, header, body)
        self._dispatch(bc, entry, header, body, None)

    def _old_broker(self, bc, entry):
        """A pre-0.10 broker got an ApiVersions request."""
        b = bc.broker
        if b.old_broker_mode == "ignore":
            entry["fate"] = "silent"  # dropped on the floor; the connection keeps working
        else:
            entry["fate"] = "unsupported"
            self._close(bc)

    def inject(self, action, api=None, broker=None, topic=None, partition=None, group=None, conn=None, nth=None,
               times=1, when=None, t_from=None, t_to=None, name=None, **params):  # fmt: skip
        assert action in ("error", "silent", "delay", "drop_before", "drop_after", "drop_mid", "hook"), action
        f = Fault(action, api, broker, topic, partition, group, conn, nth, times, when, t_from, t_to, name, params)
        self.faults.append(f)
        return f

    def clear_faults(self):
        self.faults = []

    def _apply_fault(self, f, bc, entry, header, body):
        a, p = f.action, f.params
        if a == "drop_before":
            entry["fate"] = "dropped-before"
            return self._close(bc)
        if a == "silent":
            if p.get("apply"):
                self._dispatch(bc, entry, header, body, None, deliver=False)
            entry["fate"] = "silent"
            entry["response"] = None
            if p.get("block", True):
                bc.busy = entry  # a hung request handler: nothing behind it on this connection is served
            return
        if a == "error":
            return self._dispatch(bc, entry, header, body, f)
        if a == "delay":
            return self._dispatch(bc, entry, header, body, None, delay=p.get("seconds", 1.0))
        if a == "drop_after":
            self._dispatch(bc, entry, header, body, None, deliver=False)
            entry["fate"] = "dropped-after"
            return self._close(bc)
        if a == "drop_mid":
            return self._dispatch(bc, entry, header, body, None, cut=p)
        if a == "hook":
            r = p["fn"](self, bc.broker, bc, header, body)
            if r is None:
                return self._dispatch(bc, entry, header, body, None)
            if r is NO_RESPONSE:
                entry["fate"] = "silent"
                bc.busy = entry
                return
            return self._finish(bc, entry, header, r)
        raise AssertionError(a)

    # ------------------------------------------------------------------ dispatch and delivery
    def _dispatch(self, bc, entry, header, body, fault, deliver=True, delay=None, cut=None):
        """Run the handler.  fault: an "error" Fault or None.  deliver=False: apply, never answer."""
        handler = self._handlers[header[0]]
        ctx = _Ctx(self, bc, entry, header, body, fault)
        ctx.delivery = dict(delay=delay, cut=cut, deliver=deliver)
        resp = handler(self, ctx)
        if resp is _ALREADY_ANSWERED:
            return
        if resp is _PARKED:
            if deliver:
                entry["fate"] = "parked"
                bc.busy = entry
            return
        if resp is NO_RESPONSE:
            entry["fate"] = entry["fate"] or "no-response"
            return
        self._finish(bc, entry, header, resp, **ctx.delivery)

    def _finish(self, bc, entry, header, resp, delay=None, cut=None, deliver=True):
        """Send `resp` (body dict) for `entry` now, late, or partially (or, deliver=False, not at all)."""
        b = bc.broker
        if b.response_hook is not None:
            resp = b.response_hook(b, header, entry["request"], resp)
        entry["response"] = resp
        if not deliver:
            entry["withheld"] = True
            return
        total = (delay or 0) + (b.response_delay or 0)
        if total > 0:
            entry["fate"] = "delayed"
            bc.busy = entry
            dc = self.clock.callLater(total, self._send, bc, entry, header, resp, cut)
            bc.parked.append(lambda reason, dc=dc: dc.cancel() if dc.active() else None)
            return
        self._send(bc, entry, header, resp, cut)

    def _send(self, bc, entry, header, resp, cut=None):
        if bc.dead:
            entry["fate"] = "conn-closed"
            return
        bc.parked = []
        payload = R.encode_response(header[0], header[1], header[2], resp)
        framed = R.frame(payload)
        entry["t_sent"] = self.clock.seconds()
        self._seq += 1
        entry["n_sent"] = self._seq  # position of the answer in the global order (same counter as "n")
        bc.busy = None
        if cut is not None:
            n = cut.get("nbytes")
            if n is None:
                n = int(len(framed) * cut.get("fraction", 0.5))
            n = max(0, min(len(framed) - 1, n))
            entry["fate"] = "dropped-mid"
            entry["sent_bytes"] = n
            if self.chunk_rng is not None:
                self._outbox.append((bc, framed[:n], self._cuts(n), True))
                return
            bc.conn.send_raw(framed[:n])
            self._close(bc)
            return
        entry["fate"] = "answered"
        if self.chunk_rng is not None:
            self._outbox.append((bc, framed, self._cuts(len(framed)), False))
        else:
            bc.conn.send_raw(framed)
        self._drain(bc)

    def _cuts(self, n):
        k = self.chunk_rng.choice([0, 0, 1, 2, 3, 5])
        return sorted(self.chunk_rng.randrange(1, n) for _ in range(k)) if n > 1 else []

    # ------------------------------------------------------------------ admin / topology faults
    def kill_broker(self, node_id, elect=True):
        """Broker goes down: connections drop, connects are refused.  elect=True moves leadership of its
        partitions to another live replica (or to -1 when there is none)."""
        b = self.brokers[node_id]
        b.alive = False
        self._admin("kill_broker", broker=node_id, elect=elect)
        for bc in list(b.conns):
            self._close(bc)
        for t in self.topics.values():
            for p in t.partitions.values():
                if p.leader == node_id:
                    if elect:
                        cands = [r for r in p.replicas if r != node_id and self.brokers[r].alive]
                        self._set_leader(p, cands[0] if cands else -1)
                    else:
                        self._set_leader(p, -1)
        if elect:
            self._failover_coordinators(node_id)

    def _failover_coordinators(self, dead):
        """The offsets-topic partitions led by a dead broker get new leaders: its groups move (state kept)."""
        ids = [b.node_id for b in self.brokers.values() if b.alive and b.in_metadata and b.node_id != dead]
        for group, node in list(self.coordinators.items()):
            if node == dead and ids:
                self.move_coordinator(group, ids[zlib.crc32(group.encode("utf-8")) % len(ids)])

    def heal_silence(self, node_id):
        """A hung broker comes back to life: `silent` is cleared and the connections it left muted behind a
        swallowed request are reset (clients re-send what they still wait for)."""
        b = self.brokers[node_id]
        b.silent = False
        self._admin("heal_silence", broker=node_id)
        for bc in list(b.conns):
            if not bc.dead and bc.busy is not None and bc.busy.get("fate") == "silent":
                self._close(bc)

    def start_broker(self, node_id):
        b = self.brokers[node_id]
        b.alive = True
        self._admin("start_broker", broker=node_id)

    def restart_broker(self, node_id, host=None, port=None):
        """Bounce a broker; with host/port it comes back at a new address (the old one refuses)."""
        b = self.brokers[node_id]
        for bc in list(b.conns):
            self._close(bc)
        if host is not None or port is not None:
            self.by_addr.pop((b.host, b.port), None)
            b.host = host if host is not None else b.host
            b.port = port if port is not None else b.port
            self.by_addr[(b.host, b.port)] = b
        b.alive = True
        self._admin("restart_broker", broker=node_id, host=b.host, port=b.port)

    def remove_from_metadata(self, node_id):
        self.brokers[node_id].in_metadata = False
        self._admin("remove_from_metadata", broker=node_id)

    def restore_to_metadata(self, node_id):
        self.brokers[node_id].in_metadata = True
        self._admin("restore_to_metadata", broker=node_id)

    def _set_leader(self, p, new):
        old, p.leader = p.leader, new
        if new != -1 and new not in p.replicas:
            p.replicas.append(new)
            p.isr.append(new)
        p.former.pop(new, None)
        self._admin("leader", topic=p.topic, partition=p.id, old=old, new=new)
        p.log._notify()  # parked fetches at the old leader complete with an error

    def move_leader(self, topic, partition, new, old="not_leader"):
        """Leadership moves to node `new` (-1: no leader).  `old`: how the former leader answers for that
        partition afterwards: "not_leader" (error 6), "unknown" (error 3), "silent" (requests naming it get
        no answer at all - a lost answer, the connection is NOT muted) or "down" (the old broker is killed;
        its groups fail over to another coordinator)."""
        p = self.partition(topic, partition)
        prev = p.leader
        if prev != -1 and prev != new:
            if old == "down":
                self.brokers[prev].alive = False
                for bc in list(self.brokers[prev].conns):
                    self._close(bc)
                self._admin("kill_broker", broker=prev, elect=False)
                self._failover_coordinators(prev)
            else:
                p.former[prev] = old
        self._set_leader(p, new)

    def coordinator_of(self, group):
        """Node id of the group's coordinator (sticky once chosen), or None when no live broker."""
        n = self.coordinators.get(group)
        if n is None:
            ids = [b.node_id for b in self.brokers.values() if b.alive and b.in_metadata]
            if not ids:
                return None
            n = ids[zlib.crc32(group.encode("utf-8")) % len(ids)]
            self.coordinators[group] = n
        return n

    def set_coordinator(self, group, node_id):
        self.coordinators[group] = node_id

    def move_coordinator(self, group, node_id, lose_state=False):
        old = self.coordinator_of(group)
        self.coordinators[group] = node_id
        self._admin("move_coordinator", group=group, old=old, new=node_id, lose_state=lose_state)
        g = self.groups.get(group)
        if g is None:
            return
        # requests parked at the old coordinator fail with NOT_COORDINATOR
        for m in list(g.members.values()):
            for attr, key in (("join_parked", R.JOIN_GROUP), ("sync_parked", R.SYNC_GROUP)):
                parked = getattr(m, attr)
                if parked is not None:
                    setattr(m, attr, None)
                    self._answer_parked(parked, self._group_error_body(key, E["NOT_COORDINATOR"]))
        if lose_state:
            for m in g.members.values():
                if m.timer is not None and m.timer.active():
                    m.timer.cancel()
            for t in (g.join_timer, g.window_timer):
                if t is not None and t.active():
                    t.cancel()
            g.members.clear()
            g.state, g.leader, g.protocol = EMPTY, None, None
            self._group_event(g, "state-lost")

    # ------------------------------------------------------------------ groups: public helpers
    def group(self, group_id):
        g = self.groups.get(group_id)
        if g is None:
            g = self.groups[group_id] = Group(group_id)
        return g

    def complete_join(self, group_id):
        """Explicit control (with group.hold = True): let the pending rebalance complete now with the
        members that have joined."""
        g = self.group(group_id)
        if g.state == PREPARING:
            self._complete_join(g)

    def committed(self, group, topic, partition):
        o = self.offsets.get((group, topic, partition))
        return None if o is None else o["offset"]

    def _group_event(self, g, event, **kw):
        self._record(dict(kind="group", group=g.group_id, event=event, **dict(g.snapshot(), **kw)))

    # ------------------------------------------------------------------ handlers are attached below
    _handlers = {}


class _Ctx(object):
    """Per-request context handed to the handlers."""

    def __init__(self, cluster, bc, entry, header, body, fault):
        self.cluster, self.bc, self.broker = cluster, bc, bc.broker
        self.entry, self.header, self.body, self.fault = entry, header, body, fault
        self.delivery = {}
        self.cancel_marker = None

    @property
    def version(self):
        return self.header[1]

    def forced(self, topic=None, partition=None):
        """Error code an injected "error" fault forces for this partition (or None)."""
        f = self.fault
        if f is None or not f.hits_partition(topic, partition):
            return None
        return f.params.get("code", E["UNKNOWN"])

    def forced_apply(self):
        return bool(self.fault is not None and self.fault.params.get("apply"))

    def applied(self, **kw):
        self.entry["applied"].append(kw)


def _group_by_topic(items):
    """[(topic, partition_dict)] -> protocol 'topics' array, first-seen topic order."""
    out = collections.OrderedDict()
    for t, p in items:
        out.setdefault(t, []).append(p)
    return [{"topic": t, "partitions": ps} for t, ps in out.items()]


# --------------------------------------------------------------------------- partition-level checks


def _partition_for(cluster, broker, topic, partition):
    """-> (Partition | None, error code, silent?) as seen by `broker`."""
    t = cluster.topics.get(topic)
    if t is None or partition not in t.partitions:
        return None, E["UNKNOWN_TOPIC_OR_PARTITION"], False
    p = t.partitions[partition]
    if p.leader != broker.node_id:
        how = p.former.get(broker.node_id, "not_leader")
        if how == "unknown":
            return None, E["UNKNOWN_TOPIC_OR_PARTITION"], False
        if how == "silent":
            return None, E["NOT_LEADER_FOR_PARTITION"], True
        return None, E["NOT_LEADER_FOR_PARTITION"], False
    return p, 0, False


# --------------------------------------------------------------------------- Produce


def _h_produce(self, ctx):
    body, v = ctx.body, ctx.version
    acks = body["acks"]
    results = []
    any_error = False
    silent = False
    for t in body["topics"]:
        for pd in t["partitions"]:
            topic, pid = t["topic"], pd["partition"]
            code = ctx.forced(topic, pid)
            base, last, logical = -1, -1, []
            if code is None or ctx.forced_apply():
                if acks not in (0, 1, -1):
                    err = E["INVALID_REQUIRED_ACKS"]
                else:
                    p, err, sil = _partition_for(self, ctx.broker, topic, pid)
                    silent = silent or sil
                    if p is not None:
                        msgs = pd["messages"]
                        tconf = self.topics[topic]
                        if any(m["magic"] > ctx.broker.max_magic for m in msgs):
                            err = E["CORRUPT_MESSAGE"]
                        elif any(len(R.encode_message(m)) + 12 > tconf.max_message_bytes for m in msgs):
                            err = E["MESSAGE_TOO_LARGE"]
                        else:
                            try:
                                if msgs:
                                    base, last, logical = p.log.append_shallow(msgs, self.now_ms(), tconf.message_format)
                                else:
                                    base = p.log.next
                            except R.CodecError:
                                err = E["CORRUPT_MESSAGE"]
                if code is None:
                    code = err
            if code != 0:
                any_error = True
            ctx.applied(
                op="append", topic=topic, partition=pid, error=code, base_offset=base, last_offset=last,
                messages=[(m["offset"], m["key"], m["value"]) for m in logical],
            )  # fmt: skip
            r = {"partition": pid, "error_code": code, "base_offset": base if code == 0 or logical else -1}
            if v >= 2:
                r["log_append_time"] = -1
            results.append((topic, r))
    if silent:
        ctx.entry["fate"] = "silent"  # the answer is lost; the connection keeps being served
        return NO_RESPONSE
    if acks == 0:
        if any_error and self.acks0_close_on_error:
            ctx.entry["fate"] = "closed-acks0-error"
            self._close(ctx.bc)
        return NO_RESPONSE
    resp = {"topics": _group_by_topic(results)}
    if v >= 1:
        resp["throttle_time_ms"] = 0
    return resp


# --------------------------------------------------------------------------- Fetch


class _ParkedFetch(object):
    def __init__(self, cluster, ctx):
        self.cluster, self.ctx = cluster, ctx
        self.done = False
        self.logs = []
        self.timer = None

    def park(self, wait_s):
        c = self.cluster
        for t in self.ctx.body["topics"]:
            for pd in t["partitions"]:
                tp = c.topics.get(t["topic"])
                if tp is not None and pd["partition"] in tp.partitions:
                    log = tp.partitions[pd["partition"]].log
                    log.listeners.append(self.poke)
                    self.logs.append(log)
        self.timer = c.clock.callLater(wait_s, self.complete)
        self.ctx.bc.parked.append(self.cancel)

    def _unhook(self):
        for log in self.logs:
            if self.poke in log.listeners:
                log.listeners.remove(self.poke)
        self.logs = []
        if self.timer is not None and self.timer.active():
            self.timer.cancel()

    def poke(self):
        if self.done:
            return
        resp, enough, _ = _fetch_response(self.cluster, self.ctx)
        if enough:
            self.complete(resp)

    def complete(self, resp=None):
        if self.done:
            return
        self.done = True
        self._unhook()
        if resp is None:
            resp, _, _ = _fetch_response(self.cluster, self.ctx)
        ctx = self.ctx
        if self.cancel in ctx.bc.parked:
            ctx.bc.parked.remove(self.cancel)
        _fetch_record(ctx, resp)
        ctx.cluster._finish(ctx.bc, ctx.entry, ctx.header, resp, **ctx.delivery)

    def cancel(self, reason):
        self.done = True
        self._unhook()


def _fetch_response(self, ctx):
    """-> (response body, enough to answer now?, silent?)"""
    body, v = ctx.body, ctx.version
    results, total, immediate, silent = [], 0, False, False
    for t in body["topics"]:
        for pd in t["partitions"]:
            topic, pid, off, mx = t["topic"], pd["partition"], pd["fetch_offset"], pd["max_bytes"]
            code = ctx.forced(topic, pid)
            data, hw = b"", -1
            if code is None:
                p, code, sil = _partition_for(self, ctx.broker, topic, pid)
                silent = silent or sil
                if p is not None:
                    log = p.log
                    if off < log.start or off > log.next:
                        code = E["OFFSET_OUT_OF_RANGE"]
                    else:
                        hw = log.next
                        data = log.read(off, mx, down_convert_to=0 if v < 2 else None)
            if code != 0:
                immediate = True
            total += len(data)
            results.append((topic, {"partition": pid, "error_code": code, "high_watermark": hw, "record_set": data}))
    resp = {"topics": _group_by_topic(results)}
    if v >= 1:
        resp["throttle_time_ms"] = 0
    enough = immediate or total >= body["min_bytes"] or body["max_wait_time"] <= 0 or not results
    return resp, enough, silent


def _fetch_record(ctx, resp):
    for t in resp["topics"]:
        for p in t["partitions"]:
            whole, consumed = R.split_message_set(p["record_set"])
            ctx.applied(
                op="fetch", topic=t["topic"], partition=p["partition"], error=p["error_code"],
                high_watermark=p["high_watermark"], nbytes=len(p["record_set"]), whole_entries=len(whole),
                partial_tail=len(p["record_set"]) - consumed,
                first_offset=whole[0][0] if whole else None, last_offset=whole[-1][0] if whole else None,
            )  # fmt: skip


def _h_fetch(self, ctx):
    resp, enough, silent = _fetch_response(self, ctx)
    if silent:
        ctx.entry["fate"] = "silent"  # the answer is lost; the connection keeps being served
        return NO_RESPONSE
    if enough:
        _fetch_record(ctx, resp)
        return resp
    _ParkedFetch(self, ctx).park(ctx.body["max_wait_time"] / 1000.0)
    return _PARKED


# --------------------------------------------------------------------------- ListOffsets v0


def _h_list_offsets(self, ctx):
    results = []
    for t in ctx.body["topics"]:
        for pd in t["partitions"]:
            topic, pid = t["topic"], pd["partition"]
            code = ctx.forced(topic, pid)
            offsets = []
            if code is None:
                p, code, _ = _partition_for(self, ctx.broker, topic, pid)
                if p is not None:
                    ts, mx = pd["timestamp"], pd["max_num_offsets"]
                    log = p.log
                    if ts == -1:
                        offsets = [log.next] + ([log.start] if log.start != log.next else [])
                    elif ts == -2:
                        offsets = [log.start]
                    elif ts >= 0 and (log.last_append_ms < 0 or ts >= log.last_append_ms):
                        offsets = [log.start]  # the one segment was last modified before ts
                    offsets = offsets[: max(0, mx)]
            ctx.applied(op="list_offsets", topic=topic, partition=pid, error=code, offsets=list(offsets))
            results.append((topic, {"partition": pid, "error_code": code, "offsets": offsets}))
    return {"topics": _group_by_topic(results)}


# --------------------------------------------------------------------------- Metadata v0


def metadata_view(self, names=None):
    """The cluster's current metadata as a Metadata v0 response body (names=None/[]: all topics)."""
    brokers = [
        {"node_id": b.node_id, "host": b.host, "port": b.port}
        for b in self.brokers.values() if b.alive and b.in_metadata
    ]  # fmt: skip
    listed = {b["node_id"] for b in brokers}
    topics = []
    for name in names or list(self.topics):
        t = self.topics.get(name)
        if t is None:
            topics.append({"error_code": E["UNKNOWN_TOPIC_OR_PARTITION"], "topic": name, "partitions": []})
            continue
        parts = []
        for p in t.partitions.values():
            leader, code = p.leader, 0
            if leader == -1 or leader not in listed:
                leader, code = -1, E["LEADER_NOT_AVAILABLE"]
            elif any(r not in listed for r in p.replicas):
                code = E["REPLICA_NOT_AVAILABLE"]
            parts.append({
                "error_code": code, "partition": p.id, "leader": leader,
                "replicas": [r for r in p.replicas if r in listed],
                "isr": [r for r in p.isr if r in listed],
            })  # fmt: skip
        topics.append({"error_code": t.error, "topic": name, "partitions": parts if t.error == 0 else []})
    return {"brokers": brokers, "topics": topics}


def _h_metadata(self, ctx):
    names = ctx.body["topics"]
    created = []
    if self.auto_create_topics:
        for n in names:
            if n not in self.topics:
                self.add_topic(n, partitions=self.default_partitions)
                created.append(n)
    resp = metadata_view(self, names)
    for t in resp["topics"]:
        code = ctx.forced(t["topic"], None)
        if code is not None:
            t["error_code"] = code
            t["partitions"] = []
        elif t["topic"] in created:
            # Kafka answers the creating request with LeaderNotAvailable and no partitions
            t["error_code"] = E["LEADER_NOT_AVAILABLE"]
            t["partitions"] = []
    ctx.applied(op="metadata", topics=list(names), full=not names, created=created)
    return resp


# --------------------------------------------------------------------------- FindCoordinator v0


def _h_find_coordinator(self, ctx):
    group = ctx.body["group_id"]
    code = ctx.forced()
    node = None
    if code is None:
        node = self.coordinator_of(group)
        b = self.brokers.get(node) if node is not None else None
        if b is None or not b.alive or not b.in_metadata:
            code = E["COORDINATOR_NOT_AVAILABLE"]
        else:
            code = 0
    ctx.applied(op="find_coordinator", group=group, error=code, node=node if code == 0 else None)
    if code != 0:
        return {"error_code": code, "node_id": -1, "host": "", "port": -1}
    return {"error_code": 0, "node_id": b.node_id, "host": b.host, "port": b.port}


# --------------------------------------------------------------------------- group membership


def _coordinator_error(self, ctx, group):
    """Error code a group request gets before the group is even looked at (or None)."""
    code = ctx.forced()
    if code is not None:
        return code
    if group == "":
        return E["INVALID_GROUP_ID"]
    if self.coordinator_of(group) != ctx.broker.node_id:
        return E["NOT_COORDINATOR"]
    g = self.groups.get(group)
    if g is not None and g.loading:
        return E["COORDINATOR_LOAD_IN_PROGRESS"]
    return None


def _join_error(code, member_id=""):
    return {"error_code": code, "generation_id": -1, "group_protocol": "", "leader_id": "", "member_id": member_id, "members": []}


def _group_error_body(self, api_key, code):
    if api_key == R.JOIN_GROUP:
        return _join_error(code)
    if api_key == R.SYNC_GROUP:
        return {"error_code": code, "assignment": b""}
    return {"error_code": code}


Cluster._group_error_body = _group_error_body


def _answer_parked(self, parked, resp):
    ctx = parked
    ctx.entry["applied"].append(dict(op="group-answer", error=resp.get("error_code")))
    if ctx.cancel_marker in ctx.bc.parked:
        ctx.bc.parked.remove(ctx.cancel_marker)
    self._finish(ctx.bc, ctx.entry, ctx.header, resp, **ctx.delivery)


Cluster._answer_parked = _answer_parked


def _park_group_request(self, ctx, member, attr):
    setattr(member, attr, ctx)

    def cancel(reason, member=member, attr=attr, ctx=ctx):
        if getattr(member, attr) is ctx:
            setattr(member, attr, None)
            # the member stays in the group until its session expires

    ctx.cancel_marker = cancel
    ctx.bc.parked.append(cancel)
    return _PARKED


def _schedule_session(self, g, m):
    if m.timer is not None and m.timer.active():
        m.timer.cancel()
    m.last_heartbeat = self.clock.seconds()
    m.timer = self.clock.callLater(m.session_timeout / 1000.0, _session_expired, self, g, m)


def _session_expired(self, g, m):
    if g.members.get(m.member_id) is not m:
        return
    if m.join_parked is not None or m.sync_parked is not None:
        _schedule_session(self, g, m)  # Kafka keeps a member alive while it awaits a join/sync answer
        return
    self._group_event(g, "session-expired", member=m.member_id)
    _remove_member(self, g, m, "expired")


def _remove_member(self, g, m, why):
    if m.timer is not None and m.timer.active():
        m.timer.cancel()
    g.members.pop(m.member_id, None)
    if g.leader == m.member_id:
        g.leader = next(iter(g.members), None)
    if g.state in (STABLE, AWAITING_SYNC):
        _prepare_rebalance(self, g, why)
    if g.state == PREPARING:
        _try_complete_join(self, g)


def _prepare_rebalance(self, g, why):
    if g.state == AWAITING_SYNC:
        for m in g.members.values():
            if m.sync_parked is not None:
                parked, m.sync_parked = m.sync_parked, None
                self._answer_parked(parked, {"error_code": E["REBALANCE_IN_PROGRESS"], "assignment": b""})
    was_empty = g.state == EMPTY
    g.state = PREPARING
    self._group_event(g, "rebalance-started", why=why)
    if g.join_timer is not None and g.join_timer.active():
        g.join_timer.cancel()
    timeout = self.rebalance_timeout
    if timeout is None:
        timeout = max([m.session_timeout for m in g.members.values()] or [0]) / 1000.0
    g.join_timer = self.clock.callLater(timeout, _join_deadline, self, g)
    if was_empty and self.join_window > 0:
        g.window_until = self.clock.seconds() + self.join_window
        g.window_timer = self.clock.callLater(self.join_window, _try_complete_join, self, g)
    else:
        g.window_until = None


def _join_deadline(self, g):
    if g.state == PREPARING and not g.hold:
        self._complete_join(g)


def _try_complete_join(self, g):
    if g.state != PREPARING or g.hold:
        return
    if g.window_until is not None and self.clock.seconds() < g.window_until:
        return
    if all(m.join_parked is not None for m in g.members.values()):
        self._complete_join(g)


def _complete_join(self, g):
    for t in (g.join_timer, g.window_timer):
        if t is not None and t.active():
            t.cancel()
    g.join_timer = g.window_timer = g.window_until = None
    for m in [m for m in g.members.values() if m.join_parked is None]:
        if m.timer is not None and m.timer.active():
            m.timer.cancel()
        del g.members[m.member_id]
        self._group_event(g, "member-dropped", member=m.member_id, why="did not rejoin")
    g.generation += 1
    if not g.members:
        g.state, g.leader, g.protocol = EMPTY, None, None
        self._group_event(g, "generation", assignments=None)
        return
    if g.leader not in g.members:
        g.leader = next(iter(g.members))
    # protocol selection: each member votes for its first protocol among those all support
    common = None
    for m in g.members.values():
        names = [n for n, _ in m.protocols]
        common = names if common is None else [n for n in common if n in names]
    votes = collections.Counter()
    for m in g.members.values():
        for n, _ in m.protocols:
            if n in common:
                votes[n] += 1
                break
    g.protocol = max(common, key=lambda n: (votes[n], -common.index(n)))
    g.state = AWAITING_SYNC
    for m in g.members.values():
        m.assignment = b""
    g.history.append(dict(t=self.clock.seconds(), generation=g.generation, members=list(g.members), leader=g.leader,
                          protocol=g.protocol, assignments=None))  # fmt: skip
    self._group_event(g, "generation", assignments=None)
    for m in list(g.members.values()):
        parked, m.join_parked = m.join_parked, None
        _schedule_session(self, g, m)
        members = []
        if m.member_id == g.leader:
            members = [{"member_id": x.member_id, "metadata": x.metadata_for(g.protocol)} for x in g.members.values()]
        self._answer_parked(parked, {
            "error_code": 0, "generation_id": g.generation, "group_protocol": g.protocol, "leader_id": g.leader,
            "member_id": m.member_id, "members": members,
        })  # fmt: skip


Cluster._complete_join = _complete_join


def _h_join_group(self, ctx):
    b = ctx.body
    group, member_id = b["group_id"], b["member_id"]
    code = _coordinator_error(self, ctx, group)
    lo, hi = self.session_timeout_range
    protocols = [(p["name"], p["metadata"]) for p in b["group_protocols"]]
    if code is None and not lo <= b["session_timeout"] <= hi:
        code = E["INVALID_SESSION_TIMEOUT"]
    g = None
    if code is None:
        g = self.group(group)
        if member_id != "" and member_id not in g.members:
            code = E["UNKNOWN_MEMBER_ID"]
        elif g.members and (
            g.protocol_type != b["protocol_type"]
            or not any(all(n in [x for x, _ in m.protocols] for m in g.members.values()) for n, _ in protocols)
        ):
            code = E["INCONSISTENT_GROUP_PROTOCOL"]
        elif not protocols:
            code = E["INCONSISTENT_GROUP_PROTOCOL"]
    if code is not None:
        ctx.applied(op="join", group=group, member=member_id, error=code)
        return _join_error(code, member_id)
    if member_id == "":
        self._member_seq += 1
        member_id = "%s-%08d" % (ctx.header[3] or "member", self._member_seq)
        m = Member(member_id, ctx.header[3], b["session_timeout"], b["protocol_type"], protocols, self._member_seq)
        if not g.members:
            g.protocol_type = b["protocol_type"]
        g.members[member_id] = m
        if g.leader is None:
            g.leader = member_id
        ctx.applied(op="join", group=group, member=member_id, error=0, new=True, state=g.state)
        if g.state != PREPARING:
            _prepare_rebalance(self, g, "member joined: " + member_id)
        _schedule_session(self, g, m)
    else:
        m = g.members[member_id]
        changed = m.protocols != protocols
        ctx.applied(op="join", group=group, member=member_id, error=0, new=False, state=g.state, changed=changed)
        m.session_timeout = b["session_timeout"]
        if g.state == PREPARING:
            m.protocols = protocols
        elif g.state == AWAITING_SYNC and not changed:
            # rejoin with the same metadata before the sync: repeat the answer of this generation
            members = []
            if member_id == g.leader:
                members = [{"member_id": x.member_id, "metadata": x.metadata_for(g.protocol)} for x in g.members.values()]
            return {"error_code": 0, "generation_id": g.generation, "group_protocol": g.protocol, "leader_id": g.leader,
                    "member_id": member_id, "members": members}  # fmt: skip
        elif g.state == STABLE and not changed and member_id != g.leader:
            return {"error_code": 0, "generation_id": g.generation, "group_protocol": g.protocol, "leader_id": g.leader,
                    "member_id": member_id, "members": []}  # fmt: skip
        else:
            m.protocols = protocols
            _prepare_rebalance(self, g, "member rejoined: " + member_id)
    _park_group_request(self, ctx, m, "join_parked")
    if ctx.delivery.get("deliver", True):
        ctx.bc.busy = ctx.entry  # muted until answered (possibly inside this very call)
        ctx.entry["fate"] = "parked"
    _try_complete_join(self, g)
    if m.join_parked is ctx:
        return _PARKED
    return _ALREADY_ANSWERED


def _h_sync_group(self, ctx):
    b = ctx.body
    group, member_id, gen = b["group_id"], b["member_id"], b["generation_id"]
    code = _coordinator_error(self, ctx, group)
    g = self.groups.get(group)
    if code is None:
        if g is None or member_id not in g.members:
            code = E["UNKNOWN_MEMBER_ID"]
        elif gen != g.generation:
            code = E["ILLEGAL_GENERATION"]
        elif g.state in (EMPTY, DEAD):
            code = E["UNKNOWN_MEMBER_ID"]
        elif g.state == PREPARING:
            code = E["REBALANCE_IN_PROGRESS"]
    if code is not None:
        ctx.applied(op="sync", group=group, member=member_id, generation=gen, error=code)
        return {"error_code": code, "assignment": b""}
    m = g.members[member_id]
    if g.state == STABLE:
        ctx.applied(op="sync", group=group, member=member_id, generation=gen, error=0, leader=False, late=True)
        _schedule_session(self, g, m)
        return {"error_code": 0, "assignment": m.assignment}
    # AwaitingSync
    is_leader = member_id == g.leader
    ctx.applied(op="sync", group=group, member=member_id, generation=gen, error=0, leader=is_leader,
                assignment_for=[a["member_id"] for a in b["group_assignment"]])  # fmt: skip
    _park_group_request(self, ctx, m, "sync_parked")
    if ctx.delivery.get("deliver", True):
        ctx.bc.busy = ctx.entry
        ctx.entry["fate"] = "parked"
    if is_leader:
        given = {a["member_id"]: a["assignment"] for a in b["group_assignment"]}
        for x in g.members.values():
            x.assignment = given.get(x.member_id, b"")
        g.state = STABLE
        if g.history and g.history[-1]["generation"] == g.generation:
            g.history[-1]["assignments"] = {x.member_id: x.assignment for x in g.members.values()}
        self._group_event(g, "stable", assignments={x.member_id: x.assignment for x in g.members.values()})
        for x in list(g.members.values()):
            if x.sync_parked is not None:
                parked, x.sync_parked = x.sync_parked, None
                _schedule_session(self, g, x)
                self._answer_parked(parked, {"error_code": 0, "assignment": x.assignment})
    if m.sync_parked is ctx:
        return _PARKED
    return _ALREADY_ANSWERED


def _h_heartbeat(self, ctx):
    b = ctx.body
    group, member_id, gen = b["group_id"], b["member_id"], b["generation_id"]
    code = _coordinator_error(self, ctx, group)
    g = self.groups.get(group)
    if code is None:
        if g is None or g.state in (EMPTY, DEAD) or member_id not in g.members:
            code = E["UNKNOWN_MEMBER_ID"]
        elif gen != g.generation:
            code = E["ILLEGAL_GENERATION"]
        elif g.state == AWAITING_SYNC:
            code = E["REBALANCE_IN_PROGRESS"]
        elif g.state == PREPARING:
            _schedule_session(self, g, g.members[member_id])
            code = E["REBALANCE_IN_PROGRESS"]
        else:
            _schedule_session(self, g, g.members[member_id])
            code = 0
    ctx.applied(op="heartbeat", group=group, member=member_id, generation=gen, error=code)
    return {"error_code": code}


def _h_leave_group(self, ctx):
    b = ctx.body
    group, member_id = b["group_id"], b["member_id"]
    code = _coordinator_error(self, ctx, group)
    g = self.groups.get(group)
    if code is None:
        if g is None or member_id not in g.members:
            code = E["UNKNOWN_MEMBER_ID"]
        else:
            code = 0
            self._group_event(g, "member-left", member=member_id)
            _remove_member(self, g, g.members[member_id], "member left: " + member_id)
    ctx.applied(op="leave", group=group, member=member_id, error=code)
    return {"error_code": code}


# --------------------------------------------------------------------------- offsets


def _h_offset_commit(self, ctx):
    b, v = ctx.body, ctx.version
    group = b["group_id"]
    gen = b.get("generation_id", -1)
    member_id = b.get("member_id", "")
    top = None
    if group == "":
        top = E["INVALID_GROUP_ID"]
    elif self.coordinator_of(group) != ctx.broker.node_id:
        top = E["NOT_COORDINATOR"]
    else:
        g = self.groups.get(group)
        if g is not None and g.loading:
            top = E["COORDINATOR_LOAD_IN_PROGRESS"]
        elif g is None:
            if gen >= 0:
                top = E["ILLEGAL_GENERATION"]  # the group does not use group management
        elif gen < 0 and g.state == EMPTY:
            pass  # simple consumer commit
        elif g.state == DEAD:
            top = E["UNKNOWN_MEMBER_ID"]
        elif member_id not in g.members:
            top = E["UNKNOWN_MEMBER_ID"]
        elif gen != g.generation:
            top = E["ILLEGAL_GENERATION"]
        elif g.state == AWAITING_SYNC:
            top = E["REBALANCE_IN_PROGRESS"]
        else:
            _schedule_session(self, g, g.members[member_id])
    results = []
    for t in b["topics"]:
        for pd in t["partitions"]:
            topic, pid = t["topic"], pd["partition"]
            code = ctx.forced(topic, pid)
            do = code is None or ctx.forced_apply()
            err = top
            if err is None:
                tp = self.topics.get(topic)
                if tp is None or pid not in tp.partitions:
                    err = E["UNKNOWN_TOPIC_OR_PARTITION"]
                elif pd["metadata"] is not None and len(pd["metadata"].encode("utf-8")) > self.offset_metadata_max:
                    err = E["OFFSET_METADATA_TOO_LARGE"]
                else:
                    err = 0
            if do and err == 0:
                rec = dict(t=self.clock.seconds(), group=group, topic=topic, partition=pid, offset=pd["offset"],
                           metadata=pd["metadata"], generation=gen, member=member_id, broker=ctx.broker.node_id,
                           conn=ctx.bc.cid, corr=ctx.header[2])  # fmt: skip
                self.offsets[(group, topic, pid)] = rec
                self.commits.append(rec)
            if code is None:
                code = err
            ctx.applied(op="commit", group=group, topic=topic, partition=pid, offset=pd["offset"], generation=gen,
                        member=member_id, error=code, stored=bool(do and err == 0))  # fmt: skip
            results.append((topic, {"partition": pid, "error_code": code}))
    return {"topics": _group_by_topic(results)}


def _h_offset_fetch(self, ctx):
    b = ctx.body
    group = b["group_id"]
    top = None
    if self.coordinator_of(group) != ctx.broker.node_id:
        top = E["NOT_COORDINATOR"]
    elif group in self.groups and self.groups[group].loading:
        top = E["COORDINATOR_LOAD_IN_PROGRESS"]
    results = []
    for t in b["topics"]:
        for pd in t["partitions"]:
            topic, pid = t["topic"], pd["partition"]
            code = ctx.forced(topic, pid)
            offset, md = -1, ""
            if code is None:
                code = top
            if code is None:
                tp = self.topics.get(topic)
                if tp is None or pid not in tp.partitions:
                    code = E["UNKNOWN_TOPIC_OR_PARTITION"]
                else:
                    code = 0
                    o = self.offsets.get((group, topic, pid))
                    if o is not None:
                        offset, md = o["offset"], (o["metadata"] if o["metadata"] is not None else "")
            ctx.applied(op="offset_fetch", group=group, topic=topic, partition=pid, offset=offset, error=code)
            results.append((topic, {"partition": pid, "offset": offset, "metadata": md, "error_code": code}))
    return {"topics": _group_by_topic(results)}


# --------------------------------------------------------------------------- ApiVersions


def _api_versions_body(self, b, code=0):
    table = b.api_versions or []
    return {"error_code": code, "api_versions": [{"api_key": k, "min_version": lo, "max_version": hi} for k, lo, hi in table] if code in (0, E["UNSUPPORTED_VERSION"]) else []}


Cluster._api_versions_body = _api_versions_body


def _h_api_versions(self, ctx):
    b = ctx.broker
    code = ctx.forced()
    if code is None:
        code = b.api_versions_error
    ctx.applied(op="api_versions", error=code)
    return self._api_versions_body(b, code)


Cluster._handlers = {
    R.PRODUCE: _h_produce,
    R.FETCH: _h_fetch,
    R.LIST_OFFSETS: _h_list_offsets,
    R.METADATA: _h_metadata,
    R.OFFSET_COMMIT: _h_offset_commit,
    R.OFFSET_FETCH: _h_offset_fetch,
    R.FIND_COORDINATOR: _h_find_coordinator,
    R.JOIN_GROUP: _h_join_group,
    R.HEARTBEAT: _h_heartbeat,
    R.LEAVE_GROUP: _h_leave_group,
    R.SYNC_GROUP: _h_sync_group,
    R.API_VERSIONS: _h_api_versions,
}


# =========================================================================== a raw protocol client


class _RawProtocol(Int32StringReceiver):
    MAX_LENGTH = 2**31 - 1

    def __init__(self, owner):
        self.owner = owner

    def stringReceived(self, data):
        self.owner._received(data)

    def connectionLost(self, reason=None):
        self.owner.closed = True
        self.owner.proto = None


class RawClient(object):
    """A bare-bones Kafka client made of refcodec only - a foreign producer / consumer / group member for
    scenarios, and the way the self-test exercises the cluster without afkak.

        rc = RawClient(cluster, client_id="other"); rc.connect(node_id)      (cluster.settle() connects)
        corr = rc.send("JoinGroup", 0, {...})                                (cluster.settle() delivers)
        rc.responses[corr] -> parsed response body | absent while unanswered;  rc.closed
        rc.call(api, version, body) = send + cluster.settle() + the response (or None)
    """

    def __init__(self, cluster, client_id="raw"):
        self.cluster, self.client_id = cluster, client_id
        self.proto = None
        self.closed = False
        self.failed = None
        self.corr = 0
        self.sent = {}  # corr -> (api_key, version)
        self.responses = collections.OrderedDict()

    def connect(self, node_id=None, host=None, port=None):
        if node_id is not None:
            b = self.cluster.brokers[node_id]
            host, port = b.host, b.port
        self.closed, self.failed = False, None
        f = Factory()
        f.buildProtocol = lambda addr: _RawProtocol(self)
        d = self.cluster.net(self.cluster.clock, host, port).connect(f)
        d.addCallbacks(lambda p: setattr(self, "proto", p), lambda fail: setattr(self, "failed", fail.type.__name__))
        return self

    def send(self, api, version, body):
        key = api_key_of(api)
        self.corr += 1
        self.sent[self.corr] = (key, version)
        self.proto.sendString(R.encode_request(key, version, self.corr, self.client_id, body))
        return self.corr

    def send_raw(self, frame_payload):
        self.proto.sendString(frame_payload)

    def _received(self, data):
        corr = int.from_bytes(data[:4], "big", signed=True)
        key, version = self.sent[corr]
        self.responses[corr] = R.parse_response(key, version, data)[1]

    def call(self, api, version, body):
        corr = self.send(api, version, body)
        self.cluster.settle()
        return self.responses.get(corr)

    def close(self):
        if self.proto is not None:
            self.proto.transport.loseConnection()
