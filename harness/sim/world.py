"""Deterministic world for driving real afkak objects in-process.

* `World.clock`  - twisted.internet.task.Clock used as the injected reactor (virtual time).
* `World.net`    - `Net`, an endpoint factory (`net(reactor, host, port)`) that records every connection
                   attempt and lets the scenario (or a policy callback) accept, refuse or black-hole it.
* `Conn`         - one accepted connection: in-memory transports (twisted.test.iosim) between the real
                   client protocol and a server-side Int32 frame receiver; bytes move only on `flush()`,
                   optionally in chunks, so the scenario controls how the byte stream is cut.

Nothing in afkak is patched.  Self-contained: depends on Twisted only (not on /repo's test helpers).
"""
from twisted.internet import defer, error
from twisted.internet.interfaces import IAddress, IStreamClientEndpoint
from twisted.internet.protocol import Protocol
from twisted.internet.task import Clock
from twisted.python.failure import Failure
from twisted.test import iosim
from zope.interface import implementer


@implementer(IAddress)
class Addr(object):
    def __init__(self, host, port):
        self.host, self.port = host, port

    def __repr__(self):
        return "Addr(%s:%s)" % (self.host, self.port)


class ServerSide(Protocol):
    """Server end of a connection: reassembles Int32-length-prefixed frames and records them."""

    def __init__(self, conn):
        self.conn = conn
        self.buf = b""
        self.lost = None

    def dataReceived(self, data):
        self.conn.raw_in.append(bytes(data))
        self.buf += data
        while len(self.buf) >= 4:
            n = int.from_bytes(self.buf[:4], "big")
            if len(self.buf) < 4 + n:
                break
            frame, self.buf = self.buf[4:4 + n], self.buf[4 + n:]
            self.conn._frame(frame)

    def connectionLost(self, reason=None):
        self.lost = reason
        self.conn._server_lost(reason)


class Conn(object):
    """An accepted connection, seen from the (simulated) broker."""

    def __init__(self, net, cid, host, port, client_protocol):
        self.net, self.cid, self.host, self.port = net, cid, host, port
        self.client_protocol = client_protocol
        self.frames = []  # request frames received (bytes, without length prefix), in order
        self.raw_in = []  # raw chunks as delivered
        self.on_frame = None  # callback(conn, frame)
        self.on_close = None  # callback(conn, reason) when the server end sees the connection go away
        self.closed = False  # the server end saw the connection go away
        self.server = ServerSide(self)
        addr = Addr(host, port)
        self.ct = iosim.FakeTransport(client_protocol, isServer=False, peerAddress=addr)
        self.st = iosim.FakeTransport(self.server, isServer=True)
        self.pump = iosim.connect(self.server, self.st, client_protocol, self.ct)

    def _frame(self, frame):
        self.frames.append(frame)
        self.net.log.append(("frame", self.cid, frame))
        if self.on_frame is not None:
            self.on_frame(self, frame)
        elif self.net.on_frame is not None:
            self.net.on_frame(self, frame)

    def _server_lost(self, reason):
        self.closed = True
        self.net.log.append(("closed", self.cid))
        if self.on_close is not None:
            self.on_close(self, reason)

    def correlation_id(self, frame):
        return int.from_bytes(frame[4:8], "big", signed=True)

    # --- server -> client
    def send_raw(self, data):
        self.st.write(data)

    def send_frame(self, payload):
        self.st.write(len(payload).to_bytes(4, "big") + payload)

    def respond(self, request_frame, body):
        """Answer a request frame with `correlation id + body`."""
        self.send_frame(request_frame[4:8] + body)

    def drop(self):
        """The broker (or the network) drops the connection."""
        self.st.loseConnection()

    def flush(self):
        self.pump.flush()

    def deliver_chunked(self, data, cuts):
        """Write `data` to the client cut at the byte positions `cuts`, flushing after each piece."""
        last = 0
        for c in sorted(set(cuts)) + [len(data)]:
            if c > last:
                self.st.write(data[last:c])
                self.pump.flush()
                last = c


@implementer(IStreamClientEndpoint)
class _Endpoint(object):
    def __init__(self, net, host, port):
        self.net, self.host, self.port = net, host, port

    def connect(self, factory):
        return self.net._connect(self.host, self.port, factory)


class Pending(object):
    def __init__(self, net, n, host, port, factory, d):
        self.net, self.n, self.host, self.port, self.factory, self.d = net, n, host, port, factory, d
        self.done = False
        self.cancelled = False

    def accept(self):
        assert not self.done
        self.done = True
        self.net.pending.remove(self)
        proto = self.factory.buildProtocol(Addr(self.host, self.port))
        conn = Conn(self.net, len(self.net.conns), self.host, self.port, proto)
        self.net.conns.append(conn)
        self.net.log.append(("accepted", conn.cid, self.host, self.port))
        self.d.callback(proto)
        return conn

    def refuse(self, exc=None):
        assert not self.done
        self.done = True
        self.net.pending.remove(self)
        self.net.log.append(("refused", self.host, self.port))
        self.d.errback(Failure(exc or error.ConnectionRefusedError("refused %s:%s" % (self.host, self.port))))


class Net(object):
    """Endpoint factory: pass as `endpoint_factory=` to KafkaClient / _KafkaBrokerClient."""

    def __init__(self):
        self.calls = []  # (host, port) per endpoint constructed
        self.attempts = []  # (host, port) per connect() call, in order
        self.pending = []  # Pending objects not yet accepted/refused
        self.conns = []  # accepted Conn objects
        self.log = []  # everything, in order
        self.policy = None  # callable(pending) invoked at connect time (may accept/refuse at once)
        self.on_frame = None  # default frame callback for all connections

    def __call__(self, reactor, host, port):
        self.calls.append((host, port))
        return _Endpoint(self, host, port)

    def _connect(self, host, port, factory):
        n = len(self.attempts)
        self.attempts.append((host, port))
        self.log.append(("connect", host, port))

        def cancel(d):
            p.cancelled = True
            if p in self.pending:
                self.pending.remove(p)
            self.log.append(("connect-cancelled", host, port))

        d = defer.Deferred(cancel)
        p = Pending(self, n, host, port, factory, d)
        self.pending.append(p)
        if self.policy is not None:
            self.policy(p)
        return d

    def flush(self):
        """Move bytes on every connection until nothing moves."""
        moved = True
        while moved:
            moved = False
            for c in list(self.conns):
                if c.pump.flush():
                    moved = True

    def open_conns(self):
        return [c for c in self.conns if not c.closed and not c.ct.disconnected]


class World(object):
    def __init__(self):
        self.clock = Clock()
        self.net = Net()

    def advance(self, dt):
        self.clock.advance(dt)
        self.net.flush()

    def delayed(self):
        """Pending delayed calls as (due time, repr of callable) - for timer comparison."""
        return sorted((c.getTime(), getattr(c.func, "__qualname__", repr(c.func))) for c in self.clock.getDelayedCalls())
