"""Shared machinery for every check: build, audit, model runner, evidence, findings, verdict.

Exit codes: 0 property held on everything explored; 1 violation (VIOLATION line printed);
2 could not decide (tool missing, crash, timeout) - never a verdict.
"""
import fcntl
import hashlib
import importlib
import json
import os
import random
import re
import shutil
import subprocess
import sys
import time
import traceback

VERIF = os.path.dirname(os.path.dirname(os.path.abspath(__file__)))
LEAN = os.path.join(VERIF, "lean")
REPO = os.environ.get("AFKAK_REPO", "/repo")
BIN_DIR = os.path.join(LEAN, ".lake", "build", "bin")
ALLOWED_AXIOMS = {"propext", "Classical.choice", "Quot.sound"}
FORBIDDEN = re.compile(
    r"\bsorry\b|\badmit\b|^\s*axiom\s|\bnative_decide\b|\bbv_decide\b|implemented_by|\bunsafe\s|maxHeartbeats\s+0\b",
    re.M,
)
TRUSTED_BASE = [
    "Lean 4.33.0 kernel (theorems); axioms limited to propext, Classical.choice, Quot.sound (audited by #print axioms every run)",
    "Lean compiler + C toolchain for RUNNING the model driver (not for proofs)",
    "correspondence harness (Python): generators, drivers of the real afkak objects, canonicaliser, diff",
    "harness/extract_consts.py (AST patterns) for the source-derived constants in Afkak/Generated/Consts.lean",
    "Twisted, CPython struct/bytes/dict semantics and zlib are modelled, not verified",
]


class Undecided(Exception):
    """Something prevented a verdict (exit 2)."""


def sh(cmd, cwd=None, timeout=None, env=None):
    p = subprocess.run(cmd, cwd=cwd, timeout=timeout, env=env, stdout=subprocess.PIPE, stderr=subprocess.STDOUT, text=True)
    return p.returncode, p.stdout


class BuildLock:
    def __enter__(self):
        self.f = open(os.path.join(LEAN, ".build.lock"), "w")
        fcntl.flock(self.f, fcntl.LOCK_EX)
        return self

    def __exit__(self, *a):
        fcntl.flock(self.f, fcntl.LOCK_UN)
        self.f.close()


def regen_consts():
    """Regenerate Afkak/Generated/Consts.lean from /repo's working tree. Returns (changed, problems)."""
    from harness import extract_consts

    return extract_consts.regenerate(REPO, os.path.join(LEAN, "Afkak", "Generated"))


def lake_build(targets, timeout=1500):
    with BuildLock():
        rc, out = sh(["lake", "build"] + list(targets), cwd=LEAN, timeout=timeout)
    return rc == 0, out


def strip_comments(src):
    src = re.sub(r"/-.*?-/", "", src, flags=re.S)
    src = re.sub(r"--.*", "", src)
    return src


def import_closure(roots):
    """Project-local modules (Afkak*, Driver*) reachable from `roots` through `import` lines."""
    seen, todo = set(), list(roots)
    while todo:
        m = todo.pop()
        if m in seen:
            continue
        path = os.path.join(LEAN, *m.split(".")) + ".lean"
        if not os.path.exists(path):
            continue
        seen.add(m)
        for mm in re.finditer(r"^\s*(?:public\s+)?import\s+([\w.]+)", open(path).read(), re.M):
            if mm.group(1).split(".")[0] in ("Afkak", "AfkakProofs", "AfkakProps", "Driver"):
                todo.append(mm.group(1))
    return sorted(seen)


def grep_forbidden(roots):
    """Forbidden tokens in every project file the property's theorems and drivers depend on
    (another package's work in progress cannot break this property's check)."""
    hits = []
    for m in import_closure(roots):
        p = os.path.join(LEAN, *m.split(".")) + ".lean"
        for mt in FORBIDDEN.finditer(strip_comments(open(p).read())):
            hits.append("%s: %s" % (os.path.relpath(p, LEAN), mt.group(0).strip()))
    return hits


def read_obligations(pid):
    p = os.path.join(LEAN, "AfkakProps", pid + ".lean")
    src = open(p).read()
    m = re.search(r"/- OBLIGATIONS\n(.*?)-/", src, re.S)
    if not m:
        raise Undecided("no OBLIGATIONS block in %s" % p)
    obl = [l.strip() for l in m.group(1).splitlines() if l.strip()]
    m2 = re.search(r"/- OPEN_STATEMENTS\n(.*?)-/", src, re.S)
    opens = [l.strip() for l in m2.group(1).splitlines() if l.strip()] if m2 else []
    return obl, opens


def audit(pid, obligations):
    """#print axioms for every obligation. Returns {name: [axioms]} ; missing names map to None."""
    os.makedirs(os.path.join(LEAN, "Audit"), exist_ok=True)
    f = os.path.join(LEAN, "Audit", pid + ".lean")
    with open(f, "w") as fh:
        fh.write("import AfkakProps.%s\n" % pid)
        for o in obligations:
            fh.write("#print axioms Afkak.Props.%s.%s\n" % (pid, o))
    with BuildLock():
        rc, out = sh(["lake", "env", "lean", f], cwd=LEAN, timeout=900)
    res = {o: None for o in obligations}
    for m in re.finditer(r"'Afkak\.Props\.%s\.(\w+)' depends on axioms: \[(.*?)\]" % pid, out, re.S):
        res[m.group(1)] = [a.strip() for a in m.group(2).replace("\n", " ").split(",") if a.strip()]
    for m in re.finditer(r"'Afkak\.Props\.%s\.(\w+)' does not depend on any axioms" % pid, out):
        res[m.group(1)] = []
    return res, out


def run_model(component, lines, timeout=1200):
    """Pipe request lines to the compiled model; return one list of answer lines per request."""
    exe = os.path.join(BIN_DIR, "model_" + component)
    if not os.path.exists(exe):
        raise Undecided("model driver %s not built" % exe)
    inp = "\n".join(lines) + "\n"
    p = subprocess.run([exe], input=inp, stdout=subprocess.PIPE, stderr=subprocess.PIPE, text=True, timeout=timeout)
    if p.returncode != 0:
        raise Undecided("model driver failed: %s" % p.stderr[-500:])
    out, cur = [], []
    for l in p.stdout.split("\n"):
        if l == ".":
            out.append(cur)
            cur = []
        elif l != "":
            cur.append(l)
    if len(out) != len(lines):
        raise Undecided("model driver answered %d of %d requests" % (len(out), len(lines)))
    return out


def exe_root(component):
    """model_<component> has root Driver.<Root> (lakefile.toml)."""
    txt = open(os.path.join(LEAN, "lakefile.toml")).read()
    m = re.search(r'name = "model_%s"\s*\nroot = "Driver\.(\w+)"' % re.escape(component), txt)
    return m.group(1) if m else component.capitalize()


def load_known_findings():
    p = os.path.join(VERIF, "known_findings.json")
    if not os.path.exists(p):
        return []
    return json.load(open(p))["findings"]


class Result:
    """What a property module reports back."""

    def __init__(self):
        self.evaluations = 0
        self.distinct = set()  # hashes of non-trivial scenarios
        self.samples = []
        self.hist = {}
        self.traces_validated = 0
        self.disagreements = []  # dicts: component, scenario, impl, model
        self.monitor_failures = []  # dicts: what, scenario, tags(set of str) for known-finding match
        self.notes = []
        self.rule = ""
        self.extra = {}

    def count(self, key, n=1):
        self.hist[key] = self.hist.get(key, 0) + n

    def nontrivial(self, scenario):
        self.distinct.add(hashlib.sha1(json.dumps(scenario, sort_keys=True, default=str).encode()).hexdigest())

    def sample(self, s, limit=3):
        if len(self.samples) < limit:
            self.samples.append(s)


class Ctx:
    def __init__(self, pid, tier, seed):
        self.pid, self.tier, self.seed = pid, tier, seed
        self.rng = random.Random((seed * 1000003) ^ int(hashlib.sha1(pid.encode()).hexdigest()[:8], 16))
        self.t0 = time.time()
        self.work = os.path.join(VERIF, ".work", "%s-%d" % (pid, os.getpid()))
        os.makedirs(self.work, exist_ok=True)
        self.proof_broken = None  # text naming the broken theorem(s), when the build/audit failed

    def scale(self, quick, thorough):
        return thorough if self.tier == "thorough" else quick

    def model(self, component, lines):
        return run_model(component, lines)

    def cleanup(self):
        shutil.rmtree(self.work, ignore_errors=True)


def write_replay(pid, payload):
    os.makedirs(os.path.join(VERIF, "replays"), exist_ok=True)
    h = hashlib.sha1(json.dumps(payload, sort_keys=True, default=str).encode()).hexdigest()[:12]
    rel = os.path.join("replays", "%s-%s.json" % (pid, h))
    with open(os.path.join(VERIF, rel), "w") as fh:
        json.dump(payload, fh, indent=1, sort_keys=True, default=str)
    return rel


def match_known(pid, failure, known):
    tags = set(failure.get("tags", []))
    for k in known:
        if k["property"] == pid and k.get("status") == "known" and k["tag"] in tags:
            return k
    return None


def failing_theorems(build_out, pid):
    """Names of declarations in AfkakProps/<pid>.lean (or its imports) that failed to build."""
    names = []
    for m in re.finditer(r"error: (\S+\.lean):(\d+):\d+:", build_out):
        path, line = m.group(1), int(m.group(2))
        full = path if os.path.isabs(path) else os.path.join(LEAN, path)
        try:
            src = open(full).read().splitlines()
        except OSError:
            continue
        name = None
        for i in range(min(line, len(src)) - 1, -1, -1):
            mm = re.match(r"\s*(?:private\s+)?(?:theorem|lemma|def|example|instance)\s+([\w.']+)?", src[i])
            if mm:
                name = mm.group(1) or "example@%d" % (i + 1)
                break
        names.append("%s:%s" % (os.path.relpath(full, LEAN), name or "line %d" % line))
    return sorted(set(names))


def main(argv):
    import argparse

    ap = argparse.ArgumentParser()
    ap.add_argument("pid")
    ap.add_argument("--tier", default=os.environ.get("VERIF_TIER", "quick"), choices=["quick", "thorough"])
    ap.add_argument("--replay")
    a = ap.parse_args(argv)
    pid = a.pid
    seed = int(os.environ.get("VERIF_SEED", "0"))
    os.environ.setdefault("PYTHONHASHSEED", "0")
    sys.path.insert(0, REPO)
    ctx = Ctx(pid, a.tier, seed)
    try:
        rc = _run(ctx, a)
    except Undecided as e:
        print("UNDECIDED property=%s: %s" % (pid, e))
        rc = 2
    except subprocess.TimeoutExpired as e:
        print("UNDECIDED property=%s: timeout %s" % (pid, e))
        rc = 2
    except Exception:
        traceback.print_exc()
        print("UNDECIDED property=%s: harness crashed" % pid)
        rc = 2
    finally:
        ctx.cleanup()
    return rc


def _run(ctx, a):
    pid = ctx.pid
    mod = importlib.import_module("harness.props." + pid.lower())
    known = load_known_findings()

    # 1. source-derived constants
    consts_changed, const_problems = regen_consts()
    # only the extractor plugins this property's models use can break it (module attr CONSTS,
    # default: the names in COMPONENTS)
    mine = set(getattr(mod, "CONSTS", mod.COMPONENTS))
    const_problems = [p for p in const_problems if p.split(":", 1)[0] in mine]
    consts_changed = [c for c in consts_changed if c in mine]

    # 2. build: models + driver first (needed for correspondence and search), then the theorems
    ok_model, out_model = lake_build(["model_" + c for c in mod.COMPONENTS])
    if not ok_model:
        # The model itself no longer builds: only Generated/Consts.lean can cause this.
        ctx.proof_broken = "model build failed: " + "; ".join(failing_theorems(out_model, pid)) + "\n" + out_model[-1500:]
    ok_props, out_props = lake_build(["AfkakProps." + pid]) if ok_model else (False, out_model)
    obligations, opens = read_obligations(pid)
    axioms = {}
    discharged = 0
    if ok_props:
        axioms, audit_out = audit(pid, obligations)
        bad = {k: v for k, v in axioms.items() if v is None or not set(v) <= ALLOWED_AXIOMS}
        discharged = len(obligations) - len(bad)
        if bad:
            ctx.proof_broken = "axiom audit failed for: %s" % json.dumps(bad)
        if ctx.tier == "thorough":
            # second opinion: the toolchain's independent re-checker replays the compiled .olean
            with BuildLock():
                rc_lc, out_lc = sh(["lake", "env", "leanchecker", "AfkakProps." + pid], cwd=LEAN, timeout=1800)
            ctx.leanchecker = "ok" if rc_lc == 0 else "FAILED: " + out_lc[-800:]
            if rc_lc != 0:
                ctx.proof_broken = (ctx.proof_broken or "") + " leanchecker rejected AfkakProps.%s: %s" % (pid, out_lc[-800:])
    elif ctx.proof_broken is None:
        ctx.proof_broken = "proof obligations no longer build: " + "; ".join(failing_theorems(out_props, pid)) + "\n" + out_props[-1500:]
    forb = grep_forbidden(["AfkakProps." + pid] + ["Driver." + exe_root(c) for c in mod.COMPONENTS])
    if forb:
        ctx.proof_broken = (ctx.proof_broken or "") + " forbidden tokens: %s" % forb
        discharged = 0
    if const_problems:
        ctx.proof_broken = (ctx.proof_broken or "") + " extractor: source changed shape: %s" % const_problems

    if a.replay:
        if not ok_model:
            raise Undecided("model does not build; cannot replay")
        data = json.load(open(a.replay))
        return mod.replay(ctx, data)

    # 3. correspondence + monitors
    res = Result()
    if ok_model:
        try:
            mod.run(ctx, res)
        except (Undecided, subprocess.TimeoutExpired):
            raise
        except Exception as e:
            # An exception that passed through afkak's own code is behaviour of the IMPLEMENTATION that
            # the model does not have (on the unchanged tree the harness runs to the end): the
            # correspondence no longer checks.  Anything else is a defect of the harness: undecided.
            tb = traceback.extract_tb(e.__traceback__)
            pkg = os.path.join(os.path.realpath(REPO), "afkak") + os.sep
            frames = [f for f in tb if os.path.realpath(f.filename).startswith(pkg) and os.sep + "test" + os.sep not in f.filename]
            if not frames:
                raise
            res.disagreements.append({
                "component": ",".join(mod.COMPONENTS),
                "kind": "implementation raised where the model (and the unchanged code) does not",
                "exception": "%s: %s" % (type(e).__name__, e),
                "afkak_frames": ["%s:%d %s" % (os.path.relpath(f.filename, REPO), f.lineno, f.name) for f in frames[-6:]],
                "traceback": traceback.format_exception(type(e), e, e.__traceback__)[-12:],
            })
            res.notes.append("correspondence run aborted by an exception raised inside afkak")
    violations = []
    known_hit = []
    for f in res.monitor_failures:
        k = match_known(pid, f, known)
        if k:
            if k["tag"] not in known_hit:
                known_hit.append(k["tag"])
                print("KNOWN-FINDING: property=%s %s" % (pid, k["what"]))
        else:
            violations.append(("monitor", f))
    # 4. broken proof or correspondence without a monitor failure: search for a failing input
    broken = []
    if ctx.proof_broken:
        broken.append({"kind": "proof", "what": ctx.proof_broken})
    for d in res.disagreements:
        broken.append({"kind": "correspondence", "what": d})
    if broken and not violations and ok_model and hasattr(mod, "search"):
        try:
            found = mod.search(ctx, res, broken)
        except (Undecided, subprocess.TimeoutExpired):
            raise
        except Exception:
            # the search is best effort: a crash in it leaves the broken proof/correspondence standing
            res.notes.append("search aborted: " + traceback.format_exc()[-600:])
            found = []
        for f in found or []:
            if not match_known(pid, f, known):
                violations.append(("search", f))
    rc = 0
    printed = set()
    if violations:
        rc = 1
        for kind, f in violations[:5]:
            rel = write_replay(pid, {"property": pid, "found_by": kind, "failure": f, "seed": ctx.seed, "tier": ctx.tier})
            if rel not in printed:
                printed.add(rel)
                print("VIOLATION property=%s replay=%s" % (pid, rel))
    elif broken:
        rc = 1
        rel = write_replay(pid, {"property": pid, "no_failing_input_found": True, "no_longer_checks": broken[:5], "seed": ctx.seed, "tier": ctx.tier})
        print("VIOLATION property=%s replay=%s no-failing-input-found" % (pid, rel))

    # 5. evidence
    cov = {
        "obligations": len(obligations),
        "discharged": discharged,
        "checker_cmd": "cd lean && lake build AfkakProps.%s && lake env lean Audit/%s.lean  (#print axioms)" % (pid, pid),
        "trusted_base": TRUSTED_BASE + getattr(mod, "TRUSTED", []),
        "obligation_names": obligations,
        "open_statements": opens,
        "axioms": axioms,
        "consts_changed": consts_changed,
        "leanchecker": getattr(ctx, "leanchecker", "not run (quick tier)"),
        "evaluations": res.evaluations,
        "distinct_nontrivial": len(res.distinct),
        "rule": res.rule,
        "samples": res.samples,
        "traces_validated_against_impl": res.traces_validated,
        "disagreements_checked": res.evaluations,
        "disagreements_found": len(res.disagreements),
        "op_histogram": res.hist,
        "known_findings_hit": known_hit,
        "notes": res.notes,
    }
    cov.update(res.extra)
    ev = {
        "property_id": pid,
        "tier": ctx.tier,
        "seed": ctx.seed,
        "level": "proof",
        "coverage": cov,
        "assumptions": getattr(mod, "ASSUMPTIONS", []),
        "wall_s": round(time.time() - ctx.t0, 2),
        "violations": len(violations) if violations else (1 if broken else 0),
    }
    os.makedirs(os.path.join(VERIF, "evidence"), exist_ok=True)
    with open(os.path.join(VERIF, "evidence", pid + ".json"), "w") as fh:
        json.dump(ev, fh, indent=1, sort_keys=True, default=str)
    print(
        "%s tier=%s seed=%d obligations=%d discharged=%d evaluations=%d distinct=%d disagreements=%d monitor_failures=%d known=%s wall=%.1fs -> exit %d"
        % (pid, ctx.tier, ctx.seed, len(obligations), discharged, res.evaluations, len(res.distinct), len(res.disagreements), len(res.monitor_failures), known_hit, time.time() - ctx.t0, rc)
    )
    return rc
