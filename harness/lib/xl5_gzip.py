"""C12, third sentence, on the part of the decoder that is a PARAMETER of the Lean model: gzip members.

"Decoding any byte string terminates with a value or an exception using time and memory proportional to
the input, whatever its length fields claim."  The Lean cost theorems (C12_alloc_*) are stated relative to
the bytes `gzip_decode` returns; what `afkak.codec.gzip_decode` itself allocates is outside the model.
This stage closes that hole on the implementation side: the REAL decoder (afkak.codec.gzip_decode called
directly, and the whole path KafkaCodec.decode_fetch_response -> message iteration -> gzip_decode ->
inner set, with no wrapper installed) is given hostile gzip members inside messages whose Kafka CRC is
valid, and its REAL peak allocation (tracemalloc) is compared with

        peak  <=  BASE + FACTOR * (len(input) + produced)

where `produced` is the number of bytes the deflate streams of the input really inflate to (counted by
an independent walk over the members with zlib, 64 KiB at a time).  Expansion by zlib is a stated
parameter of C12 (a bomb is allowed to cost what it produces); allocation driven by a LENGTH FIELD
(ISIZE in the trailer, XLEN in the header, LEN of a stored block, a size prefix) is not.

Hostile families: trailer ISIZE lying (a little / by many MiB), trailer CRC wrong, members cut at every
kind of place, several members (any of them lying), header flags FEXTRA/FNAME/FCOMMENT/FHCRC with
lying XLEN / unterminated strings, stored blocks whose LEN/NLEN lie, zero padding / garbage after a
member, high-ratio members, random bytes behind the magic.

The constants are calibrated on the unchanged decoder (GzipFile.read(): chunk list + joined result, an
8 KiB BufferedReader, zlib's output buffer): it stays below 3 * (len + produced) + 96 KiB on every
generated input; the bound used is more than twice that.
"""
import gzip
import io
import struct
import tracemalloc
import zlib

from harness.lib import crc_refenc as R

BASE = 256 * 1024
FACTOR = 6
MIB = 1 << 20
# claims are capped: a decoder that really FILLS what it allocates must not take the machine down
CLAIMS = [1 * MIB, 4 * MIB, 16 * MIB, 64 * MIB, 96 * MIB, 192 * MIB]


def bound(n_in, produced):
    return BASE + FACTOR * (n_in + produced)


def _header_len(data):
    """length of the RFC 1952 member header at the start of `data`, or None"""
    if len(data) < 10 or data[:2] != b"\x1f\x8b" or data[2] != 8:
        return None
    flg, pos = data[3], 10
    if flg & 4:
        if len(data) < pos + 2:
            return None
        pos += 2 + struct.unpack_from("<H", data, pos)[0]
    for bit in (8, 16):
        if flg & bit:
            z = data.find(b"\x00", pos)
            if z < 0:
                return None
            pos = z + 1
    if flg & 2:
        pos += 2
    return pos if pos <= len(data) else None


def produced_by(payload, cap=64 * MIB):
    """bytes the deflate streams of the gzip members in `payload` inflate to, whatever the trailers say
    (independent of afkak and of Python's gzip module: headers parsed here, raw inflate 64 KiB at a time)"""
    total, data = 0, payload
    while data and total < cap:
        h = _header_len(data)
        if h is None:
            break
        d = zlib.decompressobj(-15)
        buf = data[h:]
        try:
            while buf and not d.eof and total < cap:
                out = d.decompress(buf, 1 << 16)
                total += len(out)
                nxt = d.unconsumed_tail
                if not out and nxt == buf:
                    break
                buf = nxt
        except zlib.error:
            break
        if not d.eof:
            break
        data = d.unused_data[8:].lstrip(b"\x00")
    return total


def member(payload, level=6, flags=0, extra=b"", name=b"", comment=b"", hcrc=False, mtime=0):
    """one gzip member written by hand (RFC 1952)"""
    flg = flags
    head = b"\x1f\x8b\x08" + bytes([flg]) + struct.pack("<I", mtime) + b"\x00\xff"
    if flg & 4:
        head += struct.pack("<H", len(extra)) + extra
    if flg & 8:
        head += name + b"\x00"
    if flg & 16:
        head += comment + b"\x00"
    if flg & 2:
        head += struct.pack("<H", zlib.crc32(head) & 0xFFFF)
    c = zlib.compressobj(level, zlib.DEFLATED, -15)
    body = c.compress(payload) + c.flush()
    return head + body + struct.pack("<II", zlib.crc32(payload) & 0xFFFFFFFF, len(payload) & 0xFFFFFFFF)


def stored_member(payload, lie_len=None):
    """a member whose deflate stream is ONE stored block; LEN/NLEN may lie"""
    n = len(payload) if lie_len is None else lie_len
    blk = b"\x01" + struct.pack("<HH", n & 0xFFFF, (~n) & 0xFFFF) + payload
    return b"\x1f\x8b\x08\x00\x00\x00\x00\x00\x00\xff" + blk + struct.pack("<II", zlib.crc32(payload) & 0xFFFFFFFF, len(payload))


def inner_set(rng, n):
    return R.enc_set([(i, R.enc_message(0, 0, None if rng.random() < 0.5 else b"k%d" % i, bytes(rng.getrandbits(8) for _ in range(rng.choice([0, 3, 40])))))
                      for i in range(n)])


def gen_case(rng):
    """-> (family, gzip payload bytes)"""
    fam = rng.choice(["isize-lie-big", "isize-lie-big", "isize-lie-big", "isize-lie-small", "crc-wrong", "cut", "cut", "multi", "multi-lie", "flags",
                      "xlen-lie", "unterminated-name", "stored-len-lie", "padding", "garbage-after", "bomb", "random", "valid", "tiny", "isize-only"])
    inner = inner_set(rng, rng.choice([1, 2, 5, 30]))
    good = member(inner, level=rng.choice([1, 6, 9])) if rng.random() < 0.5 else gzip.compress(inner)
    if fam == "valid":
        return fam, good
    if fam == "isize-lie-big":
        return fam, good[:-4] + struct.pack("<I", rng.choice(CLAIMS) + rng.randrange(0, 4096))
    if fam == "isize-lie-small":
        return fam, good[:-4] + struct.pack("<I", max(0, len(inner) + rng.choice([-1, 1, 2, 255, 4096, 65536])))
    if fam == "crc-wrong":
        return fam, good[:-8] + struct.pack("<I", rng.getrandbits(32)) + good[-4:]
    if fam == "cut":
        k = rng.choice([1, 2, 3, 4, 9, 10, 11, len(good) - 9, len(good) - 8, len(good) - 5, len(good) - 4, len(good) - 1, rng.randrange(1, len(good))])
        cut = good[:max(1, min(k, len(good) - 1))]
        if rng.random() < 0.4 and len(cut) >= 4:
            # what is left ends with four bytes that READ as a large ISIZE
            cut = cut[:-4] + struct.pack("<I", rng.choice(CLAIMS))
        return fam, cut
    if fam == "multi":
        return fam, b"".join(member(inner_set(rng, rng.choice([1, 3]))) for _ in range(rng.choice([2, 3, 4])))
    if fam == "multi-lie":
        ms = [member(inner_set(rng, rng.choice([1, 3]))) for _ in range(rng.choice([2, 3]))]
        i = rng.randrange(len(ms))
        ms[i] = ms[i][:-4] + struct.pack("<I", rng.choice(CLAIMS))
        return fam, b"".join(ms)
    if fam == "flags":
        flg = rng.choice([2, 4, 8, 16, 4 | 8, 2 | 4 | 8 | 16])
        return fam, member(inner, flags=flg, extra=bytes(rng.getrandbits(8) for _ in range(rng.choice([0, 5, 300]))), name=b"n" * rng.choice([0, 7, 200]), comment=b"c" * rng.choice([0, 9]))
    if fam == "xlen-lie":
        # FEXTRA with XLEN claiming up to 65535 bytes, a handful present
        return fam, b"\x1f\x8b\x08\x04\x00\x00\x00\x00\x00\xff" + struct.pack("<H", rng.choice([255, 4096, 65535])) + bytes(rng.getrandbits(8) for _ in range(rng.choice([0, 3, 40])))
    if fam == "unterminated-name":
        return fam, b"\x1f\x8b\x08\x08\x00\x00\x00\x00\x00\xff" + b"x" * rng.choice([0, 10, 5000])
    if fam == "stored-len-lie":
        pl = bytes(rng.getrandbits(8) for _ in range(rng.choice([0, 5, 100])))
        m = stored_member(pl, lie_len=rng.choice([len(pl) + 1, 4096, 65535]))
        if rng.random() < 0.5:
            m = m[:-4] + struct.pack("<I", rng.choice(CLAIMS))
        return fam, m
    if fam == "padding":
        return fam, good + b"\x00" * rng.choice([1, 7, 512, 5000])
    if fam == "garbage-after":
        g = bytes(rng.getrandbits(8) for _ in range(rng.choice([1, 4, 18, 40])))
        if rng.random() < 0.5:
            g = g + struct.pack("<I", rng.choice(CLAIMS))
        return fam, good + g
    if fam == "bomb":
        # high ratio: allowed to cost what it produces
        return fam, member(bytes(rng.choice([64 * 1024, 512 * 1024, 2 * MIB])), level=9)
    if fam == "random":
        return fam, b"\x1f\x8b\x08" + bytes(rng.getrandbits(8) for _ in range(rng.choice([0, 1, 7, 15, 16, 30, 200])))
    if fam == "tiny":
        return fam, bytes(rng.getrandbits(8) for _ in range(rng.randrange(0, 18)))
    # "isize-only": eighteen or more arbitrary bytes ending in a large little-endian number
    return fam, bytes(rng.getrandbits(8) for _ in range(rng.choice([14, 20, 60]))) + struct.pack("<I", rng.choice(CLAIMS))


def _measure(fn):
    tracemalloc.start()
    try:
        tracemalloc.reset_peak()
        base = tracemalloc.get_traced_memory()[0]
        try:
            v = fn()
            out = ("value", v)
        except MemoryError:
            out = ("exception", "MemoryError")
        except RecursionError:
            out = ("exception", "RecursionError")
        except Exception as e:  # noqa: BLE001 - the class is the observation
            out = ("exception", type(e).__name__)
        peak = tracemalloc.get_traced_memory()[1] - base
    finally:
        tracemalloc.stop()
    return out, max(0, peak)


def fetch_response_with(gz, magic):
    w = R.enc_message(magic, 1, None, gz, 0 if magic == 1 else None)
    ms = R.enc_set([(7, w)])
    data, _ = R.enc_fetch(1, [(b"t", [(0, 0, 8, ms)])])
    return data


def run_case(fam, gz, magic):
    """-> dict with the measured peaks of both paths"""
    import afkak.codec as codec
    from afkak.kafkacodec import KafkaCodec

    produced = produced_by(gz)
    (kind, v), peak = _measure(lambda: len(codec.gzip_decode(gz)))
    data = fetch_response_with(gz, magic)

    def decode_all():
        n = 0
        for resp in KafkaCodec.decode_fetch_response(data):
            for _off, msg in resp.messages:
                n += 1
        return n

    (kind2, v2), peak2 = _measure(decode_all)
    return {"family": fam, "gzip_hex": gz.hex() if len(gz) <= 4096 else None, "gzip_len": len(gz), "produced": produced, "wrapper_magic": magic,
            "gzip_decode": [kind, v], "gzip_decode_peak": peak, "gzip_decode_bound": bound(len(gz), produced),
            "fetch_len": len(data), "fetch_decode": [kind2, v2], "fetch_peak": peak2, "fetch_bound": bound(len(data), produced)}


def failures_of(row, scenario):
    out = []
    if row["gzip_decode_peak"] > row["gzip_decode_bound"]:
        out.append({"what": "afkak.codec.gzip_decode allocated %d bytes (peak) for a %d-byte member that inflates to %d bytes: more than %d + %d*(input+produced) = %d; "
                            "allocation follows a length field of the input, not the input" % (row["gzip_decode_peak"], row["gzip_len"], row["produced"], BASE, FACTOR, row["gzip_decode_bound"]),
                    "scenario": scenario, "tags": ["gzip-alloc-by-length-field"], "measured": row})
    if row["fetch_peak"] > row["fetch_bound"]:
        out.append({"what": "decoding a %d-byte fetch response (valid message CRC, hostile gzip value) and walking its messages allocated %d bytes (peak); the value inflates to %d bytes: "
                            "more than %d + %d*(input+produced) = %d" % (row["fetch_len"], row["fetch_peak"], row["produced"], BASE, FACTOR, row["fetch_bound"]),
                    "scenario": scenario, "tags": ["fetch-gzip-alloc-by-length-field"], "measured": row})
    return out


def stage(ctx, res, n):
    import random

    rng = random.Random(ctx.rng.randrange(1 << 30))
    worst = {}
    rows = []
    nfail = 0
    for i in range(n):
        seed = rng.randrange(1 << 30)
        r2 = random.Random(seed)
        fam, gz = gen_case(r2)
        magic = r2.choice([0, 1])
        row = run_case(fam, gz, magic)
        res.evaluations += 1
        res.traces_validated += 1
        res.count("gzip-alloc:family=" + fam)
        res.count("gzip-alloc:gzip_decode->" + (row["gzip_decode"][1] if row["gzip_decode"][0] == "exception" else "value"))
        res.count("gzip-alloc:fetch->" + (row["fetch_decode"][1] if row["fetch_decode"][0] == "exception" else "value"))
        if fam != "valid":
            res.nontrivial(["gzip-alloc", gz.hex() if len(gz) < 4096 else (fam, len(gz), seed)])
        ratio = row["gzip_decode_peak"] / float(row["gzip_decode_bound"])
        w = worst.get(fam)
        if w is None or ratio > w["peak_over_bound"]:
            worst[fam] = {"family": fam, "gzip_len": row["gzip_len"], "produced": row["produced"], "peak": row["gzip_decode_peak"], "fetch_peak": row["fetch_peak"],
                          "bound": row["gzip_decode_bound"], "peak_over_bound": round(ratio, 4), "outcome": row["gzip_decode"]}
        fs = failures_of(row, {"xl5": "c12-gzip", "case_seed": seed})
        if fs:
            nfail += 1
            if nfail <= 3:
                res.monitor_failures.extend(fs[:1])
            else:
                break  # enough for a verdict; a decoder that allocates by length field is slow to drive
        if len(rows) < 6:
            rows.append({k: row[k] for k in ("family", "gzip_len", "produced", "gzip_decode", "gzip_decode_peak", "fetch_peak")})
    res.extra["gzip_alloc_worst_by_family"] = sorted(worst.values(), key=lambda x: x["family"])
    res.extra["gzip_alloc_bound"] = "peak <= %d + %d*(len(input)+bytes the deflate streams inflate to)" % (BASE, FACTOR)
    res.sample({"op": "gzip-alloc", "rows": rows}, limit=12)
    return nfail


def replay(ctx, scenario):
    import random

    r2 = random.Random(scenario["case_seed"])
    fam, gz = gen_case(r2)
    magic = r2.choice([0, 1])
    row = run_case(fam, gz, magic)
    print("family %s: %d-byte gzip value (inflates to %d bytes) in a %d-byte fetch response (wrapper format %d)" % (fam, len(gz), row["produced"], row["fetch_len"], magic))
    print("  afkak.codec.gzip_decode -> %r, peak allocation %d bytes (bound %d)" % (row["gzip_decode"], row["gzip_decode_peak"], row["gzip_decode_bound"]))
    print("  decode_fetch_response + iteration -> %r, peak allocation %d bytes (bound %d)" % (row["fetch_decode"], row["fetch_peak"], row["fetch_bound"]))
    fs = failures_of(row, scenario)
    for f in fs:
        print("  FAIL:", f["what"])
    return 1 if fs else 0


_ = io  # (kept for interactive use)
