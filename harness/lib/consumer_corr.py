"""Correspondence plumbing for the consumer component: scenario -> driver lines, canonicalise, diff, monitors."""
from fractions import Fraction

from harness.lib import consumer_run

MONITORS = {
    "C02": ["c02-increasing", "c02-no-overlap", "c02-single-fetch", "c02-faithful", "c02-prompt"],
    "C03": ["c03-commit-le-processed", "c03-one-in-flight", "c03-committed-acked", "c03-resume", "c03-failure-stops", "c03-commit-reports", "c03-ack-recorded", "c03-resume-asks"],
    "C13": ["c13-start-once", "c13-fires-once", "c13-quiescent", "c13-shutdown", "c13-shutdown-inproc", "c13-no-crash", "c13-commit-bounded", "c13-alive", "c13-shutdown-fail", "c02-prompt", "c03-commit-reports"],
    "C14": ["c14-delays", "c14-reset", "c14-growth", "c14-never-skips", "c14-attempts"],
}
ALL_MONITORS = [m for p in sorted(MONITORS) for m in MONITORS[p]]


def cfg_line(cfg):
    return "new group=%d autoN=%d autoS=%s buf=%d max=%s init=%s maxd=%s attempts=%d reset=%s cancelReq=%s cancelCommit=%s" % (
        1 if cfg["group"] else 0,
        cfg["autoN"] if cfg["group"] else 0,
        Fraction(cfg["autoMs"], 1000) if cfg["group"] else 0,
        cfg["buf"],
        "-" if cfg.get("max") is None else cfg["max"],
        cfg["init"],
        cfg["maxd"],
        cfg["attempts"],
        "-" if cfg.get("reset") is None else cfg["reset"],
        cfg.get("cancelReq", "-"),
        cfg.get("cancelCommit", "-"),
    )


def model_res(res):
    """How the processor call ends, as the model knows it: a fired Deferred is a plain result (`ok` / `err`), a Deferred
    that fired but whose chain is paused on a pending one is a pending result (`defer`)."""
    if res == "fired":
        return "ok"
    if res == "paused":
        return "defer"
    if res.startswith("failed:"):
        return "err:" + res[len("failed:"):]
    return res


def script_line(script):
    return "script " + " ".join("%s/%s" % (",".join(e["acts"]) or "-", model_res(e["res"])) for e in script) if script else "script"


def model_event(ev):
    """The event as the model knows it: an OffsetCommit reply without an entry for the partition is a failed attempt."""
    w = ev.split()
    if w[0] == "commitDone" and len(w) > 2 and w[2] == "empty":
        return "commitDone %s err kafka:0" % w[1]
    return ev


def model_lines(sc):
    return [cfg_line(sc["cfg"]), script_line(sc.get("script", []))] + [model_event(e) for e in sc["events"]]


def canon_impl(line, cfg):
    """Implementation observation -> the model's syntax (drops what the model does not carry, after checking it)."""
    w = line.split()
    if w[0] == "commitReq":
        # generation and member id are constructor constants passed through
        if int(w[3]) != cfg.get("gen", -1) or w[4] != (cfg.get("member", "") or "-"):
            return "commitReq-bad-group-args " + line
        return " ".join(w[:3])
    if w[0] == "crash":
        return "crash"
    if w[0] in ("commitFired",) and len(w) == 4 and w[3] == "opInProgress":
        return line + ":0"
    return line


def canon_model(line):
    w = line.split()
    if w[0] == "crash":
        return "crash"
    return line


def same(a, b):
    """Equal up to float formatting of timer delays (relative 1e-9)."""
    if a == b:
        return True
    wa, wb = a.split(), b.split()
    if len(wa) == 3 and len(wb) == 3 and wa[0] == wb[0] == "setTimer" and wa[1] == wb[1]:
        x, y = float(Fraction(wa[2])), float(Fraction(wb[2]))
        return abs(x - y) <= 1e-9 * max(1.0, abs(x), abs(y))
    return False


def truncate_at_crash(obs):
    out = []
    for o in obs:
        out.append(o)
        if o == "crash":
            break
    return out


def reorder_start(obs):
    """`start()` may fire its Deferred before returning it; the harness can only look once it has it."""
    fired = [o for o in obs if o.startswith("startFired")]
    rest = [o for o in obs if not o.startswith("startFired")]
    if rest and rest[-1].startswith("probe"):
        return rest[:-1] + fired + rest[-1:]
    return rest + fired


def diff(sc, impl, model):
    """impl: list of obs lists per event (raw); model: answers of the driver for model_lines(sc).
    Returns None or (event index, impl obs, model obs)."""
    cfg = sc["cfg"]
    if model[0] != ["ok"] or model[1] != ["ok"]:
        return (-1, ["<header>"], model[0] + model[1])
    crashed = False
    for i, ev in enumerate(sc["events"]):
        a = truncate_at_crash([canon_impl(l, cfg) for l in impl[i]])
        b = truncate_at_crash([canon_model(l) for l in model[2 + i]])
        if ev.startswith("start"):
            a, b = reorder_start(a), reorder_start(b)
        if len(a) != len(b) or not all(same(x, y) for x, y in zip(a, b)):
            return (i, a, b)
        if a and a[-1] == "crash":
            crashed = True
            break
    return None


def trace_lines(sc, impl):
    """The IMPLEMENTATION trace as `tr …` lines for the driver's monitors."""
    cfg = sc["cfg"]
    out = ["tr-reset"]
    for ev, obs in zip(sc["events"], impl):
        ev = model_event(ev)
        if obs == ["bad-op"]:
            out.append("tr rej " + ev)
            continue
        out.append("tr ev " + ev)
        for o in obs:
            c = canon_impl(o, cfg)
            if c == "crash":
                c = "crash impl"
            w = c.split()
            if w[0] in ("setTimer", "cancelTimer") and w[1].startswith("other:"):
                # a timer of the implementation the model has no name for (neither callee nor the attribute holding the
                # handle is known): not part of the Lean trace; it disagrees with the model, and
                # `unknown_timers_left` says whether it outlives stop()
                continue
            if w[0] == "setTimer":
                # the delay exactly as the implementation computed it (a binary float)
                c = "setTimer %s %s" % (w[1], Fraction(float(w[2])))
            out.append("tr ob " + c)
        if any(o.startswith("crash") for o in obs):
            break
    return out


def unknown_timers_left(impl):
    """Timers the implementation armed that the model has no name for and that are still armed when stop() returns
    (or a graceful shutdown reports success): the names, or [] (the scenario cannot fire such a timer)."""
    armed, left = [], []
    for obs in impl:
        for o in obs:
            w = o.split()
            if w[0] == "setTimer" and w[1].startswith("other:"):
                armed.append(w[1])
            elif w[0] == "cancelTimer" and w[1].startswith("other:") and w[1] in armed:
                armed.remove(w[1])
            elif (w[0] == "stopReturned" or w[:2] == ["shutdownFired", "ok"]) and armed:
                left += armed
    return sorted(set(left))


def monitor_lines(sc, impl, names):
    return [cfg_line(sc["cfg"])] + trace_lines(sc, impl) + ["mon " + n for n in names]


def run_impl(sc):
    return consumer_run.run_scenario(sc)


def first_failing_prefix(run_model, sc, impl, name):
    """Smallest number of events whose IMPLEMENTATION trace the monitor `name` rejects (None if it accepts all)."""
    n = len(sc["events"])
    lines = [cfg_line(sc["cfg"])]
    for i in range(1, n + 1):
        sub = dict(sc, events=sc["events"][:i])
        lines += trace_lines(sub, impl[:i]) + ["mon " + name]
    out = run_model("consumer", lines)
    verdicts = [o for o in out if o in (["ok"], ["fail"])]
    # the answers to `new` and `tr-reset` are ["ok"] too: pick the answers of the `mon` requests by position
    pos, res = 1, []
    for i in range(1, n + 1):
        sub = dict(sc, events=sc["events"][:i])
        pos += len(trace_lines(sub, impl[:i]))
        res.append(out[pos])
        pos += 1
    for i, r in enumerate(res):
        if r != ["ok"]:
            return i + 1
    return None
