"""C18 end to end: the partition that RECEIVED a produced message.

The real Producer (stock HashedPartitioner / RoundRobinPartitioner) over the real KafkaClient over the
simulated cluster, with metadata responses that list a topic's partitions in arbitrary order, topics that
are partly leaderless, topics that grow, listings that are re-ordered between responses, broker errors
that make the client forget and re-read its metadata, leader moves, broker restarts, lost answers.

Judged (the Lean monitors of Afkak/Monitor/C18.lean, evaluated by `model_partitioner`):
  hashOk      a keyed message was carried to the broker in a Produce request naming partition p:
              p = sorted(S)[murmur2(key) mod |S|] where S is the partition set of the topic as a metadata
              response told the client before (the Java client's choice: ids are 0..n-1, so that IS
              murmur2 mod numPartitions).  S ranges over the responses sent before the request arrived
              (one candidate unless the topic grew), narrowed to the set the Producer handed to its
              partitioner when that is one of them.
  windowFair  round robin: in the order in which the partitioner was asked, every window of k*n selections
              with an unchanged list of n partitions holds each partition exactly k times, and the
              partition a send's messages LANDED on is the one selected for it (exact when every send of
              the script carries a unique key - the round-robin partitioner ignores keys -, as multisets
              otherwise).
  member      every partition named by a Produce request for the topic is one the metadata listed.
"""
import collections
import random

from harness.lib import xl_run as X

TOPICS = ["x0", "x1"]


def ints(l):
    return ",".join(str(x) for x in l) if l else "-"


def hx(b):
    return b.hex() if b else "-"


def gen_key(rng):
    n = rng.choice([0, 1, 2, 3, 4, 5, 7, 8, 11, 16, 23])
    return bytes(rng.randrange(128, 256) if rng.random() < 0.3 else rng.randrange(0, 256) for _ in range(n))


def gen_listing(rng, n):
    ids = list(range(n))
    mode = rng.choice(["asc", "shuffled", "shuffled", "shuffled", "reversed", "rotated"])
    if mode == "shuffled":
        rng.shuffle(ids)
    elif mode == "reversed":
        ids.reverse()
    elif mode == "rotated" and n > 1:
        k = rng.randrange(1, n)
        ids = ids[k:] + ids[:k]
    return ids, mode


def gen_script(rng):
    brokers = rng.choice([1, 2, 3, 3])
    partitioner = "hashed" if rng.random() < 0.55 else "rr"
    topics = []
    shape = {}
    for name in TOPICS[: rng.choice([1, 1, 2])]:
        n = rng.choice([1, 2, 3, 3, 4, 4, 5, 6, 8])
        order, mode = gen_listing(rng, n)
        leaders = [rng.randrange(1, brokers + 1) for _ in order]
        leaderless = []
        if n >= 2 and rng.random() < 0.25:
            for i in rng.sample(range(n), rng.choice([1, 1, 1, 2, rng.randrange(1, n)]) if n > 2 else 1):
                leaders[i] = -1
                leaderless.append(order[i])
        topics.append({"name": name, "order": order, "leaders": leaders})
        shape[name] = {"n": n, "mode": mode, "leaderless": leaderless}
    batch = rng.random() < 0.4
    prod = {
        "req_acks": rng.choice([1, 1, -1]),
        "max_req_attempts": rng.choice([3, 5, 10]),
        "retry_interval": rng.choice([0.1, 0.25]),
        "batch_send": batch,
        "batch_every_n": rng.choice([2, 3, 5]) if batch else 10,
        "batch_every_b": 32768,
        "batch_every_t": rng.choice([0.5, 1]) if batch else 30,
        "codec": rng.choice([None, None, 1]),
        "partitioner": partitioner,
    }
    steps = []
    # round robin is handed keys and ignores them: unique keys (exact matching of selection and landing),
    # no keys, or a few keys that REPEAT (two devices taking turns) - each send consumes one selection
    rr_keys = rng.choice(["unique", "unique", "none", "pool", "pool"])
    nsend = rng.choice([4, 8, 12, 20, 30])
    pool = [gen_key(rng) for _ in range(rng.choice([2, 4, 8]))]
    t = 0.0
    for sid in range(nsend):
        t = round(t + rng.choice([0, 0, 0, 0.01, 0.1, 0.5]), 3)
        topic = rng.choice([tp["name"] for tp in topics])
        if partitioner == "hashed":
            key = (rng.choice(pool) if rng.random() < 0.5 else gen_key(rng)).hex()
        else:
            key = ("%04x" % sid) if rr_keys == "unique" else None if rr_keys == "none" else rng.choice(pool[:3]).hex() if rng.random() < 0.85 else None
        steps.append({"at": t, "do": "send", "sid": sid, "topic": topic, "key": key, "n": rng.choice([1, 1, 2, 3]), "size": rng.choice([0, 0, 40, 400])})
    span = t + 0.5
    timeout = rng.choice([1000, 2000, 5000])
    ts = timeout / 1000.0
    nodes = list(range(1, brokers + 1))
    for _ in range(rng.choice([0, 0, 1, 1, 2, 3])):
        ft = round(rng.random() * span, 3)
        tp = rng.choice(topics)
        name, n = tp["name"], len(tp["order"])
        kind = rng.choice(["error", "error", "move", "kill", "drop", "refresh", "reorder", "reorder", "grow", "grow", "elect",
                           "metadata-error", "unreachable", "hang", "delist", "delist", "restart", "delay"])
        if kind == "error":
            steps.append({"at": ft, "do": "inject", "action": "error", "api": "Produce", "topic": name, "partition": rng.choice(tp["order"]),
                          "code": rng.choice([6, 6, 3, 7]), "times": rng.choice([1, 1, 2])})
        elif kind == "move":
            steps.append({"at": ft, "do": "move_leader", "topic": name, "partition": rng.choice(tp["order"]), "new": rng.randrange(1, brokers + 1),
                          "old": rng.choice(["not_leader", "not_leader", "unknown", "silent", "down"])})
        elif kind == "elect":
            # a leaderless partition gets a leader / a partition loses its leader
            p = rng.choice(tp["order"])
            steps.append({"at": ft, "do": "move_leader", "topic": name, "partition": p, "new": rng.choice([-1, rng.randrange(1, brokers + 1)]), "old": "not_leader"})
            if rng.random() < 0.5:
                steps.append({"at": ft, "do": "refresh", "topics": [name]})
        elif kind == "kill" and brokers > 1:
            node = rng.randrange(1, brokers + 1)
            steps.append({"at": ft, "do": "kill_broker", "node_id": node, "elect": rng.random() < 0.5})
            if rng.random() < 0.7:
                steps.append({"at": round(ft + rng.choice([0.3, 1, 4]), 3), "do": "start_broker", "node_id": node})
        elif kind == "drop":
            steps.append({"at": ft, "do": "inject", "action": rng.choice(["drop_after", "drop_before", "drop_mid"]), "api": rng.choice(["Produce", "Produce", "Metadata"]), "times": 1})
        elif kind == "refresh":
            steps.append({"at": ft, "do": "refresh", "topics": [name]})
        elif kind == "reorder":
            order, _m = gen_listing(rng, n)
            steps.append({"at": ft, "do": "reorder", "topic": name, "order": order})
            steps.append({"at": ft, "do": "refresh", "topics": [name]})
        elif kind == "grow":
            k = rng.choice([1, 1, 2, 3])
            add = list(range(n, n + k))
            order, _m = gen_listing(rng, n + k)
            steps.append({"at": ft, "do": "grow", "topic": name, "add": add, "leaders": [rng.choice([-1] + list(range(1, brokers + 1))) if rng.random() < 0.3
                                                                                       else rng.randrange(1, brokers + 1) for _ in add], "order": order})
            if rng.random() < 0.8:
                steps.append({"at": ft, "do": "refresh", "topics": [name]})
        elif kind == "metadata-error":
            # the topic is reported with an error code and no partitions (leader election in progress / not known yet)
            steps.append({"at": ft, "do": "inject", "action": "error", "api": "Metadata", "topic": name, "code": rng.choice([5, 5, 3]), "times": rng.choice([1, 2, 3])})
            if rng.random() < 0.6:
                steps.append({"at": ft, "do": "refresh", "topics": [name]})
        elif kind == "unreachable":
            node = rng.choice(nodes)
            steps.append({"at": ft, "do": "set", "broker": node, "attr": "mode", "value": rng.choice(["refuse", "blackhole"])})
            steps.append({"at": ft, "do": "restart_broker", "node_id": node})
            steps.append({"at": round(ft + rng.choice([0.5, 2, 8]), 3), "do": "set", "broker": node, "attr": "mode", "value": "accept"})
        elif kind == "hang":
            who = nodes if rng.random() < 0.4 else [rng.choice(nodes)]
            steps.append({"at": ft, "do": "hang", "nodes": who})
            steps.append({"at": round(ft + rng.choice([0.5, 1.5, 4]) * ts, 3), "do": "heal", "nodes": who})
        elif kind == "delist" and brokers > 1:
            # a broker drops out of the metadata: the partitions it leads are listed WITHOUT a leader
            node = rng.choice(nodes)
            steps.append({"at": ft, "do": "remove_from_metadata", "node_id": node})
            if rng.random() < 0.7:
                steps.append({"at": ft, "do": "refresh", "topics": [tp2["name"] for tp2 in topics]})
            if rng.random() < 0.6:
                steps.append({"at": round(ft + rng.choice([0.3, 1, 4]), 3), "do": "restore_to_metadata", "node_id": node})
        elif kind == "restart":
            steps.append({"at": ft, "do": "restart_broker", "node_id": rng.choice(nodes)})
        elif kind == "delay":
            steps.append({"at": ft, "do": "inject", "action": "delay", "api": rng.choice(["Produce", "Metadata"]), "seconds": rng.choice([0.2, 0.5 * ts, 2 * ts]), "times": rng.choice([1, 2])})
    send_topics = [tp["name"] for tp in topics]
    auto = None
    if rng.random() < 0.15:
        # a topic that does not exist yet: the first metadata request creates it and is answered "no leader yet, no partitions"
        auto = rng.choice([1, 2, 3, 4, 6])
        for st in steps:
            if st["do"] == "send" and rng.random() < 0.5:
                st["topic"] = "x2"
    cl = {"brokers": brokers, "topics": topics, "chunked": rng.random() < 0.15, "connect_delay": rng.choice([0, 0, 0, 0.01]),
          "per_broker_listing": brokers > 1 and rng.random() < 0.25}
    if auto:
        cl["auto_create"] = auto
    return {"xl": "c18", "seed": rng.randrange(1 << 30), "cluster": cl,
            "client": {"timeout": timeout, "enable_protocol_version_discovery": rng.random() < 0.3},
            "producer": prod, "warm": rng.random() < 0.5, "steps": steps, "until": 90.0}



class Judged(object):
    """the monitor requests of one run, and what to report when one of them does not answer ok"""

    def __init__(self, script):
        self.script = script
        self.lines = []  # model request lines
        self.groups = []  # (what, tag, detail, [indices into lines], mode "any"|"all")
        self.failures = []  # decided without the model

    def ask(self, what, tag, detail, lines, mode="all"):
        idx = []
        for l in lines:
            idx.append(len(self.lines))
            self.lines.append(l)
        self.groups.append((what, tag, detail, idx, mode))


def judge(r, hist):
    """-> Judged"""
    sc = r.script
    j = Judged(sc)
    if r.error:
        j.failures.append({"what": r.error, "tags": ["c18-xl:livelock"]})
        return j
    cluster = r.cluster
    views = X.metadata_views(cluster)
    frames = X.produce_frames(cluster)
    partitioner = sc["producer"]["partitioner"]
    # where every message value was carried to: value -> [(n of the request, topic, partition)]
    carried = collections.defaultdict(list)
    for e, _v, parts in frames:
        for topic, pid, _sh, deep in parts:
            if isinstance(deep, list):
                for m in deep:
                    carried[m["value"]].append((e["n"], topic, pid))
    for topic, vs in views.items():
        for _n, s, order, leaders in vs:
            hist["xl:listing-" + ("ascending" if order == sorted(order) else "not-ascending")] += 1
            if any(ld == -1 for ld in leaders.values()):
                hist["xl:listing-partly-leaderless" if any(ld != -1 for ld in leaders.values()) else "xl:listing-all-leaderless"] += 1
        if len(set(s for _n, s, _o, _l in vs)) > 1:
            hist["xl:topic-grew-in-client-view"] += 1
    for e in r.picks:
        hist["xl:list-handed-to-partitioner-" + ("ascending" if e["list"] == sorted(e["list"]) else "NOT-ascending")] += 1
    landed_of = {}  # sid -> (topic, partition, n of first request)
    # the selection made for each send: i-th send of a (topic, key) <-> i-th selection with that (topic, key), when
    # there are equally many (every send selected exactly once) and each selection follows its send
    exact_pick = {}
    by_tk_s, by_tk_p = collections.defaultdict(list), collections.defaultdict(list)
    for sid, s in sorted(r.sends.items(), key=lambda x: x[1]["n"]):
        by_tk_s[(s["topic"], s["key"])].append(sid)
    for e in r.picks:
        by_tk_p[(e["topic"], e["key"])].append(e)
    for tk, sids in by_tk_s.items():
        ps = by_tk_p.get(tk, [])
        if len(ps) == len(sids) and all(r.sends[sid]["n"] < e["n"] for sid, e in zip(sids, ps)):
            for sid, e in zip(sids, ps):
                exact_pick[sid] = e
    for sid, s in sorted(r.sends.items()):
        where = [x for v in s["values"] for x in carried.get(v, [])]
        if not where:
            hist["xl:send-never-reached-a-broker"] += 1
            continue
        tps = set((t, p) for _n, t, p in where)
        first_n = min(n for n, _t, _p in where)
        if len(tps) > 1 or any(t != s["topic"] for t, _p in tps):
            j.failures.append({"what": "the messages of send %d (topic %s) were carried to %r: not one partition of its topic" % (sid, s["topic"], sorted(tps)),
                               "tags": ["c18-xl:send-split"]})
            continue
        topic, p = next(iter(tps))
        landed_of[sid] = (topic, p, first_n)
        cands = []
        for n_sent, sset, _order, _l in views.get(topic, []):
            if n_sent < first_n and sset not in cands:
                cands.append(sset)
        if not cands:
            j.failures.append({"what": "send %d reached partition %d of %s before any metadata response listed the topic's partitions" % (sid, p, topic),
                               "tags": ["c18-xl:no-metadata"]})
            continue
        j.ask("a Produce request names partition %d of %s, which no metadata response listed (%r)" % (p, topic, [sorted(c) for c in cands]),
              "c18-xl:not-member", {"sid": sid}, ["mon-member %s %d" % (ints(sorted(c)), p) for c in cands], "any")
        if partitioner == "hashed" and s["key"] is not None:
            handed = [frozenset(e["list"]) for e in r.picks if e["topic"] == topic and e["key"] == s["key"] and s["n"] < e["n"] < first_n]
            narrowed = [c for c in cands if c in handed]
            if not narrowed:
                hist["xl:list-handed-to-partitioner-is-no-metadata-view"] += 1
            use = narrowed or cands
            # exactly ONE candidate whenever the selection made for THIS send can be told: the sends of the (topic, key)
            # and the selections with that key correspond one to one, in order (a wrong pick passes an "any" over
            # several small sets with probability >= 1/2)
            mine = exact_pick.get(sid)
            if mine is not None and frozenset(mine["list"]) in cands and mine["n"] < first_n:
                use = [frozenset(mine["list"])]
                hist["xl:hashed-judged-against-the-list-of-its-own-selection"] += 1
            elif len(use) > 1:
                hist["xl:hashed-judged-any-of-several-candidate-sets"] += 1
            hist["xl:hashed-judged-candidates=%d" % len(use)] += 1
            hist["xl:hashed-key-len-mod4=%d" % (len(s["key"]) % 4)] += 1
            j.ask("keyed message landed on another partition than the Java client's choice: key %s, topic %s with partitions %r, landed on %d"
                  % (s["key"].hex(), topic, [sorted(c) for c in use], p),
                  "c18-xl:hash-not-java", {"sid": sid, "key_hex": s["key"].hex(), "partitions": [sorted(c) for c in use], "landed": p},
                  ["mon-hash %s %s %d" % (hx(s["key"]), ints(sorted(c)), p) for c in use], "any")
    if partitioner == "rr":
        keys = [s["key"] for s in r.sends.values() if s["key"] is not None]
        hist["xl:rr-keys=" + ("none" if not keys else "all-unique" if len(set(keys)) == len(r.sends) else "repeating")] += 1
        # calm run (metadata loaded before the first send, no fault, no topic created on the way): every
        # send consumes ONE selection at dispatch, in send order, so the partitions the sends of a topic
        # LANDED on, in send order, are the selections: every window of k*n of them is fair
        calm = bool(sc.get("warm")) and all(st["do"] == "send" for st in sc["steps"]) and not sc["cluster"].get("auto_create")
        if calm:
            hist["xl:rr-calm-runs"] += 1
            for topic in sorted(set(s["topic"] for s in r.sends.values())):
                lsts = set(tuple(sorted(set(e["list"]))) for e in r.picks if e["topic"] == topic)
                if len(lsts) != 1 or any("result" not in e for e in r.picks if e["topic"] == topic):
                    continue
                cur = list(next(iter(lsts)))
                n, run = len(cur), []
                for sid, s in sorted(r.sends.items()):
                    if s["topic"] != topic:
                        continue
                    if sid not in landed_of:
                        run = []  # selected (or not) but never carried to a broker: the window is broken here
                        continue
                    run.append(landed_of[sid][1])
                    for k in (1, 2):
                        if n and len(run) >= k * n:
                            w = run[-k * n:]
                            hist["xl:rr-landed-window"] += 1
                            j.ask("round robin through the full stack is not fair: topic %s with partitions %r, %d consecutive sends LANDED on %r"
                                  % (topic, cur, k * n, w), "c18-xl:rr-landed-unfair", {"topic": topic, "partitions": cur, "window": w},
                                  ["mon-rr %s %s" % (ints(cur), ints(w))])
        by_topic = collections.defaultdict(list)
        for e in r.picks:
            by_topic[e["topic"]].append(e)
        unique = all(s["key"] is not None for s in r.sends.values()) and len(set(s["key"] for s in r.sends.values())) == len(r.sends)
        sid_of_key = {s["key"]: sid for sid, s in r.sends.items()} if unique else {}
        for topic, picks in by_topic.items():
            run, cur = [], None
            for e in picks:
                if "result" not in e:
                    run, cur = [], None
                    hist["xl:rr-pick-raised"] += 1
                    continue
                lst = sorted(set(e["list"]))
                if lst != cur:
                    run, cur = [], lst
                    hist["xl:rr-list-changed"] += 1
                run.append(e["result"])
                n = len(cur)
                for k in (1, 2):
                    if n and len(run) >= k * n:
                        w = run[-k * n:]
                        hist["xl:rr-window"] += 1
                        j.ask("round robin through the full stack is not fair: topic %s, partitions %r (listed to the client, handed to the partitioner as %r), "
                              "%d consecutive selections %r" % (topic, cur, e["list"], k * n, w),
                              "c18-xl:rr-unfair", {"topic": topic, "partitions": cur, "window": w}, ["mon-rr %s %s" % (ints(cur), ints(w))])
                if unique and e["key"] in sid_of_key:
                    sid = sid_of_key[e["key"]]
                    if sid in landed_of:
                        hist["xl:rr-landing-matched-to-selection"] += 1
                        if landed_of[sid][1] != e["result"]:
                            j.failures.append({"what": "send %d: the partitioner selected partition %d of %s, its messages were carried to partition %d"
                                               % (sid, e["result"], topic, landed_of[sid][1]), "tags": ["c18-xl:landed-not-selected"]})
            if not unique:
                picked = collections.Counter(e["result"] for e in picks if "result" in e)
                got = collections.Counter(p for sid, (t, p, _n) in landed_of.items() if t == topic)
                if any(got[p] > picked[p] for p in got):
                    j.failures.append({"what": "topic %s: messages landed on partitions %r, the partitioner selected %r" % (topic, dict(got), dict(picked)),
                                       "tags": ["c18-xl:landed-not-selected"]})
    return j


def summarize(r, hist):
    sc = r.script
    hist["xl:runs"] += 1
    hist["xl:partitioner=" + sc["producer"]["partitioner"]] += 1
    hist["xl:brokers=%d" % sc["cluster"]["brokers"]] += 1
    if sc["cluster"].get("auto_create"):
        hist["xl:topic-auto-created-by-first-metadata-request"] += 1
    if sc["cluster"].get("per_broker_listing"):
        hist["xl:each-broker-lists-in-its-own-order"] += 1
    if sc["cluster"].get("chunked"):
        hist["xl:chunked-delivery"] += 1
    hist["xl:warm-metadata=%s" % bool(sc.get("warm"))] += 1
    hist["xl:discovery=%s" % bool(sc["client"].get("enable_protocol_version_discovery"))] += 1
    for st in sc["steps"]:
        if st["do"] != "send":
            hist["xl:step-" + st["do"] + (":" + st.get("action", "") if st["do"] == "inject" else "")] += 1
    for sid, outs in r.outcomes.items():
        if not outs:
            hist["xl:send-unresolved"] += 1
        else:
            res = outs[0][3]
            hist["xl:send-" + ("ok" if outs[0][2] else "fail:" + str(res[1] if isinstance(res, (tuple, list)) else res))] += 1
    hist["xl:metadata-requests"] += len(r.cluster.requests(api="Metadata"))
    hist["xl:produce-requests"] += len(r.cluster.requests(api="Produce"))


def evaluate(ctx, res, judged, limit=3):
    """run the monitor requests of many runs in one model call; -> number of failing runs"""
    lines = [l for j in judged for l in j.lines]
    got = ctx.model("partitioner", lines) if lines else []
    pos, bad = 0, 0
    for j in judged:
        g = got[pos:pos + len(j.lines)]
        pos += len(j.lines)
        fails = list(j.failures)
        for what, tag, detail, idx, mode in j.groups:
            oks = [g[i] == ["ok"] for i in idx]
            res.count("xl:monitor-" + j.lines[idx[0]].split(" ")[0] + (":ok" if (any(oks) if mode == "any" else all(oks)) else ":FAIL"))
            if not (any(oks) if mode == "any" else all(oks)):
                fails.append({"what": what, "tags": [tag], "detail": detail, "monitor": [j.lines[i] for i in idx], "verdict": [g[i] for i in idx]})
        if fails:
            bad += 1
            if bad <= limit:
                f = fails[0]
                f["scenario"] = j.script
                f["also"] = [x["what"] for x in fails[1:4]]
                res.monitor_failures.append(f)
    return bad


def stage(ctx, res, n):
    rng = random.Random(ctx.rng.randrange(1 << 30))
    hist = collections.Counter()
    judged = []
    bad = 0
    for i in range(n):
        script = gen_script(rng)
        try:
            r = X.run_script(script)
        except Exception as e:  # noqa: BLE001 - a crash of the stack under a scenario is a finding to look at
            import traceback

            res.monitor_failures.append({"what": "cross-layer run crashed: %r" % (e,), "scenario": script, "tags": ["c18-xl:crash"], "trace": traceback.format_exc()[-1200:]})
            continue
        res.evaluations += 1
        res.traces_validated += 1
        summarize(r, hist)
        j = judge(r, hist)
        if j.lines:
            res.nontrivial(script)
        judged.append(j)
        if len(judged) >= 150:
            bad += evaluate(ctx, res, judged, max(0, 3 - bad))
            judged = []
    bad += evaluate(ctx, res, judged, max(0, 3 - bad))
    for k, v in hist.items():
        res.count(k, v)
    return bad


def replay(ctx, script):
    from harness.core import Result

    r = X.run_script(script)
    hist = collections.Counter()
    j = judge(r, hist)
    res = Result()
    evaluate(ctx, res, [j])
    print("cross-layer C18 scenario: %d sends, %d produce requests reached a broker, %d selections" % (len(r.sends), len(r.cluster.requests(api="Produce")), len(r.picks)))
    for t, vs in X.metadata_views(r.cluster).items():
        print("  metadata listed %s as %r" % (t, [o for _n, _s, o, _l in vs][:4]))
    for e in r.picks[:12]:
        print("  partitioner asked: topic=%s key=%r list=%r -> %r" % (e["topic"], e["key"], e["list"], e.get("result", e.get("error"))))
    for f in res.monitor_failures:
        print("  FAIL:", f["what"])
    return 1 if res.monitor_failures else 0
