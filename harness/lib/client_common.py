"""Shared helpers of the client-layer checks: canonical dumps of the real KafkaClient's cache in the
model driver's format, token formatters, scenario generators for metadata responses."""
import logging


def quiet():
    logging.getLogger("afkak").setLevel(logging.CRITICAL + 1)
    for n in ("afkak.client", "afkak.brokerclient", "afkak.protocol", "afkak.kafkacodec"):
        logging.getLogger(n).setLevel(logging.CRITICAL + 1)


def lst(items):
    items = list(items)
    return ",".join(items) if items else "-"


def ints(l):
    l = list(l)
    return ",".join(str(x) for x in l) if l else "-"


def fmt_broker(b):
    return "%d@%s:%d" % (b[0], b[1], b[2])


def fmt_brokers(bs):
    return lst(fmt_broker(b) for b in bs)


def fmt_topics(ts):
    """ts: [(name, err, [(perr, part, leader)])]"""
    out = []
    for name, err, parts in ts:
        ps = "|".join("%d:%d:%d" % (pe, p, l) for pe, p, l in parts) if parts else "-"
        out.append("%s/%d/%s" % (name, err, ps))
    return ";".join(out) if out else "-"


def fmt_keys(keys):
    return lst("%s:%d" % (t, p) for t, p in keys)


def dump_real(client):
    """The real client's cache in the format of the model driver's `dump` (dict order preserved)."""
    def bm(b):
        return "none" if b is None else "%d@%s:%d" % (b.node_id, b.host, b.port)

    clients = client.clients or {}
    return [
        "brokers " + lst(bm(b) for b in client._brokers.values()),
        "clients " + lst("%d@%s:%d" % (bc.node_id, bc.host, bc.port) for bc in clients.values()),
        "t2b " + lst("%s:%d=%s" % (k.topic, k.partition, bm(v)) for k, v in client.topics_to_brokers.items()),
        "parts " + lst("%s=%s" % (t, "+".join(str(p) for p in ps)) for t, ps in client.topic_partitions.items()),
        "errs " + lst("%s=%d" % (t, e) for t, e in client.topic_errors.items()),
        "pmeta " + lst("%s:%d=%d:%d" % (k.topic, k.partition, m.partition_error_code, m.leader) for k, m in client.partition_meta.items()),
        "groups " + lst("%s=%s" % (g, bm(b)) for g, b in client._group_to_coordinator.items()),
    ]


TOPICS = ["t0", "t1", "t2", "t3"]
GROUPS = ["g0", "g1"]
TOPIC_ERRS = [0, 0, 0, 0, 3, 5, 17]
PART_ERRS = [0, 0, 0, 5, 9]


def gen_cluster(rng, nmax=5):
    """A broker list: ids from a small pool, hosts/ports that may collide or move."""
    n = rng.randrange(1, nmax + 1)
    ids = rng.sample(range(1, 8), n)
    return [(i, "h%d%s" % (i, rng.choice(["", "", "x", "y"])), rng.choice([9092, 9092, 9093])) for i in ids]


def gen_metadata(rng, known_ids=(), full=None, dup=True):
    """-> (brokers, topics, all) one metadata response in wire order.
    Leaders: mostly listed brokers, sometimes -1 (leaderless), sometimes a known-but-unlisted id,
    sometimes a never-seen id.  Occasionally duplicate broker ids / topic names / partition ids."""
    brokers = gen_cluster(rng) if rng.random() > 0.06 else []
    if dup and brokers and rng.random() < 0.08:
        b = rng.choice(brokers)
        brokers.append((b[0], b[1] + "d", b[2]))
    listed = [b[0] for b in brokers]
    topics = []
    names = rng.sample(TOPICS, rng.randrange(0, len(TOPICS) + 1))
    if dup and names and rng.random() < 0.06:
        names.append(rng.choice(names))
    for name in names:
        terr = rng.choice(TOPIC_ERRS)
        nparts = 0 if (terr != 0 and rng.random() < 0.7) else rng.randrange(0, 6)
        pids = rng.sample(range(0, 7), nparts)
        if dup and pids and rng.random() < 0.05:
            pids.append(rng.choice(pids))
        parts = []
        for p in pids:
            r = rng.random()
            if r < 0.12 or not listed:
                leader = -1 if (r < 0.09 or not known_ids) else rng.choice(list(known_ids))
            elif r < 0.17 and known_ids:
                leader = rng.choice(list(known_ids))
            elif r < 0.20:
                leader = rng.choice([9, 11])
            else:
                leader = rng.choice(listed)
            parts.append((rng.choice(PART_ERRS), p, leader))
        topics.append((name, terr, parts))
    if full is None:
        full = rng.random() < 0.4
    return brokers, topics, full
