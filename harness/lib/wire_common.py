"""Shared helpers of the wire checks (C04, C05): value syntax of `model_wire`, canonical exception
names, recording wrappers for the codec's externals, type-directed generators, batch runner."""
import gzip
import struct
import zlib


# --------------------------------------------------------------------------- value syntax (Afkak/Codec/Value.lean)

def vr(o):
    """Render a Python value in the token syntax of the driver. str -> its UTF-8 bytes."""
    if o is None:
        return "n"
    if isinstance(o, bool):
        raise TypeError("bool has no wire rendering")
    if isinstance(o, int):
        return "i%d" % o
    if isinstance(o, (bytes, bytearray)):
        return "b" + bytes(o).hex()
    if isinstance(o, str):
        return "b" + o.encode("utf-8").hex()
    if isinstance(o, (list, tuple)):
        return "[ " + "".join(vr(x) + " " for x in o) + "]"
    raise TypeError("no wire rendering for %r" % type(o))


def parse_v(s):
    """Inverse of vr (bytes stay bytes)."""
    toks = s.split()
    pos = [0]

    def one():
        t = toks[pos[0]]
        pos[0] += 1
        if t == "n":
            return None
        if t == "[":
            out = []
            while toks[pos[0]] != "]":
                out.append(one())
            pos[0] += 1
            return out
        if t[0] == "i":
            return int(t[1:])
        if t[0] == "b":
            return bytes.fromhex(t[1:])
        raise ValueError(t)

    v = one()
    if pos[0] != len(toks):
        raise ValueError("trailing tokens")
    return v


# --------------------------------------------------------------------------- exceptions

def exc_name(e):
    """Canonical class name of an exception raised by the codec (Afkak.Wire.Err.name)."""
    import afkak.common as C

    if isinstance(e, (gzip.BadGzipFile, EOFError, zlib.error)):
        return "GunzipError"
    for cls, nm in (
        (C.BufferUnderflowError, "BufferUnderflowError"), (C.ChecksumError, "ChecksumError"),
        (C.ConsumerFetchSizeTooSmall, "ConsumerFetchSizeTooSmall"), (C.ProtocolError, "ProtocolError"),
        (C.InvalidMessageError, "InvalidMessageError"), (C.UnsupportedCodecError, "UnsupportedCodecError"),
        (struct.error, "struct.error"), (UnicodeDecodeError, "UnicodeDecodeError"), (UnicodeEncodeError, "UnicodeEncodeError"),
        (AttributeError, "AttributeError"), (TypeError, "TypeError"), (NotImplementedError, "NotImplementedError"),
        (UnboundLocalError, "UnboundLocalError"), (AssertionError, "AssertionError"), (ValueError, "ValueError"),
        (OSError, "GunzipError"),
    ):
        if isinstance(e, cls):
            return nm
    return "other:" + type(e).__name__


def call(fn, *a, **kw):
    """-> 'ok <V>' via render of the result, or 'error <Class>'."""
    try:
        return ("ok", fn(*a, **kw))
    except Exception as e:  # noqa: BLE001 - every exception class is an observation
        return ("error", exc_name(e))


def drain(it):
    """Iterate a generator to its end: (items, 'ok' | exception class)."""
    out = []
    try:
        for x in it:
            out.append(x)
    except Exception as e:  # noqa: BLE001
        return out, exc_name(e)
    return out, "ok"


# --------------------------------------------------------------------------- externals

class _Time(object):
    def __init__(self, now_ms):
        self.now_ms = now_ms

    def time(self):
        return self.now_ms / 1000.0


class Externals(object):
    """Patch the module-level externals of afkak.kafkacodec (gzip functions, time) with recording
    wrappers around the REAL functions; `ext_lines()` hands the recorded answers to the model."""

    def __init__(self, now_ms=1500000000123):
        self.now_ms = now_ms
        self.gunzips = []  # (input or None, output bytes or None for an exception)
        self.gzips = []

    def __enter__(self):
        import afkak.kafkacodec as K

        self.K = K
        self.saved = (K.gzip_decode, K.gzip_encode, K.time)
        real_dec, real_enc = K.gzip_decode, K.gzip_encode

        def dec(payload):
            try:
                out = real_dec(payload)
            except Exception:
                self.gunzips.append((payload, None))
                raise
            self.gunzips.append((payload, out))
            return out

        def enc(payload):
            out = real_enc(payload)
            self.gzips.append((payload, out))
            return out

        K.gzip_decode, K.gzip_encode, K.time = dec, enc, _Time(self.now_ms)
        # int(time.time() * 1000) must give back now_ms exactly
        assert int(K.time.time() * 1000) == self.now_ms, "clock value not float-exact"
        return self

    def __exit__(self, *a):
        self.K.gzip_decode, self.K.gzip_encode, self.K.time = self.saved

    def ext_lines(self):
        lines = ["ext-clear", "ext-now i%d" % self.now_ms]
        seen = set()
        for inp, out in self.gunzips:
            if inp in seen:
                continue
            seen.add(inp)
            lines.append("ext-gunzip-err %s" % vr(inp) if out is None else "ext-gunzip %s %s" % (vr(inp), vr(out)))
        seen = set()
        for inp, out in self.gzips:
            if inp in seen:
                continue
            seen.add(inp)
            lines.append("ext-gzip %s %s" % (vr(inp), vr(out)))
        return lines


NOW_CHOICES = [1500000000123, 0, 1, 1234567890000, 2 ** 40 + 5]


# --------------------------------------------------------------------------- generators

PBAD = [0.04]  # default probability of an out-of-range int; scenario generators lower it for mostly-valid runs


def gen_int(rng, bits, signed=True, p_bad=None):
    p_bad = PBAD[0] if p_bad is None else p_bad
    lo, hi = (-(1 << (bits - 1)), (1 << (bits - 1)) - 1) if signed else (0, (1 << bits) - 1)
    r = rng.random()
    if r < p_bad:
        return rng.choice([lo - 1, hi + 1, lo - rng.randrange(1, 1 << 20), hi + rng.randrange(1, 1 << 70)])
    if r < 0.35:
        return rng.choice([lo, hi, 0, 1, -1 if signed else 2, lo + 1, hi - 1])
    if r < 0.7:
        return rng.randrange(0, 100)
    return rng.randrange(lo, hi + 1)


ASCII_POOL = ["t", "topic", "Topic-1", "a.b_c-9", "x" * 249, "x" * 250, " ", "T\x7f"]
TEXT_POOL = ["grüppe", "名前", "\U0001F600x", "é", "߿ࠀ", "a￿b", "\x00", "\U0010FFFF"]


def gen_str(rng, text=False, allow_none=True, p_big=0.02):
    """A Python str for a short-string field (or None)."""
    r = rng.random()
    if allow_none and r < 0.05:
        return None
    if r < 0.12:
        return ""
    if r < p_big + 0.12:
        return "s" * rng.choice([32767, 32768, 32766])
    if r < 0.30 or (text and r < 0.5):
        # non-ASCII: accepted by the text writers, rejected by the ASCII ones
        return rng.choice(TEXT_POOL) + rng.choice(["", "z", "ß" * rng.randrange(0, 5)])
    if r < 0.40 and text:
        # a multi-byte text whose UTF-8 length straddles the 32767 limit
        return "é" * rng.choice([16383, 16384]) + rng.choice(["", "a"])
    return rng.choice(ASCII_POOL[:5]) + str(rng.randrange(0, 4))


def gen_bytes(rng, allow_none=True, big=1 << 16, p_big=0.03):
    r = rng.random()
    if allow_none and r < 0.12:
        return None
    if r < 0.25:
        return b""
    if r < 0.25 + p_big:
        n = rng.choice([big, big - 1, 32768, 4097])
        return bytes(rng.getrandbits(8) for _ in range(64)) * (n // 64) + b"\x00" * (n % 64)
    n = rng.randrange(1, 40)
    return bytes(rng.getrandbits(8) for _ in range(n))


def gen_client_id(rng):
    return rng.choice([b"", b"afkak", b"c", "cliént".encode("utf-8"), b"\xff\x00", b"x" * 300])


def gen_corr(rng):
    return gen_int(rng, 32)


# --------------------------------------------------------------------------- batch runner

class Batch(object):
    """Collects (model request line, expected answer lines, meta) and runs them in one process."""

    def __init__(self):
        self.lines = []
        self.expect = []  # None = do not compare (state-setting or informational request)
        self.meta = []

    def add(self, line, expect=None, meta=None):
        self.lines.append(line)
        self.expect.append(expect)
        self.meta.append(meta)
        return len(self.lines) - 1

    def run(self, ctx):
        if not self.lines:
            return []
        return ctx.model("wire", self.lines)


def answer(kind, payload):
    """The answer line the model gives for a python-side outcome from `call`."""
    if kind == "error":
        return ["error " + payload]
    return ["ok " + vr(payload)]
