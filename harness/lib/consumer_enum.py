"""Bounded-exhaustive enumeration for the consumer checks (thorough tier).

Every sequence of ABSTRACT events up to a depth, for a few small configurations.  An abstract event is
resolved against the live state of the real Consumer (which request is outstanding, which timer is
pending, whether a processor result is pending), so only enabled events are expanded:
  start, stop, shutdown, commit, reqOk, reqErr, reqOOR, commitOk, commitErr, commitFatal, procOk, procErr, timer.
Support for the correspondence - never a substitute for a theorem.
"""
import multiprocessing
import os
from fractions import Fraction

from harness.lib.consumer_run import Run

BASE = {"group": True, "autoN": 0, "autoMs": 0, "buf": 100, "max": 1600, "init": "1/4", "maxd": "1", "attempts": 2, "reset": -2,
        "cancelReq": "kafka:90", "cancelCommit": "kafka:95"}
D = {"acts": [], "res": "defer"}
OK = {"acts": [], "res": "ok"}

CONFIGS = [
    ("nogroup-async", dict(BASE, group=False), [D, OK, D, OK, D, OK, D]),
    ("group-async-autoN1", dict(BASE, autoN=1), [D, D, OK, D, OK, D, OK]),
    ("group-sync-manual", dict(BASE), [OK, OK, OK, OK, OK, OK, OK]),
    ("group-reentrant", dict(BASE, autoN=1), [{"acts": ["commit"], "res": "ok"}, {"acts": ["shutdown"], "res": "ok"}, {"acts": ["stop"], "res": "defer"}, OK, OK, OK]),
    ("group-timer", dict(BASE, autoMs=250, cancelReq="-"), [OK, D, OK, D, OK, D]),
    ("group-fail-proc", dict(BASE, autoN=1, reset=None), [OK, {"acts": [], "res": "err:other:7"}, OK, D, OK, OK]),
]


def enabled(run, tag):
    """Concrete events enabled now, one per abstract event."""
    c = run.consumer
    evs = []
    running = c._start_d is not None
    evs.append("start 0" if not running else "start 4")
    evs += ["stop", "shutdown"]
    if c.consumer_group:
        evs.append("commit")
    reqs = sorted((r for r in run.client.reqs.values() if not r.done), key=lambda r: r.k)
    for r in reqs:
        if r.kind == "commit" and r.cancelled:
            evs += ["commitDone %d ok" % r.k, "commitDone %d err kafka:%d" % (r.k, tag)]
        elif r.kind == "commit":
            evs += ["commitDone %d ok" % r.k, "commitDone %d err kafka:%d" % (r.k, tag), "commitDone %d err groupFatal:%d" % (r.k, tag)]
        elif r.cancelled:
            name = {"fetch": "fetchDone", "offsets": "offsetDone", "offsetFetch": "offsetFetchDone"}[r.kind]
            evs.append("%s %d err kafka:%d" % (name, r.k, tag))
            # ... or, late, with a success (the client sent it after all)
            evs.append({"fetch": "fetchDone %d ok %d:%d end" % (r.k, r.args.get("offset", 0), tag), "offsets": "offsetDone %d ok 0" % r.k,
                        "offsetFetch": "offsetFetchDone %d ok 1" % r.k}[r.kind])
        elif r.kind == "fetch":
            o = r.args["offset"]
            evs += ["fetchDone %d ok %d:%d,%d:%d end" % (r.k, o, tag, o + 2, tag + 1), "fetchDone %d ok - small" % r.k,
                    "fetchDone %d err kafka:%d" % (r.k, tag), "fetchDone %d err outOfRange:%d" % (r.k, tag)]
        elif r.kind == "offsets":
            evs += ["offsetDone %d ok 0" % r.k, "offsetDone %d err kafka:%d" % (r.k, tag)]
        else:
            evs += ["offsetFetchDone %d ok 1" % r.k, "offsetFetchDone %d ok -1" % r.k, "offsetFetchDone %d err kafka:%d" % (r.k, tag)]
    if run.procd is not None and not run.procd.called:
        evs += ["procDone ok", "procDone err other:%d" % tag]
    for kind, name in (("retry", "retryFire"), ("commit", "commitRetryFire"), ("loop", "autoCommitTick")):
        ps = run.clock.pending(kind)
        if ps:
            if ps[0].getTime() <= run.clock.seconds():
                evs.append(name)
            else:
                need = Fraction(ps[0].getTime() - run.clock.seconds()).limit_denominator(10 ** 6)
                evs.append("advance %s" % Fraction(max((need * 16).__ceil__(), 1), 16))
    return evs


def run_prefix(cfg, script, events):
    sc = {"cfg": cfg, "script": script, "events": list(events)}
    r = Run(sc)
    r.begin()
    try:
        impl = [r.step(e) for e in events]
    finally:
        r.end()
    return sc, impl, r


def explore(cfg, script, prefix, depth, out, first_choices=None):
    sc, impl, run = run_prefix(cfg, script, prefix)
    if len(prefix) >= depth or run.crashed:
        out.append((sc, impl))
        return
    evs = enabled(run, 10 * (len(prefix) + 1))
    if first_choices is not None and not prefix:
        evs = [e for i, e in enumerate(evs) if i in first_choices]
    for e in evs:
        explore(cfg, script, prefix + [e], depth, out, None)


def _shard(args):
    """Enumerate AND check one shard in a worker process."""
    from harness import core
    from harness.lib import consumer_check as K
    from harness.lib import consumer_corr as CC

    name, cfg, script, depth, prefix, pid = args
    out = []
    explore(cfg, script, prefix, depth, out)
    for sc, _ in out:
        sc["profile"] = "enum:" + name
    r = core.Result()
    for i in range(0, len(out), 4000):
        K.check_batch(pid, out[i:i + 4000], r, CC.MONITORS[pid], do_count=False)
    return {"evaluations": r.evaluations, "distinct": list(r.distinct), "samples": [], "hist": {"enum_sequences": len(out), "profile=enum:" + name: len(out)},
            "traces": r.traces_validated, "disagreements": r.disagreements, "monitor_failures": r.monitor_failures}


def shards(depth_for):
    """Work items: one per (config, first two events)."""
    items = []
    for name, cfg, script in CONFIGS:
        depth = depth_for(name)
        sc, impl, run = run_prefix(cfg, script, [])
        for e1 in enabled(run, 10):
            sc2, impl2, run2 = run_prefix(cfg, script, [e1])
            for e2 in enabled(run2, 20):
                items.append((name, cfg, script, depth, [e1, e2], None))
    return items


def run(ctx, res, pid, names):
    from harness.lib import consumer_check as K

    depth_for = lambda name: 6 if name in ("group-timer", "group-reentrant") else 7  # noqa: E731
    items = [it[:5] + (pid,) for it in shards(depth_for)]
    workers = min(16, os.cpu_count() or 4)
    total = 0
    with multiprocessing.get_context("fork").Pool(workers) as pool:
        for part in pool.imap_unordered(_shard, items, chunksize=1):
            total += part["hist"]["enum_sequences"]
            K.merge(res, part)
    res.extra["bounded_exhaustive"] = {"sequences": total, "configs": [c[0] for c in CONFIGS], "depth": "7 (6 for the timer and re-entrant configurations)"}
