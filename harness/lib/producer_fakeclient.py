"""Scripted environment for the real `afkak.producer.Producer`: a FAKE client implementing exactly the
interface the Producer uses, whose Deferreds the scenario completes with any `ClientIface` result kind
at any time, and whose CANCEL outcomes are the ones the REAL `KafkaClient` yields
(harness/lib/client_iface.md) - not what `unittest.mock` clients do.

Interface used by `Producer` (afkak/producer.py): `reactor` (callLater/seconds), `_api_versions`,
`metadata_error_for_topic`, `load_metadata_for_topics`, `topic_partitions`, `send_produce_request`,
`reset_topic_metadata`.

Every call into the fake and every timer operation is appended to `log` (a list of tuples), which
is the observation stream of the scenario driver (`producer_drive.py`).
"""
import gzip
import struct

from twisted.internet import defer
from twisted.internet.base import DelayedCall
from twisted.internet.task import Clock, LoopingCall
from twisted.python.failure import Failure

_CONTINUE = object()


class RecClock(Clock):
    """`twisted.internet.task.Clock` that numbers the timers it is asked for (LoopingCall's own
    timer is labelled 'L' and not numbered), logs set/cancel/fire, and lets a hook run between the
    calls one `advance` fires (same firing rule as Clock.advance: all calls due at the NEW time, in
    (time, insertion) order, re-sorted after each)."""

    def __init__(self, log):
        Clock.__init__(self)
        self.log = log
        self.next_tid = 0
        self.after_call = None

    def callLater(self, delay, callable, *args, **kw):
        if isinstance(callable, LoopingCall):
            tid = "L"
        else:
            tid = self.next_tid
            self.next_tid += 1
        self.log.append(("settimer", tid, delay))

        def cancelled(dc):
            self.log.append(("canceltimer", tid))
            self.calls.remove(dc)

        dc = DelayedCall(self.seconds() + delay, callable, args, kw, cancelled, lambda c: None, self.seconds)
        dc._verif_tid = tid
        self.calls.append(dc)
        self._sortCalls()
        return dc

    def advance(self, amount):
        self.rightNow += amount
        self._sortCalls()
        while self.calls and self.calls[0].getTime() <= self.seconds():
            call = self.calls.pop(0)
            call.called = 1
            self.log.append(("timerfired", call._verif_tid))
            call.func(*call.args, **call.kw)
            self._sortCalls()
            if self.after_call is not None:
                self.after_call()


class Pending(object):
    def __init__(self, rid, kind, args):
        self.rid, self.kind, self.args = rid, kind, args
        self.inner = None
        self.done = False


class FakeClient(object):
    def __init__(self, log, api_versions=0):
        self.log = log
        self.reactor = RecClock(log)
        self._api_versions = api_versions
        self.topic_errors = {}
        self.topic_partitions = {}
        self.pending = {}
        self.next_rid = 0
        # rid -> outcome, consulted by the cancellers: ("pending",) | ("fire", value) | ("fail", exc)
        self.cancel_outcomes = {}
        self.wipe_on_cancel = False
        # SYNCHRONOUS answers: modes for the next produce requests, each answered BEFORE send_produce_request returns
        # (the real client does that with acks=0 on a connected leader, after close(), and whenever it can tell
        # the outcome from what it has cached).  `sync_answer(p, mode) -> ("fire", value) | ("fail", exc)` and
        # `on_sync_attach(rid)` are set by the driver: the latter runs when the Producer attaches its handlers to
        # the already fired Deferred - the moment it starts to handle the answer.
        self.sync_queue = []
        self.sync_answer = None
        self.on_sync_attach = None

    # ---- the metadata cache, as the real client keeps it
    def metadata_error_for_topic(self, topic):
        return self.topic_errors.get(topic, 3)

    def reset_topic_metadata(self, *topics):
        self.log.append(("resetmeta", tuple(sorted(topics))))
        for t in topics:
            self.topic_partitions.pop(t, None)
            self.topic_errors.pop(t, None)

    def reset_all_metadata(self):
        self.topic_partitions.clear()
        self.topic_errors.clear()

    def set_meta(self, topic, err, parts):
        """What `_merge_topic_metadata` leaves for one topic (parts None: no partitions listed)."""
        self.topic_partitions.pop(topic, None)
        self.topic_errors[topic] = err
        if parts is not None:
            self.topic_partitions[topic] = list(parts)  # always a NEW list object, like the real client

    # ---- requests
    def _new(self, kind, args):
        rid = self.next_rid
        self.next_rid += 1
        p = self.pending[rid] = Pending(rid, kind, args)
        return p

    @defer.inlineCallbacks
    def _wait(self, p):
        """The Deferred handed to the Producer is an inlineCallbacks one (like the real client's):
        cancelling it cancels `inner`, and what the canceller does with `inner` decides the outcome;
        `_CONTINUE` models 'the cancel was eaten, the operation goes on' (bootstrapping)."""
        while True:
            p.inner = defer.Deferred(lambda d: self._on_cancel(p, d))
            r = yield p.inner
            if r is _CONTINUE:
                continue
            p.done = True
            return r

    def _on_cancel(self, p, d):
        self.log.append(("cancelreq", p.rid))
        out = self.cancel_outcomes.get(p.rid, ("pending",))
        if out[0] == "pending":
            d.callback(_CONTINUE)
        elif out[0] == "fire":
            if self.wipe_on_cancel and p.kind == "produce":
                self.reset_all_metadata()
            d.callback(out[1])
        else:
            if self.wipe_on_cancel and p.kind == "produce":
                self.reset_all_metadata()
            d.errback(Failure(out[1]))

    def load_metadata_for_topics(self, *topics):
        p = self._new("meta", topics)
        self.log.append(("loadmeta", p.rid, topics))
        return self._wait(p).addErrback(self._done_eb, p)

    def send_produce_request(self, payloads=None, acks=1, timeout=1000, fail_on_error=True, callback=None):
        p = self._new("produce", list(payloads))
        self.log.append(("produce", p.rid, list(payloads), acks, timeout, fail_on_error))
        if self.sync_queue and self.sync_answer is not None:
            return self._answered(p, self.sync_queue.pop(0))
        return self._wait(p).addErrback(self._done_eb, p)

    def _answered(self, p, mode):
        """a Deferred that has fired already; the driver is told when the Producer starts handling it"""
        how, value = self.sync_answer(p, mode)
        p.done = True
        d = defer.succeed(value) if how == "fire" else defer.fail(Failure(value))
        names = ("addCallbacks", "addCallback", "addErrback", "addBoth")
        origs = {n: getattr(d, n) for n in names}

        def hook(name):
            def add(*a, **k):
                if "addBoth" in d.__dict__:
                    for n in names:
                        del d.__dict__[n]
                    if self.on_sync_attach is not None:
                        self.on_sync_attach(p.rid)
                return origs[name](*a, **k)
            return add

        for n in names:
            setattr(d, n, hook(n))
        return d

    @staticmethod
    def _done_eb(f, p):
        p.done = True
        return f

    # ---- the scenario's side
    def fire(self, rid, value):
        p = self.pending[rid]
        assert not p.done
        p.inner.callback(value)

    def fail(self, rid, exc):
        p = self.pending[rid]
        assert not p.done
        p.inner.errback(Failure(exc))

    def is_pending(self, rid):
        return rid in self.pending and not self.pending[rid].done


# ---- decoding what the Producer put into a ProduceRequest (independent of afkak's encoder)
def _parse_message_set(data):
    out, i = [], 0
    while i < len(data):
        _off, size = struct.unpack(">qi", data[i:i + 12])
        m = data[i + 12:i + 12 + size]
        i += 12 + size
        magic, attrs = m[4], m[5]
        j = 6 + (8 if magic == 1 else 0)
        (kl,) = struct.unpack(">i", m[j:j + 4]); j += 4
        key = None if kl < 0 else m[j:j + kl]; j += max(kl, 0)
        (vl,) = struct.unpack(">i", m[j:j + 4]); j += 4
        val = None if vl < 0 else m[j:j + vl]
        out.append((magic, attrs, key, val))
    return out


def payload_messages(payload):
    """[(key, value)] of the messages a ProduceRequest payload will put on the wire, in order
    (a gzip wrapper is opened)."""
    out = []
    for m in payload.messages:
        if m.attributes & 3 == 0:
            out.append((m.key, m.value))
        elif m.attributes & 3 == 1:
            for (_mg, _at, k, v) in _parse_message_set(gzip.decompress(m.value)):
                out.append((k, v))
        else:
            raise ValueError("unexpected codec in payload")
    return out
