"""Full-stack stage of the producer properties: the REAL Producer over the REAL KafkaClient over real
broker clients over the simulated cluster (harness/sim/cluster.py).  The brokers' applied-produce log
(`cluster.log`, partition logs) is the ground truth:

  C01  a send Deferred that succeeds names a topic/partition whose log holds exactly the send's
       messages (key, values, order) at the acknowledged offset, appended by a produce request that
       was answered without error before the Deferred fired; `None` only with acks=0 and after a
       request carrying the messages reached a broker; never an exception object as value.
  C09  in every produce request each partition's messages are whole sends in submission order;
       acknowledged sends of one partition have increasing offsets in submission order; once a send
       has been reported acknowledged no later produce request carries its messages.
  C19  no Produce request reaches a broker after `stop()`; every send outstanding at `stop()` has fired
       when it returns, with a CancelledError (or truthfully acknowledged).

A script (JSON, also the replay format):
  {"fullstack": true, "seed": n, "cluster": {"brokers": k, "topics": {"t0": p, ...}},
   "client": {"timeout": ms}, "producer": {Producer kwargs, partitioner: "rr"|"hashed"},
   "steps": [{"at": t, "do": "send", "sid": i, "topic": "t0", "key": hex|null, "sizes": [n|null..]} |
             {"at": t, "do": "cancel", "sid": i} | {"at": t, "do": "stop"} |
             {"at": t, "do": "inject", ...cluster.inject kwargs} | {"at": t, "do": "move_leader", ...} |
             {"at": t, "do": "kill_broker", "node_id": n} | {"at": t, "do": "start_broker", "node_id": n}],
   "until": T}
"""
import json
import warnings

from harness.lib.producer_drive import msg_value

TOPICS = ["t0", "t1"]


def gen_script(rng, pid):
    brokers = rng.choice([1, 2, 3, 3])
    topics = {"t0": rng.choice([1, 2, 3]), "t1": rng.choice([1, 2])}
    batch = rng.random() < (0.7 if pid == "C19" else 0.4)
    prod = {
        "req_acks": rng.choice([1, 1, -1, 0]),
        "max_req_attempts": rng.choice([1, 2, 3, 5, 10]),
        "retry_interval": rng.choice([0.25, 0.25, 0.5, 0.125]),
        "batch_send": batch,
        "batch_every_n": rng.choice([2, 3, 5, 10, 0]) if batch else 10,
        "batch_every_b": rng.choice([0, 100, 32768]) if batch else 32768,
        "batch_every_t": rng.choice([None, 0.5, 1, 2]) if batch else 30,
        "codec": rng.choice([None, None, 1]),
        "partitioner": "hashed" if rng.random() < 0.25 else "rr",
    }
    steps = []
    t = 0.0
    nsend = rng.choice([2, 4, 6, 10])
    keys = [None, "6b", "6b32", "00ff10"]
    sid = 0
    fault_style = rng.choice(["none", "errors", "errors", "persist", "transport", "leader", "mixed"])
    nf = 0 if fault_style == "none" else rng.choice([1, 2, 3])
    for _ in range(nf):
        ft = round(rng.random() * 3, 3)
        topic = rng.choice(TOPICS)
        part = rng.randrange(topics[topic])
        style = fault_style if fault_style != "mixed" else rng.choice(["errors", "persist", "transport", "leader"])
        if style == "errors":
            steps.append({"at": ft, "do": "inject", "action": "error", "api": "Produce", "topic": topic, "partition": part,
                          "code": rng.choice([6, 3, 7, 19, 5, 2, 10]), "times": rng.choice([1, 1, 2, 3])})
        elif style == "persist":
            steps.append({"at": ft, "do": "inject", "action": "error", "api": "Produce", "topic": topic, "partition": part,
                          "code": rng.choice([6, 19, 7, 10]), "times": None})
        elif style == "transport":
            act = rng.choice(["drop_before", "drop_after", "silent", "delay", "unreachable", "unreachable"])
            if act == "unreachable":
                node = rng.randrange(1, brokers + 1)
                steps.append({"at": ft, "do": "set", "broker": node, "attr": "mode", "value": rng.choice(["blackhole", "refuse"])})
                if rng.random() < 0.5:
                    steps.append({"at": ft + rng.choice([1, 4, 15]), "do": "set", "broker": node, "attr": "mode", "value": "accept"})
            else:
                st = {"at": ft, "do": "inject", "action": act, "api": "Produce", "topic": topic, "times": rng.choice([1, 1, 2])}
                if act == "delay":
                    st["seconds"] = rng.choice([0.5, 2, 20])
                steps.append(st)
        else:
            if brokers > 1:
                if rng.random() < 0.5:
                    steps.append({"at": ft, "do": "move_leader", "topic": topic, "partition": part, "new": rng.randrange(1, brokers + 1),
                                  "old": rng.choice(["not_leader", "unknown", "down"])})
                else:
                    node = rng.randrange(1, brokers + 1)
                    steps.append({"at": ft, "do": "kill_broker", "node_id": node})
                    if rng.random() < 0.7:
                        steps.append({"at": ft + rng.choice([0.5, 2, 8]), "do": "start_broker", "node_id": node})
    for _ in range(nsend):
        t = round(t + rng.choice([0, 0, 0.01, 0.1, 0.3, 1.0]), 3)
        sizes = [rng.choice([None, 0, 3, 12, 12, 30, 30, 200, 5000]) for _ in range(rng.choice([1, 1, 2, 3]))]
        key = None if prod["partitioner"] == "rr" and rng.random() < 0.6 else rng.choice(keys[1:] if prod["partitioner"] == "hashed" else keys)
        steps.append({"at": t, "do": "send", "sid": sid, "topic": rng.choice(TOPICS), "key": key, "sizes": sizes})
        if rng.random() < (0.15 if pid == "C19" else 0.05):
            steps.append({"at": round(t + rng.choice([0, 0.05, 0.5]), 3), "do": "cancel", "sid": sid})
        sid += 1
    if rng.random() < (0.6 if pid == "C19" else 0.3):
        steps.append({"at": round(rng.random() * (t + 1.5), 3), "do": "stop"})
    return {"fullstack": True, "seed": rng.randrange(1 << 30), "cluster": {"brokers": brokers, "topics": topics},
            "client": {"timeout": rng.choice([2000, 5000, 10000])}, "producer": prod, "steps": steps, "until": 200.0}


class FSRun(object):
    def __init__(self, script):
        self.script = script
        self.sends = {}  # sid -> dict(topic, key, values, t, d)
        self.outcomes = {}  # sid -> [ (t, n, ok, canon result) ]
        self.stop_t = None
        self.stop_n = None
        self.outstanding_at_stop = None
        self.error = None
        self.cluster = None
        self.lost = []
        self.tracer = None


def run_script(script, trace=False):
    """trace=True: the Producer talks to the real client through the recording proxy of producer_fstrace
    (r.tracer holds the boundary trace in the model's line protocol)"""
    from harness.sim import fullstack as F
    from harness.sim.cluster import Livelock

    import afkak
    from afkak.partitioner import HashedPartitioner, RoundRobinPartitioner

    r = FSRun(script)
    cluster = F.build_cluster(script["cluster"], script["seed"])
    r.cluster = cluster
    rec = F.Recorder(cluster)
    steps = sorted(enumerate(script["steps"]), key=lambda x: (x[1]["at"], x[0]))
    with warnings.catch_warnings(), F.Determinism(cluster, script["seed"]):
        warnings.simplefilter("ignore")
        try:
            client = F.make_client(cluster, **script.get("client", {}))
            kw = dict(script["producer"])
            part = kw.pop("partitioner", "rr")
            kw["partitioner_class"] = HashedPartitioner if part == "hashed" else RoundRobinPartitioner
            if trace:
                from harness.lib import producer_fstrace as T

                r.tracer = T.Tracer(T.cfg_of(script["producer"]), client, kw, TOPICS)
                producer = r.tracer.producer
            else:
                r.tracer = None
                producer = afkak.Producer(client, **kw)
            for _i, st in steps:
                if st["at"] > cluster.clock.seconds():
                    cluster.advance(st["at"] - cluster.clock.seconds())
                do = st["do"]
                if do == "send":
                    sid = st["sid"]
                    key = None if st["key"] is None else bytes.fromhex(st["key"])
                    vals = [msg_value(sid, i, s) for i, s in enumerate(st["sizes"])]
                    if r.tracer is not None:
                        d = r.tracer.send(sid, st["topic"], key, st["sizes"], vals)
                    else:
                        d = producer.send_messages(st["topic"], key=key, msgs=vals)
                    r.sends[sid] = dict(topic=st["topic"], key=key, values=vals, t=cluster.clock.seconds(), d=d)
                    r.outcomes[sid] = []

                    def done(res, sid=sid):
                        from twisted.python.failure import Failure

                        cluster._seq += 1
                        r.outcomes[sid].append((cluster.clock.seconds(), cluster._seq, not isinstance(res, Failure), F.canon(res)))
                        return None

                    d.addBoth(done)
                elif do == "cancel":
                    if st["sid"] in r.sends:
                        if r.tracer is not None:
                            r.tracer.cancel(st["sid"])
                        else:
                            r.sends[st["sid"]]["d"].cancel()
                elif do == "stop":
                    r.outstanding_at_stop = [s for s, o in r.outcomes.items() if not o]
                    r.stop_t = cluster.clock.seconds()
                    cluster._seq += 1
                    r.stop_n = cluster._seq
                    if r.tracer is not None:
                        r.tracer.stop()
                    else:
                        producer.stop()
                    cluster._seq += 1
                    r.stop_done_n = cluster._seq
                elif do == "inject":
                    kw2 = {k: v for k, v in st.items() if k not in ("at", "do")}
                    cluster.inject(kw2.pop("action"), **kw2)
                elif do == "set":
                    setattr(cluster.brokers[st["broker"]], st["attr"], st["value"])
                elif do in ("move_leader", "kill_broker", "start_broker"):
                    kw2 = {k: v for k, v in st.items() if k not in ("at", "do")}
                    getattr(cluster, do)(**kw2)
                else:
                    raise ValueError(do)
                cluster.settle()
            cluster.run_until_idle(timeout=max(0.0, script.get("until", 200.0) - cluster.clock.seconds()))
            r.quiet = cluster.next_timer() is None
            if r.tracer is not None:
                r.tracer.finish()
            # sends that were dispatched (not queued any more), never fired, while no batch is in flight
            queued = set(id(q.deferred) for q in producer._batch_reqs)
            r.lost = [sid for sid, sd in r.sends.items() if not r.outcomes[sid] and id(sd["d"]) not in queued] \
                if producer._batch_send_d is None else []
            if producer._sendLooper is not None and r.stop_t is None:
                # the periodic timer never lets the reactor go idle: stop the producer to finish
                r.final_stop = True
        except Livelock as e:
            r.error = "livelock: %s" % e
    r.producer_cfg = script["producer"]
    r.transport_faults = any(st["do"] in ("kill_broker", "move_leader") or st.get("action") in ("drop_before", "drop_after", "silent", "delay") for st in script["steps"])
    return r


def _contains(hay, needle):
    n = len(needle)
    return any(hay[i:i + n] == needle for i in range(len(hay) - n + 1))


def segment(r, want, topic, msgs, must=None):
    """split a partition's message list into whole sends in submission order -> {sid: start index} | None.
    Sends with identical content cannot be told apart: with `must`, look for a split that contains it."""
    cands = [sid for sid in sorted(want) if r.sends[sid]["topic"] == topic]

    def seg(i, last):
        if i == len(msgs):
            return [{}]
        out = []
        for sid in cands:
            w = want[sid]
            if sid > last and msgs[i:i + len(w)] == w:
                for rest in seg(i + len(w), sid):
                    d = dict(rest)
                    d[sid] = i
                    out.append(d)
                    if must is None or must in d:
                        return [d]
        return out[:4]

    res = seg(0, -1)
    if must is not None:
        res = [d for d in res if must in d] or res
    return res[0] if res else None


def produce_requests(cluster):
    """[(entry, [(topic, partition, [(key, value)])])] for every Produce request that reached a broker"""
    from harness.sim import refcodec as R

    out = []
    for e in cluster.requests(api="Produce"):
        parts = []
        body = e.get("request") or {}
        for t in body.get("topics", []):
            for pd in t["partitions"]:
                msgs = pd.get("messages") or []
                try:
                    flat = R.expand_message_set(msgs)
                except Exception:
                    flat = msgs
                parts.append((t["topic"], pd["partition"], [(m["key"], m["value"]) for m in flat]))
        out.append((e, parts))
    return out


def check(r, pid):
    """Ground-truth monitors.  -> list of {"what", "tags"}"""
    fails = []

    def bad(tag, what):
        fails.append({"what": what, "tags": ["fullstack:" + tag]})

    if r.error:
        bad("livelock", r.error)
        return fails
    cluster = r.cluster
    acks = r.producer_cfg["req_acks"]
    reqs = produce_requests(cluster)
    want = {sid: [(s["key"], v) for v in s["values"]] for sid, s in r.sends.items()}
    acked = {}  # sid -> (topic, partition, offset, t, n)
    for sid, outs in sorted(r.outcomes.items()):
        if len(outs) > 1:
            bad("fired-twice", "send %d fired %d times: %r" % (sid, len(outs), outs))
        if not outs:
            continue
        t, n, ok, res = outs[0]
        if not ok:
            continue
        s = r.sends[sid]
        if isinstance(res, (tuple, list)) and res and res[0] == "exc-object":
            bad("success-with-exception", "send %d SUCCEEDED with an exception object %r" % (sid, res))
            continue
        if res is None:
            if acks != 0:
                bad("none-with-acks", "send %d succeeded with None but req_acks=%r" % (sid, acks))
            elif not r.transport_faults and not any(p[0] == s["topic"] and _contains(p[2], want[sid]) for e, parts in reqs for p in parts):
                # (the Deferred fires when the request is handed to the connection; it reaches the broker when bytes move)
                bad("acks0-not-sent", "send %d succeeded (acks=0) but no produce request carrying its messages ever reached a broker" % sid)
            continue
        if not (isinstance(res, (tuple, list)) and res[0] == "ProduceResponse"):
            bad("odd-success-value", "send %d succeeded with %r" % (sid, res))
            continue
        _, topic, partition, error, offset = res[:5]
        if error != 0 or topic != s["topic"]:
            bad("success-with-error", "send %d succeeded with %r (its topic: %s)" % (sid, res, s["topic"]))
            continue
        # the acknowledging request: applied append at that base offset, answered before the Deferred fired
        found = None
        for e, parts in reqs:
            if e["n"] > n or e.get("fate") not in ("answered",):
                continue
            for a in e.get("applied", []):
                if a.get("op") == "append" and a["topic"] == topic and a["partition"] == partition and a["error"] == 0 \
                        and a["base_offset"] == offset:
                    kv = [(k, v) for (_o, k, v) in a["messages"]]
                    seg = segment(r, want, topic, kv, must=sid)
                    if seg is not None and sid in seg:
                        found = a["messages"][seg[sid]][0]  # absolute offset of the send's first message
        if found is None:
            bad("success-not-acked", "send %d succeeded with %r but no answered produce request appended its messages at that offset" % (sid, res))
        else:
            log = [(k, v) for (_o, k, v, _ts, _m) in cluster.log_of(topic, partition).messages()]
            if not _contains(log, want[sid]):
                bad("success-not-in-log", "send %d acknowledged but its messages are not in the log of %s/%d" % (sid, topic, partition))
            acked[sid] = (topic, partition, found, t, n)
    for sid in r.lost:
        bad("never-fired", "send %d was dispatched, no batch is in flight any more, and its Deferred never fired" % sid)
    if pid in ("C09", "C01"):
        # submission order inside every request; whole sends only
        for e, parts in reqs:
            for topic, part, msgs in parts:
                if segment(r, want, topic, msgs) is None:
                    bad("payload-not-whole-sends-in-order", "produce request n=%d %s/%d: its messages are not whole sends in submission order" % (e["n"], topic, part))
        by_tp = {}
        for sid, (topic, part, off, t, n) in acked.items():
            by_tp.setdefault((topic, part), []).append((sid, off))
        for tp, l in by_tp.items():
            l.sort()
            for (a, oa), (b, ob) in zip(l, l[1:]):
                if not oa < ob:
                    bad("acked-out-of-order", "%s/%d: send %d acknowledged at offset %d, later send %d at %d" % (tp[0], tp[1], a, oa, b, ob))
        for sid, (topic, part, off, t, n) in acked.items():
            first = want[sid][0]
            for e, parts in reqs:
                if e["n"] > n and any(p[0] == topic and first in p[2] for p in parts) and want[sid][0][1] not in (None, b""):
                    bad("acked-resent", "send %d was reported acknowledged, yet a later produce request (n=%d) carries its messages again" % (sid, e["n"]))
                    break
    if r.stop_t is not None:
        for e, parts in reqs:
            if e["n"] > r.stop_n:
                bad("produce-after-stop", "a Produce request reached broker %s at t=%s, after stop() at t=%s" % (e["broker"], e["t"], r.stop_t))
                break
        for sid in r.outstanding_at_stop or []:
            outs = r.outcomes[sid]
            if not outs or outs[0][1] > r.stop_done_n:
                bad("stop-left-outstanding", "send %d was outstanding at stop() and had not fired when stop() returned" % sid)
            elif not outs[0][2]:
                res = outs[0][3]
                if not (isinstance(res, (tuple, list)) and res[1] == "CancelledError"):
                    bad("stop-non-cancel-error", "send %d outstanding at stop() failed with %r, not a cancellation error" % (sid, res))
    return fails


def summarize(r, hist):
    for sid, outs in r.outcomes.items():
        if not outs:
            hist["fs:send-unresolved"] += 1
        else:
            res = outs[0][3]
            hist["fs:send-" + ("ok" if outs[0][2] else "fail:" + str(res[1] if isinstance(res, (tuple, list)) else res))] += 1
    hist["fs:produce-requests"] += len(r.cluster.requests(api="Produce"))
    hist["fs:stop"] += 1 if r.stop_t is not None else 0
    for st in r.script["steps"]:
        if st["do"] not in ("send",):
            hist["fs:step-" + st["do"] + (":" + st.get("action", "") if st["do"] == "inject" else "")] += 1


def stage(ctx, res, pid):
    import collections
    import random

    n = ctx.scale(200, 6000)
    rng = random.Random(ctx.rng.randrange(1 << 30))
    hist = collections.Counter()
    t_bad = 0
    traced = []
    for i in range(n):
        script = gen_script(rng, pid)
        try:
            r = run_script(script, trace=True)
        except Exception as e:  # a crash of the stack under a scenario is itself a finding to look at
            res.monitor_failures.append({"what": "full-stack run crashed: %r" % (e,), "scenario": script, "tags": ["fullstack:crash"]})
            continue
        if r.tracer is not None and not r.error:
            if r.tracer.skipped:
                hist["fs:trace-not-replayed:" + r.tracer.skipped.split("(")[0].strip()[:50]] += 1
            else:
                traced.append((script, r.tracer))
        res.evaluations += 1
        res.traces_validated += 1
        summarize(r, hist)
        fails = check(r, pid)
        if any(len(o) for o in r.outcomes.values()) and r.cluster.requests(api="Produce"):
            res.nontrivial(script)
        for f in fails[:2]:
            t_bad += 1
            if t_bad <= 3:
                f["scenario"] = script
                res.monitor_failures.append(f)
    t_bad += validate_traces(res, pid, traced, hist, t_bad)
    for k, v in hist.items():
        res.count(k, v)
    res.count("fullstack-runs", n)


def validate_traces(res, pid, traced, hist, shown=0):
    """Trace validation: replay the Producer/KafkaClient boundary traces of the full-stack runs to the model
    (same diff as the scripted correspondence) and evaluate the property's monitors on them.  The looping
    call's schedule is not checked here: the cluster clock's float times are not on the model's exact grid."""
    from harness.lib import producer_check as K

    if not traced:
        return 0
    mons = [m for m in K.MONITORS[pid] if m != "c19-schedule"]
    bad = 0
    for script, tr, d, failed in K.evaluate(pid, traced, monitors=mons):
        hist["fs:traces-replayed"] += 1
        hist["fs:trace-steps"] += len(tr.steps)
        res.evaluations += 1
        if d is not None:
            i, want, got = d
            bad += 1
            if shown + bad <= 3:
                res.disagreements.append({
                    "component": "producer-fullstack", "step": i,
                    "what": "full stack: the real Producer over the real KafkaClient and the model disagree at boundary step %d (%s)" % (i, tr.steps[i][0]),
                    "scenario": script, "impl": want, "model": got,
                    "impl_trace": [[s[0]] + s[1] + [s[2]] for s in tr.steps[:i + 1]],
                    "tags": ["fullstack-trace:disagree"]})
            continue
        for m in failed:
            bad += 1
            if shown + bad <= 3:
                res.monitor_failures.append({
                    "monitor": m, "what": "full stack boundary trace: " + K.WHAT.get(m, m), "scenario": script,
                    "impl_trace": [[s[0]] + s[1] + [s[2]] for s in tr.steps],
                    "tags": ["fullstack-trace:" + m]})
    return bad


def replay(ctx, script, pid):
    r = run_script(script, trace=True)
    print("full-stack replay; producer config:", json.dumps(script["producer"]))
    for sid, outs in sorted(r.outcomes.items()):
        print("  send %d (%s key=%r): %s" % (sid, r.sends[sid]["topic"], r.sends[sid]["key"], outs or "UNRESOLVED"))
    for e, parts in produce_requests(r.cluster):
        print("  produce n=%d t=%s broker=%s fate=%s: %s" % (e["n"], e["t"], e["broker"], e.get("fate"),
              [(t, p, len(m)) for t, p, m in parts]))
    fails = check(r, pid)
    if r.tracer is not None and not r.error:
        if r.tracer.skipped:
            print("  boundary trace not replayed to the model:", r.tracer.skipped)
        else:
            from harness.lib import producer_check as K

            mons = [m for m in K.MONITORS[pid] if m != "c19-schedule"]
            _s, tr, d, failed = K.evaluate(pid, [(script, r.tracer)], monitors=mons)[0]
            print("  boundary trace: %d steps replayed to the model" % len(tr.steps))
            if d is not None:
                i, want, got = d
                for st in tr.steps[max(0, i - 8):i]:
                    print("    ", st[0], "|", "; ".join(st[1]), "|", st[2])
                print("  MODEL AND IMPLEMENTATION DISAGREE at boundary step %d: %s" % (i, tr.steps[i][0]))
                print("    impl :", want)
                print("    model:", got)
                fails.append({"what": "boundary trace: model and implementation disagree at step %d" % i, "tags": ["fullstack-trace:disagree"]})
            for m in failed:
                fails.append({"what": "boundary trace: " + K.WHAT.get(m, m), "tags": ["fullstack-trace:" + m]})
    for f in fails:
        print("  FAIL:", f["what"])
    if fails:
        print("VIOLATION property=%s replay=(this file)" % pid)
        return 1
    return 0
