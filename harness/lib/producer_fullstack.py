"""Full-stack stage of the producer properties: the REAL Producer over the REAL KafkaClient over real
broker clients over the simulated cluster (harness/sim/cluster.py).  The brokers' applied-produce log
(`cluster.log`, partition logs) is the ground truth:

  C01  a send Deferred that succeeds names a topic/partition whose log holds exactly the send's
       messages (key, values, order) at the acknowledged offset, appended by a produce request that
       was answered without error before the Deferred fired; `None` only with acks=0 and after a
       request carrying the messages reached a broker; never an exception object as value.
  C09  in every produce request each partition's messages are whole sends in submission order;
       acknowledged sends of one partition have increasing offsets in submission order; once a send
       has been reported acknowledged no later produce request carries its messages.
  C01/C09  at-least-once and no more: a send's messages are appended to a log a SECOND time only when the
       acknowledgement of the earlier append did not reach the client (answer swallowed / connection cut / answer
       later than the client's time-out / error code reported after the append) - `unexcused_duplicates`.
  C19  no Produce request reaches a broker after `stop()`; every send outstanding at `stop()` has fired
       when it returns, with a CancelledError (or truthfully acknowledged).

A script (JSON, also the replay format):
  {"fullstack": true, "seed": n, "cluster": {"brokers": k, "topics": {"t0": p, ...}},
   "client": {"timeout": ms}, "producer": {Producer kwargs, partitioner: "rr"|"hashed"},
   "steps": [{"at": t, "do": "send", "sid": i, "topic": "t0", "key": hex|null, "sizes": [n|null..]} |
             {"at": t, "do": "cancel", "sid": i} | {"at": t, "do": "stop"} |
             {"at": t, "do": "inject", ...cluster.inject kwargs} | {"at": t, "do": "move_leader", ...} |
             {"at": t, "do": "kill_broker", "node_id": n} | {"at": t, "do": "start_broker", "node_id": n} |
             {"at": t, "do": "restart_broker", "node_id": n[, "host": h, "port": p]}   (a new address: only metadata names it) |
             {"at": t, "do": "shift_leader", "topic": "t0", "partition": p|null, "by": k|null (no leader), "old": "not_leader"|"unknown"} |
             {"at": t, "do": "set", "broker": n, "attr": a, "value": v} | {"at": t, "do": "heal_silence", "node_id": n}],
   "until": T}
A step with "settle": false is followed by the next step BEFORE any byte moves (a request written by the client has not
reached its broker yet).  "client" may carry "disconnect_on_timeout".

Situations measured where they really occurred (`situations`, histogram keys fs:...): a produce attempt refused by a
former leader and the send then acknowledged by another broker (with the batch in flight / the request on the wire when
leadership moved); a broker restarted at a new address, connections accepted and produce requests acknowledged there;
ApiVersions requests left unanswered and how the run ended (fallback to v0, produce v0 requests); produce responses
with mixed per-partition outcomes (by error code); produce answers delivered after the client's time-out; sends
appended more than once (by what became of the first acknowledgement).
"""
import json
import warnings

from harness.lib.producer_drive import msg_value

TOPICS = ["t0", "t1"]
CONNECT_TIMEOUT = 30.0


def batch_bound(script):
    """virtual seconds within which a batch in flight must have resolved (generous: 3x what the parts add up to)"""
    prod = script["producer"]
    timeout = script.get("client", {}).get("timeout", 10000) / 1000.0
    attempts = max(1, prod["max_req_attempts"])
    # per attempt: the request (<= timeout) + metadata look-ups around it (each <= one connection attempt + timeout
    # per bootstrap host tried); retry delays: interval * 1.20205^k
    delays = sum(prod["retry_interval"] * 1.20205 ** k for k in range(attempts))
    hosts = script["cluster"]["brokers"] if isinstance(script["cluster"]["brokers"], int) else len(script["cluster"]["brokers"])
    faults = sum(st.get("seconds", 0) for st in script["steps"] if st.get("action") == "delay")
    # version discovery inside the first request: up to 3 rounds over every host (each <= one connection attempt + timeout)
    discovery = 3 * hosts * (timeout + CONNECT_TIMEOUT) if any(
        st.get("api") == "ApiVersions" or st.get("attr") in ("api_versions", "old_broker_mode") for st in script["steps"]) else 0
    return 3 * (attempts * (timeout + hosts * (timeout + CONNECT_TIMEOUT)) + delays + faults + discovery) + 10




def gen_script(rng, pid):
    """shape "classic": any topology, faults addressed by topic/partition.  shape "multibroker": >= 2 brokers, a
    topic with >= 2 partitions (so one batch has payloads for several leaders), batching that merges several sends
    into one request, bursts of sends at one instant, and faults addressed to ONE BROKER (its Produce requests
    swallowed / answered late / connection dropped; the whole broker hung; the broker cut off - connections dropped
    and new ones refused or never completing): a request of the client then fails for one broker's payloads while
    the others' are answered."""
    shape = rng.choice(["classic", "classic", "multibroker", "multibroker", "multibroker", "wide"])
    wide = shape == "wide"
    if wide:
        # few brokers, many partitions, batching: ONE broker request carries several partitions, so that one
        # response can answer some of them with error 0 and others with an error code (partial-batch errors)
        shape = "multibroker"
        brokers = rng.choice([1, 2, 2])
        topics = {"t0": rng.choice([3, 4, 5]), "t1": rng.choice([2, 3])}
        batch = True
    elif shape == "multibroker":
        brokers = rng.choice([2, 3, 3])
        topics = {"t0": rng.choice([2, 3, 3, 4]), "t1": rng.choice([1, 2, 3])}
        batch = rng.random() < 0.8
    else:
        brokers = rng.choice([1, 2, 3, 3])
        topics = {"t0": rng.choice([1, 2, 3]), "t1": rng.choice([1, 2])}
        batch = rng.random() < (0.7 if pid == "C19" else 0.4)
    prod = {
        "req_acks": rng.choice([1, 1, -1, 0]),
        "max_req_attempts": rng.choice([1, 2, 3, 5, 10]),
        "retry_interval": rng.choice([0.25, 0.25, 0.5, 0.125]),
        "batch_send": batch,
        "batch_every_n": (rng.choice([2, 2, 3, 4]) if shape == "multibroker" else rng.choice([2, 3, 5, 10, 0])) if batch else 10,
        "batch_every_b": rng.choice([0, 100, 32768]) if batch else 32768,
        "batch_every_t": rng.choice([None, 0.5, 1, 2]) if batch else 30,
        "codec": rng.choice([None, None, 1]),
        "partitioner": "hashed" if rng.random() < 0.25 else "rr",
    }
    client = {"timeout": rng.choice([2000, 5000, 10000] if shape == "classic" else [1000, 2000, 5000])}
    if rng.random() < 0.15:
        client["disconnect_on_timeout"] = True  # (then an answer that comes after the time-out finds the connection closed)
    steps = []
    t = 0.0
    nsend = rng.choice([2, 4, 6, 10])
    keys = [None, "6b", "6b32", "00ff10"]
    sid = 0
    if wide:
        fault_style = rng.choice(["errors", "errors", "errors", "persist", "mixed", "broker", "none"])
    elif shape == "multibroker":
        fault_style = rng.choice(["broker", "broker", "broker", "broker", "errors", "mixed", "none"])
    else:
        fault_style = rng.choice(["none", "errors", "errors", "persist", "transport", "leader", "mixed"])
    nf = 0 if fault_style == "none" else rng.choice([1, 2, 3])
    for _ in range(nf):
        # (faults are mostly placed after the first request has fetched the metadata: t >= 0.05)
        ft = round(rng.random() * 3, 3) if shape == "classic" else round(rng.choice([0.0, 0.05, 0.05, 0.15, 0.5, 1.0]) + rng.random() * 0.1, 3)
        topic = rng.choice(TOPICS)
        part = rng.randrange(topics[topic])
        style = fault_style if fault_style != "mixed" else rng.choice(["errors", "persist", "transport", "leader", "broker"])
        if style == "errors":
            # (the error is forced for THAT partition only: the other partitions of the request are served.  Retriable
            # codes, codes Kafka does not call retriable - 2, 10, 4, 17, 18, 21, 29, 1 - and unknown ones.  7 / 20 may be
            # a lie told after the append: "timed out / not enough replicas AFTER APPEND" - the retry then duplicates)
            st = {"at": ft, "do": "inject", "action": "error", "api": "Produce", "topic": topic, "partition": part,
                  "code": rng.choice([6, 3, 7, 19, 5, 2, 10, 6, 3, 7, 19, 5, 2, 10, 20, 18, 17, 4, 21, 29, 9, 8, 1, -1, 77]),
                  "times": rng.choice([1, 1, 2, 3])}
            if st["code"] in (7, 20) and rng.random() < 0.6:
                st["apply"] = True
            steps.append(st)
        elif style == "persist":
            steps.append({"at": ft, "do": "inject", "action": "error", "api": "Produce", "topic": topic, "partition": part,
                          "code": rng.choice([6, 19, 7, 10]), "times": None})
        elif style == "transport":
            act = rng.choice(["drop_before", "drop_after", "drop_mid", "silent", "delay", "unreachable", "unreachable"])
            if act == "unreachable":
                node = rng.randrange(1, brokers + 1)
                steps.append({"at": ft, "do": "set", "broker": node, "attr": "mode", "value": rng.choice(["blackhole", "refuse"])})
                if rng.random() < 0.5:
                    steps.append({"at": ft + rng.choice([1, 4, 15]), "do": "set", "broker": node, "attr": "mode", "value": "accept"})
            else:
                st = {"at": ft, "do": "inject", "action": act, "api": "Produce", "topic": topic, "times": rng.choice([1, 1, 2])}
                if act == "delay":
                    st["seconds"] = rng.choice([0.5, 2, 20])
                if act == "drop_mid":  # the messages are appended, part of the answer is written, the connection is cut
                    st["fraction"] = rng.choice([0.1, 0.5, 0.9])
                steps.append(st)
        elif style == "broker":
            node = rng.randrange(1, brokers + 1)
            act = rng.choice(["silent", "silent", "drop_after", "drop_mid", "delay", "hung", "cutoff", "cutoff", "cutoff", "down"])
            if act in ("silent", "drop_after", "drop_mid", "delay"):
                # (a connection dropped on EVERY request would be re-made and the request re-sent for ever at one
                # virtual instant - the network has no latency here: only finitely many drops)
                st = {"at": ft, "do": "inject", "action": act, "api": "Produce", "broker": node,
                      "times": rng.choice([1, 1, 2, 3, None] if act not in ("drop_after", "drop_mid") else [1, 1, 2, 3])}
                if act == "delay":
                    st["seconds"] = rng.choice([0.5, 3, 20])
                if act == "drop_mid":
                    st["nbytes"] = rng.choice([1, 4, 7, 12, 30])
                steps.append(st)
            elif act == "hung":
                steps.append({"at": ft, "do": "set", "broker": node, "attr": "silent", "value": True})
                if rng.random() < 0.5:
                    steps.append({"at": round(ft + rng.choice([1, 4, 15]), 3), "do": "heal_silence", "node_id": node})
            elif act == "cutoff":
                # the broker stays in the metadata as the leader, its connections drop and new ones are refused /
                # never complete (the connection attempt times out at the transport level after 30 s)
                steps.append({"at": ft, "do": "set", "broker": node, "attr": "mode", "value": rng.choice(["blackhole", "blackhole", "refuse"])})
                steps.append({"at": ft, "do": "restart_broker", "node_id": node})
                if rng.random() < 0.4:
                    steps.append({"at": round(ft + rng.choice([1, 4, 15, 40]), 3), "do": "set", "broker": node, "attr": "mode", "value": "accept"})
            else:
                steps.append({"at": ft, "do": "kill_broker", "node_id": node, "elect": rng.random() < 0.5})
                if rng.random() < 0.6:
                    steps.append({"at": round(ft + rng.choice([0.5, 2, 8]), 3), "do": "start_broker", "node_id": node})
        else:
            if brokers > 1:
                if rng.random() < 0.5:
                    steps.append({"at": ft, "do": "move_leader", "topic": topic, "partition": part, "new": rng.randrange(1, brokers + 1),
                                  "old": rng.choice(["not_leader", "unknown", "down"])})
                else:
                    node = rng.randrange(1, brokers + 1)
                    steps.append({"at": ft, "do": "kill_broker", "node_id": node})
                    if rng.random() < 0.7:
                        steps.append({"at": ft + rng.choice([0.5, 2, 8]), "do": "start_broker", "node_id": node})
    gaps = [0, 0, 0.01, 0.1, 0.3, 1.0] if shape == "classic" else [0, 0, 0, 0, 0.01, 0.1, 0.3, 1.0]
    for _ in range(nsend):
        t = round(t + rng.choice(gaps), 3)
        sizes = [rng.choice([None, 0, 3, 12, 12, 30, 30, 200, 5000]) for _ in range(rng.choice([1, 1, 2, 3]))]
        key = None if prod["partitioner"] == "rr" and rng.random() < 0.6 else rng.choice(keys[1:] if prod["partitioner"] == "hashed" else keys)
        topic = rng.choice(TOPICS if shape == "classic" else ["t0", "t0", "t0", "t1"])
        steps.append({"at": t, "do": "send", "sid": sid, "topic": topic, "key": key, "sizes": sizes})
        if rng.random() < (0.15 if pid == "C19" else 0.05):
            steps.append({"at": round(t + rng.choice([0, 0.05, 0.5]), 3), "do": "cancel", "sid": sid})
        sid += 1
    gen_situations(rng, steps, brokers, topics, client, prod)
    if rng.random() < (0.6 if pid == "C19" else 0.3):
        steps.append({"at": round(rng.random() * (t + 1.5), 3), "do": "stop"})
    return {"fullstack": True, "seed": rng.randrange(1 << 30), "cluster": {"brokers": brokers, "topics": topics},
            "client": client, "producer": prod, "steps": steps, "until": 200.0}


def gen_situations(rng, steps, brokers, topics, client, prod):
    """Situations placed RELATIVE TO THE SENDS of the script (each drawn independently, on top of the fault style):
    leadership moving while sends are under way, a broker coming back at another address, version discovery that is
    not answered, a produce answer that arrives after the client timed the request out."""
    sends = [st for st in steps if st["do"] == "send"]
    timeout = client["timeout"] / 1000.0

    def near_send(first=False):
        st = sends[0] if first else rng.choice(sends)
        return st, round(st["at"] + rng.choice([0, 0, 0.001, 0.01, 0.05, 0.2, 0.6]), 3)

    # (a) leadership moves between / during the requests of a batch: the client's cache still names the old leader,
    # which answers NotLeaderForPartition (or UnknownTopicOrPartition); the retry must find the new one.  "wire": the
    # move happens after the client wrote the request and before the old leader reads it.
    if brokers > 1 and rng.random() < 0.25:
        for _ in range(rng.choice([1, 1, 2])):
            st, at = near_send()
            topic = st["topic"]
            mv = {"at": at, "do": "shift_leader", "topic": topic,
                  "partition": rng.choice([None, rng.randrange(topics[topic])]),  # None: every partition of the topic
                  "by": rng.randrange(1, brokers), "old": rng.choice(["not_leader", "not_leader", "not_leader", "unknown"])}
            if rng.random() < 0.4:
                mv["at"] = st["at"]
                st["settle"] = False  # the next step runs before any byte of this send's request has moved
                steps.insert(steps.index(st) + 1, mv)
            else:
                steps.append(mv)
    # (a') a partition is WITHOUT a leader for a while (election under way): the former leader refuses, the metadata
    # names no leader, the client fails the whole call (LeaderUnavailableError) - until a leader is elected
    if rng.random() < 0.12:
        st, at = near_send()
        topic = st["topic"]
        part = rng.choice([None, rng.randrange(topics[topic])])
        steps.append({"at": at, "do": "shift_leader", "topic": topic, "partition": part, "by": None,
                      "old": rng.choice(["not_leader", "not_leader", "unknown"])})
        if rng.random() < 0.8:
            steps.append({"at": round(at + rng.choice([0.1, 0.3, 1, 3, 10]), 3), "do": "shift_leader", "topic": topic, "partition": part,
                          "by": rng.randrange(0, brokers), "old": "not_leader"})
    # (b) a broker is restarted at another address (same node id): only the metadata names the new one
    if rng.random() < 0.15:
        node = rng.randrange(1, brokers + 1)
        _st, at = near_send()
        k = rng.randrange(1, 4)
        steps.append({"at": at, "do": "restart_broker", "node_id": node, "host": rng.choice([None, "kafka%d-%d.sim" % (node, k)]),
                      "port": 9092 + k})
        if rng.random() < 0.3:
            steps.append({"at": round(at + rng.choice([0.5, 3, 12]), 3), "do": "restart_broker", "node_id": node,
                          "host": "kafka%d.sim" % node, "port": 9092})
    # (c) version discovery (ApiVersions, made inside the first produce call) is not answered / answered late /
    # cut off / refused by a broker that predates it
    if rng.random() < 0.15:
        how = rng.choice(["silent", "silent", "delay", "drop_before", "old-ignore", "error"])
        node = rng.choice([None, None, rng.randrange(1, brokers + 1)])
        if how == "old-ignore":
            # a broker that predates ApiVersions and drops the request on the floor (one that CLOSES the connection
            # instead is "drop_before" a finite number of times: a connection cut on every request is re-made and the
            # request re-sent for ever at one virtual instant - the simulated network has no latency)
            # (every broker: the client keeps ONE version table for the cluster; a request version only the newer brokers
            # of a mixed cluster know makes the old one close the connection on every copy of it)
            for n in range(1, brokers + 1):
                steps.append({"at": 0.0, "do": "set", "broker": n, "attr": "old_broker_mode", "value": "ignore"})
                steps.append({"at": 0.0, "do": "set", "broker": n, "attr": "api_versions", "value": None})
        else:
            st = {"at": 0.0, "do": "inject", "action": how, "api": "ApiVersions",
                  "times": rng.choice([1, 1, 2, 3, None] if how != "drop_before" else [1, 1, 2, 3])}
            if node:
                st["broker"] = node
            if how == "delay":
                st["seconds"] = round(timeout * rng.choice([0.5, 1.5, 3]), 3)
            if how == "silent":
                st["block"] = rng.random() < 0.5
            if how == "error":
                st["code"] = rng.choice([35, -1, 2])
            steps.append(st)
        # (scripts are executed in `at` order, ties in list order: these come before the first send)
        steps.sort(key=lambda x: 0 if x.get("api") == "ApiVersions" or x.get("attr") in ("api_versions", "old_broker_mode") else 1)
    # (e) the answer to a produce request arrives AFTER the client timed it out (the broker has appended the messages):
    # the retry appends them again - at-least-once
    if rng.random() < 0.2:
        _st, at = near_send(first=rng.random() < 0.5)
        st = {"at": max(0.0, round(at - 0.001, 3)), "do": "inject", "action": "delay", "api": "Produce",
              "seconds": round(timeout + rng.choice([0.001, 0.1, 0.5, 2, timeout]), 3), "times": rng.choice([1, 1, 2])}
        if rng.random() < 0.5:
            st["broker"] = rng.randrange(1, brokers + 1)
        else:
            st["topic"] = rng.choice(TOPICS)
        steps.append(st)


class FSRun(object):
    def __init__(self, script):
        self.script = script
        self.sends = {}  # sid -> dict(topic, key, values, t, d)
        self.outcomes = {}  # sid -> [ (t, n, ok, canon result) ]
        self.stop_t = None
        self.stop_n = None
        self.outstanding_at_stop = None
        self.error = None
        self.cluster = None
        self.lost = []
        self.stuck = None
        self.stuck_sends = []
        self.tracer = None
        self.moves = []  # of the `shift_leader` steps: what was under way when leadership moved
        self.client = None


def run_script(script, trace=False):
    """trace=True: the Producer talks to the real client through the recording proxy of producer_fstrace
    (r.tracer holds the boundary trace in the model's line protocol)"""
    from harness.sim import fullstack as F
    from harness.sim.cluster import Livelock

    import afkak
    from afkak.partitioner import HashedPartitioner, RoundRobinPartitioner

    r = FSRun(script)
    cluster = F.build_cluster(script["cluster"], script["seed"])
    r.cluster = cluster
    for b in cluster.brokers.values():
        if b.connect_timeout is None:
            # a connection attempt that is never answered fails at the transport level (Twisted's endpoints: 30 s)
            b.connect_timeout = CONNECT_TIMEOUT
    rec = F.Recorder(cluster)
    steps = sorted(enumerate(script["steps"]), key=lambda x: (x[1]["at"], x[0]))
    with warnings.catch_warnings(), F.Determinism(cluster, script["seed"]):
        warnings.simplefilter("ignore")
        try:
            client = r.client = F.make_client(cluster, **script.get("client", {}))
            kw = dict(script["producer"])
            part = kw.pop("partitioner", "rr")
            kw["partitioner_class"] = HashedPartitioner if part == "hashed" else RoundRobinPartitioner
            if trace:
                from harness.lib import producer_fstrace as T

                r.tracer = T.Tracer(T.cfg_of(script["producer"]), client, kw, TOPICS)
                producer = r.tracer.producer
            else:
                r.tracer = None
                producer = afkak.Producer(client, **kw)
            for _i, st in steps:
                if st["at"] > cluster.clock.seconds():
                    cluster.advance(st["at"] - cluster.clock.seconds())
                do = st["do"]
                if do == "send":
                    sid = st["sid"]
                    key = None if st["key"] is None else bytes.fromhex(st["key"])
                    vals = [msg_value(sid, i, s) for i, s in enumerate(st["sizes"])]
                    if r.tracer is not None:
                        d = r.tracer.send(sid, st["topic"], key, st["sizes"], vals)
                    else:
                        d = producer.send_messages(st["topic"], key=key, msgs=vals)
                    r.sends[sid] = dict(topic=st["topic"], key=key, values=vals, t=cluster.clock.seconds(), d=d)
                    r.outcomes[sid] = []

                    def done(res, sid=sid):
                        from twisted.python.failure import Failure

                        cluster._seq += 1
                        r.outcomes[sid].append((cluster.clock.seconds(), cluster._seq, not isinstance(res, Failure), F.canon(res)))
                        return None

                    d.addBoth(done)
                elif do == "cancel":
                    if st["sid"] in r.sends:
                        if r.tracer is not None:
                            r.tracer.cancel(st["sid"])
                        else:
                            r.sends[st["sid"]]["d"].cancel()
                elif do == "stop":
                    r.outstanding_at_stop = [s for s, o in r.outcomes.items() if not o]
                    r.stop_t = cluster.clock.seconds()
                    cluster._seq += 1
                    r.stop_n = cluster._seq
                    if r.tracer is not None:
                        r.tracer.stop()
                    else:
                        producer.stop()
                    cluster._seq += 1
                    r.stop_done_n = cluster._seq
                elif do == "inject":
                    kw2 = {k: v for k, v in st.items() if k not in ("at", "do")}
                    cluster.inject(kw2.pop("action"), **kw2)
                elif do == "set":
                    setattr(cluster.brokers[st["broker"]], st["attr"], st["value"])
                elif do == "shift_leader":
                    # leadership of one partition (or of every partition of the topic) moves `by` brokers on
                    ids = sorted(cluster.brokers)
                    parts = list(cluster.topics[st["topic"]].partitions) if st.get("partition") is None else [st["partition"]]
                    queued = set(id(q.deferred) for q in producer._batch_reqs)
                    inflight = [sid for sid, sd in r.sends.items() if not r.outcomes[sid] and id(sd["d"]) not in queued] \
                        if producer._batch_send_d is not None else []
                    for p_ in parts:
                        cur = cluster.leader_of(st["topic"], p_)
                        if st["by"] is None:
                            new = -1  # no leader
                        else:
                            new = ids[(ids.index(cur) + st["by"]) % len(ids)] if cur in ids else ids[st["by"] % len(ids)]
                        cluster.move_leader(st["topic"], p_, new, old=st.get("old", "not_leader"))
                    r.moves.append({"n": cluster._seq, "topic": st["topic"], "parts": parts, "inflight": inflight,
                                    "open_corrs": [q["corr"] for call in r.tracer.client.calls for q in call.reqs if q["out"] is None]
                                    if r.tracer is not None else []})
                elif do in ("move_leader", "kill_broker", "start_broker", "restart_broker", "heal_silence"):
                    kw2 = {k: v for k, v in st.items() if k not in ("at", "do", "settle")}
                    getattr(cluster, do)(**kw2)
                else:
                    raise ValueError(do)
                if st.get("settle", True):
                    cluster.settle()
            cluster.run_until_idle(timeout=max(0.0, script.get("until", 200.0) - cluster.clock.seconds()))
            # LIVENESS: the batch in flight resolves.  Every attempt of the client ends within its request timeout
            # (plus the metadata look-ups it makes), there are at most max_req_attempts of them, the retry delays
            # are init*factor^k: a batch that is still THE SAME batch `batch_bound` virtual seconds later - or that
            # is in flight while nothing at all is pending in the reactor - will never resolve.
            bound = batch_bound(script)
            for _round in range(64):
                cur = producer._batch_send_d
                if cur is None:
                    break
                if cluster.next_timer() is None:
                    r.stuck = "nothing is pending in the reactor (t=%s)" % cluster.clock.seconds()
                    break
                t0 = cluster.clock.seconds()
                cluster.run_until(lambda: producer._batch_send_d is not cur, timeout=bound)
                if producer._batch_send_d is cur:
                    r.stuck = "in flight since before t=%s, still unresolved at t=%s (bound %s s)" % (t0, cluster.clock.seconds(), bound)
                    break
            r.quiet = cluster.next_timer() is None
            if r.tracer is not None:
                r.tracer.finish()
            # sends that were dispatched (not queued any more), never fired, while no batch is in flight
            queued = set(id(q.deferred) for q in producer._batch_reqs)
            r.lost = [sid for sid, sd in r.sends.items() if not r.outcomes[sid] and id(sd["d"]) not in queued] \
                if producer._batch_send_d is None else []
            r.stuck_sends = [sid for sid, sd in r.sends.items() if not r.outcomes[sid] and id(sd["d"]) not in queued] \
                if r.stuck else []
            if producer._sendLooper is not None and r.stop_t is None:
                # the periodic timer never lets the reactor go idle: stop the producer to finish
                r.final_stop = True
        except Livelock as e:
            r.error = "livelock: %s" % e
    r.producer_cfg = script["producer"]
    # (faults under which a request handed to a connection may never be seen by a broker: the connection is cut;
    # a broker that merely refuses / never completes NEW connections, or hangs, is not one of them)
    r.transport_faults = any(st["do"] in ("kill_broker", "move_leader", "restart_broker", "shift_leader")
                             or st.get("action") in ("drop_before", "drop_after", "drop_mid", "silent", "delay") for st in script["steps"])
    # (... or the broker itself cut it: a produce request with acks=0 that fails cannot be answered, the broker closes
    # the connection instead - and with it go the requests written behind it at the same instant)
    r.transport_faults = r.transport_faults or any(e.get("fate") == "closed-acks0-error" for e in cluster.requests(api="Produce"))
    # (... or the client cuts it itself: with disconnect_on_timeout a request that times out - of any kind - takes the
    # connection down, and the acks=0 produce request just written to it)
    r.transport_faults = r.transport_faults or bool(script.get("client", {}).get("disconnect_on_timeout"))
    return r


def _contains(hay, needle):
    n = len(needle)
    return any(hay[i:i + n] == needle for i in range(len(hay) - n + 1))


def segment(r, want, topic, msgs, must=None):
    """split a partition's message list into whole sends in submission order -> {sid: start index} | None.
    Sends with identical content cannot be told apart: with `must`, look for a split that contains it."""
    cands = [sid for sid in sorted(want) if r.sends[sid]["topic"] == topic]

    def seg(i, last):
        if i == len(msgs):
            return [{}]
        out = []
        for sid in cands:
            w = want[sid]
            if sid > last and msgs[i:i + len(w)] == w:
                for rest in seg(i + len(w), sid):
                    d = dict(rest)
                    d[sid] = i
                    out.append(d)
                    if must is None or must in d:
                        return [d]
        return out[:4]

    res = seg(0, -1)
    if must is not None:
        res = [d for d in res if must in d] or res
    return res[0] if res else None


def produce_requests(cluster):
    """[(entry, [(topic, partition, [(key, value)])])] for every Produce request that reached a broker"""
    from harness.sim import refcodec as R

    out = []
    for e in cluster.requests(api="Produce"):
        parts = []
        body = e.get("request") or {}
        for t in body.get("topics", []):
            for pd in t["partitions"]:
                msgs = pd.get("messages") or []
                try:
                    flat = R.expand_message_set(msgs)
                except Exception:
                    flat = msgs
                parts.append((t["topic"], pd["partition"], [(m["key"], m["value"]) for m in flat]))
        out.append((e, parts))
    return out


def client_records(r):
    """{correlation id: the real client's own record of that broker request} (producer_fstrace.ClientCall.reqs): what the
    CLIENT saw of it - ("ok", rows) the response it received, ("fail", kind) how it failed, None still pending"""
    if r.tracer is None:
        return None
    recs = {q["corr"]: q for call in r.tracer.client.calls for q in call.reqs if q.get("corr") is not None}
    for e in r.cluster.requests(api="Produce"):
        recs[("last", e.get("corr"))] = e
    return recs


def appends_of(r, reqs, want):
    """{sid: [(request entry, applied record)]} - the appends (messages really written to a partition log, whatever the
    broker then answered) that carry the send's first message, in execution order.  Only sends whose first message is
    theirs alone (its value starts with the send's own tag "<sid>:0|") can be followed through the logs."""
    out = {}
    for sid, w in want.items():
        v0 = w[0][1] if w else None
        if v0 is None or not v0.startswith(b"%d:0|" % sid):
            continue
        topic = r.sends[sid]["topic"]
        for e, _parts in reqs:
            for a in e.get("applied", []):
                if a.get("op") == "append" and a["topic"] == topic and any((k, v) == w[0] for (_o, k, v) in a["messages"]):
                    out.setdefault(sid, []).append((e, a))
    return out


def ack_received(recs, e, a):
    """did the real client receive the answer of request `e` saying error 0 for the partition of append `a`?
    (None: not known - no client-side record of that request)"""
    from harness.lib import producer_drive as D

    q = recs.get(e.get("corr")) if recs is not None else None
    if q is None or q["node"] != e["broker"]:
        return None
    if q["out"] is None or q["out"][0] != "ok":
        return False
    # (a broker client re-sends a request it still waits for - same correlation id - when its connection was cut and
    # re-made: the answer the client has is the one of the LAST copy, written to an open connection at the moment the
    # client's record says the request ended)
    if e.get("fate") != "answered" or e.get("t_sent") != q["t_done"] or recs.get(("last", e.get("corr"))) is not e:
        return False
    return any(row[0] == D.topic_index(a["topic"]) and row[1] == a["partition"] and row[2] == 0 for row in q["out"][1])


def unexcused_duplicates(r, reqs, want):
    """AT-LEAST-ONCE, and no more than that: a send's messages are appended a second time only when the acknowledgement
    of the earlier append did not reach the client (answer swallowed, connection cut, answer later than the client's
    time-out, an error code reported after the append).  -> [(sid, n of the acknowledged request, n of the later one)]"""
    recs = client_records(r)
    if recs is None:
        return []
    out = []
    for sid, apps in sorted(appends_of(r, reqs, want).items()):
        for (e1, a1), (e2, _a2) in zip(apps, apps[1:]):
            if a1["error"] == 0 and ack_received(recs, e1, a1):
                out.append((sid, e1["n"], e2["n"]))
                break
    return out


def check(r, pid):
    """Ground-truth monitors.  -> list of {"what", "tags"}"""
    fails = []

    def bad(tag, what):
        fails.append({"what": what, "tags": ["fullstack:" + tag]})

    if r.error:
        bad("livelock", r.error)
        return fails
    cluster = r.cluster
    acks = r.producer_cfg["req_acks"]
    reqs = produce_requests(cluster)
    want = {sid: [(s["key"], v) for v in s["values"]] for sid, s in r.sends.items()}
    acked = {}  # sid -> (topic, partition, offset, t, n)
    for sid, outs in sorted(r.outcomes.items()):
        if len(outs) > 1:
            bad("fired-twice", "send %d fired %d times: %r" % (sid, len(outs), outs))
        if not outs:
            continue
        t, n, ok, res = outs[0]
        if not ok:
            continue
        s = r.sends[sid]
        if isinstance(res, (tuple, list)) and res and res[0] == "exc-object":
            bad("success-with-exception", "send %d SUCCEEDED with an exception object %r" % (sid, res))
            continue
        if res is None:
            if acks != 0:
                bad("none-with-acks", "send %d succeeded with None but req_acks=%r" % (sid, acks))
            elif not r.transport_faults and not any(p[0] == s["topic"] and _contains(p[2], want[sid]) for e, parts in reqs for p in parts):
                # (the Deferred fires when the request is handed to the connection; it reaches the broker when bytes move)
                bad("acks0-not-sent", "send %d succeeded (acks=0) but no produce request carrying its messages ever reached a broker" % sid)
            continue
        if not (isinstance(res, (tuple, list)) and res[0] == "ProduceResponse"):
            bad("odd-success-value", "send %d succeeded with %r" % (sid, res))
            continue
        _, topic, partition, error, offset = res[:5]
        if error != 0 or topic != s["topic"]:
            bad("success-with-error", "send %d succeeded with %r (its topic: %s)" % (sid, res, s["topic"]))
            continue
        # the acknowledging request: applied append at that base offset, answered before the Deferred fired
        found = None
        for e, parts in reqs:
            if e["n"] > n or e.get("fate") not in ("answered",):
                continue
            for a in e.get("applied", []):
                if a.get("op") == "append" and a["topic"] == topic and a["partition"] == partition and a["error"] == 0 \
                        and a["base_offset"] == offset:
                    kv = [(k, v) for (_o, k, v) in a["messages"]]
                    seg = segment(r, want, topic, kv, must=sid)
                    if seg is not None and sid in seg:
                        found = a["messages"][seg[sid]][0]  # absolute offset of the send's first message
        if found is None:
            bad("success-not-acked", "send %d succeeded with %r but no answered produce request appended its messages at that offset" % (sid, res))
        else:
            log = [(k, v) for (_o, k, v, _ts, _m) in cluster.log_of(topic, partition).messages()]
            if not _contains(log, want[sid]):
                bad("success-not-in-log", "send %d acknowledged but its messages are not in the log of %s/%d" % (sid, topic, partition))
            acked[sid] = (topic, partition, found, t, n)
    if r.stuck:
        bad("batch-never-resolves", "the batch in flight never resolves: %s; its sends %r have not fired (neither success nor failure)"
            % (r.stuck, r.stuck_sends))
    for sid in r.lost:
        bad("never-fired", "send %d was dispatched, no batch is in flight any more, and its Deferred never fired" % sid)
    if pid in ("C09", "C01"):
        # submission order inside every request; whole sends only
        for e, parts in reqs:
            for topic, part, msgs in parts:
                if segment(r, want, topic, msgs) is None:
                    bad("payload-not-whole-sends-in-order", "produce request n=%d %s/%d: its messages are not whole sends in submission order" % (e["n"], topic, part))
        by_tp = {}
        for sid, (topic, part, off, t, n) in acked.items():
            by_tp.setdefault((topic, part), []).append((sid, off))
        for tp, l in by_tp.items():
            l.sort()
            for (a, oa), (b, ob) in zip(l, l[1:]):
                if want[a] == want[b]:
                    continue  # sends with identical content cannot be told apart in a log
                if not oa < ob:
                    bad("acked-out-of-order", "%s/%d: send %d acknowledged at offset %d, later send %d at %d" % (tp[0], tp[1], a, oa, b, ob))
        for sid, (topic, part, off, t, n) in acked.items():
            first = want[sid][0]
            for e, parts in reqs:
                if e["n"] > n and any(p[0] == topic and first in p[2] for p in parts) and want[sid][0][1] not in (None, b""):
                    bad("acked-resent", "send %d was reported acknowledged, yet a later produce request (n=%d) carries its messages again" % (sid, e["n"]))
                    break
    if pid in ("C09", "C01"):
        for sid, first, second in unexcused_duplicates(r, reqs, want):
            bad("duplicate-without-lost-ack", "send %d: produce request n=%d appended its messages and the client RECEIVED that "
                "acknowledgement (error 0) - yet a later produce request (n=%d) carried them again and they were appended a second "
                "time (duplicates are at-least-once behaviour only after an acknowledgement that did not arrive)" % (sid, first, second))
    if r.stop_t is not None:
        for e, parts in reqs:
            if e["n"] > r.stop_n:
                bad("produce-after-stop", "a Produce request reached broker %s at t=%s, after stop() at t=%s" % (e["broker"], e["t"], r.stop_t))
                break
        for sid in r.outstanding_at_stop or []:
            outs = r.outcomes[sid]
            if not outs or outs[0][1] > r.stop_done_n:
                bad("stop-left-outstanding", "send %d was outstanding at stop() and had not fired when stop() returned" % sid)
            elif not outs[0][2]:
                res = outs[0][3]
                if not (isinstance(res, (tuple, list)) and res[1] == "CancelledError"):
                    bad("stop-non-cancel-error", "send %d outstanding at stop() failed with %r, not a cancellation error" % (sid, res))
    return fails


def summarize(r, hist):
    for sid, outs in r.outcomes.items():
        if not outs:
            hist["fs:send-unresolved"] += 1
        else:
            res = outs[0][3]
            hist["fs:send-" + ("ok" if outs[0][2] else "fail:" + str(res[1] if isinstance(res, (tuple, list)) else res))] += 1
    hist["fs:produce-requests"] += len(r.cluster.requests(api="Produce"))
    if r.tracer is not None:
        for k, v in r.tracer.stats.items():
            hist["fs:" + k] += v
    if r.producer_cfg["req_acks"] == 0 and any(not o[0][2] for o in r.outcomes.values() if o):
        hist["fs:acks0-send-failed"] += 1
    for e in r.cluster.log:
        if e["kind"] == "connect" and e.get("result") in ("refused", "blackholed"):
            hist["fs:connect-" + e["result"]] += 1
    hist["fs:stop"] += 1 if r.stop_t is not None else 0
    try:
        situations(r, hist)
    except Exception as e:  # noqa: BLE001  (coverage accounting must never decide a verdict)
        hist["fs:situations-accounting-error:" + type(e).__name__] += 1
    for st in r.script["steps"]:
        if st["do"] not in ("send",):
            hist["fs:step-" + st["do"] + (":" + st.get("action", "") if st["do"] == "inject" else "")] += 1


def situations(r, hist):
    """Coverage: situations that REALLY OCCURRED in the run (read off the brokers' log and the client's own records,
    not off the script)."""
    cluster = r.cluster
    reqs = produce_requests(cluster)
    want = {sid: [(s["key"], v) for v in s["values"]] for sid, s in r.sends.items()}
    recs = client_records(r) or {}
    timeout = r.script.get("client", {}).get("timeout", 10000) / 1000.0
    ok_sids = set(sid for sid, o in r.outcomes.items() if o and o[0][2] and o[0][3] is not None)
    # ---- (d) one produce response with error 0 for some partitions and an error code for others
    for e, _parts in reqs:
        codes = [a["error"] for a in e.get("applied", []) if a.get("op") == "append"]
        if e.get("fate") == "answered" and 0 in codes and any(c != 0 for c in codes):
            q = recs.get(e.get("corr"))
            got = q is not None and q["out"] is not None and q["out"][0] == "ok" and len(set(row[2] == 0 for row in q["out"][1])) == 2
            hist["fs:produce-response-mixed-outcomes"] += 1
            if got:
                hist["fs:produce-response-mixed-outcomes:received-by-client"] += 1
            for c in sorted(set(c for c in codes if c != 0)):
                hist["fs:produce-response-mixed-outcomes:code=%d" % c] += 1
    # ---- (a) refused by a former leader (genuinely: no injected error), acknowledged by another broker
    apps = appends_of(r, reqs, want)
    for sid in sorted(apps):
        if sid not in ok_sids:
            continue
        topic = r.sends[sid]["topic"]
        acked = [(e, a) for e, a in apps[sid] if a["error"] == 0 and ack_received(recs, e, a)]
        refused = []
        for e, parts in reqs:
            if e.get("fault") is not None:
                continue
            for a in e.get("applied", []):
                if a.get("op") == "append" and a["topic"] == topic and a["error"] in (6, 3) and not a["messages"] \
                        and any(p[0] == topic and p[1] == a["partition"] and want[sid][0] in p[2] for p in parts):
                    refused.append((e, a))
        if not acked:
            continue
        e2 = acked[0][0]
        refused = [(e, a) for e, a in refused if e["broker"] != e2["broker"] and e["n"] < e2["n"] and a["partition"] == acked[0][1]["partition"]]
        if refused:
            code = {6: "notleader", 3: "unknownpartition"}[refused[0][1]["error"]]
            hist["fs:%s-then-success-elsewhere" % code] += 1
            part = refused[0][1]["partition"]
            mv = [m for m in r.moves if m["topic"] == topic and part in m["parts"]]
            if any(sid in m["inflight"] for m in mv):
                hist["fs:%s-then-success-elsewhere:batch-in-flight-when-leader-moved" % code] += 1
            if any(e["corr"] in m["open_corrs"] for m in mv for e, _a in refused):
                hist["fs:%s-then-success-elsewhere:request-on-the-wire-when-leader-moved" % code] += 1
    # ---- (a') the client fails a whole call (nothing sent) - by kind; a leaderless partition that is acknowledged later
    if r.tracer is not None:
        from harness.lib import producer_drive as D

        lu = []
        for call in r.tracer.client.calls:
            if call.result is not None and call.result[0] == "err" and not call.reqs:
                hist["fs:client-call-failed-wholly-nothing-sent:" + str(call.result[1])] += 1
                if call.result[1] == "lu":
                    lu.append(call)
        if lu:
            for sid in sorted(ok_sids):
                o = r.outcomes[sid][0]
                res = o[3]
                if isinstance(res, (tuple, list)) and res[0] == "ProduceResponse":
                    key = (D.topic_index(res[1]), res[2])
                    if any(key in c.keys and r.sends[sid]["t"] <= getattr(c, "t0", -1) <= o[0] for c in lu):
                        hist["fs:leader-unavailable-then-acknowledged"] += 1
    # ---- (b) a broker at a new address
    first_addr = {}
    new_addrs = set()
    for m in cluster.log:
        if m["kind"] == "admin" and m.get("what") == "restart_broker":
            b = m["broker"]
            first_addr.setdefault(b, ("kafka%d.sim" % b, 9092))
            if (m["host"], m["port"]) != first_addr[b]:
                new_addrs.add((m["host"], m["port"]))
                hist["fs:broker-restarted-at-new-address"] += 1
    if new_addrs:
        conns = set()
        for m in cluster.log:
            if m["kind"] == "connect" and (m["host"], m["port"]) in new_addrs and m.get("result") == "accepted":
                conns.add(m["conn"])
                hist["fs:new-address:connection-accepted"] += 1
            elif m["kind"] == "connect" and m.get("broker") is None:
                hist["fs:new-address:connect-to-abandoned-address-refused"] += 1
        for e, _parts in reqs:
            if e["conn"] in conns and e.get("fate") == "answered" and any(a["error"] == 0 for a in e.get("applied", [])):
                hist["fs:new-address:produce-acknowledged-there"] += 1
    # ---- (c) version discovery
    av = cluster.requests(api="ApiVersions")
    unanswered = [e for e in av if e.get("fate") != "answered" or (e.get("t_sent") is not None and e["t_sent"] - e["t"] >= timeout)]
    if av:
        hist["fs:apiversions-requests"] += len(av)
    if unanswered:
        hist["fs:apiversions-unanswered"] += len(unanswered)
        for e in unanswered:
            hist["fs:apiversions-unanswered:" + ("answered-late" if e.get("fate") == "answered" else str(e.get("fate")))] += 1
        v = getattr(r.client, "_api_versions", None)
        hist["fs:apiversions-unanswered:run-ends-" + ("undiscovered" if v is None else "fallback-v0" if v == 0 else "discovered")] += 1
        if v == 0 and any(e["version"] == 0 for e, _p in reqs):
            hist["fs:apiversions-unanswered:produce-v0-after-fallback"] += sum(1 for e, _p in reqs if e["version"] == 0)
    if any((e.get("response") or {}).get("error_code") for e in av if e.get("fate") == "answered"):
        hist["fs:apiversions-answered-with-error"] += 1
    # ---- (e) answer later than the client's time-out, delivered to the client all the same; duplicates
    for e, _parts in reqs:
        if e.get("fate") == "answered" and e.get("t_sent") is not None and e["t_sent"] > e["t"]:
            q = recs.get(e.get("corr"))
            if q is not None and q["out"] is not None and q["out"][0] == "fail" and q["t_done"] is not None and q["t_done"] <= e["t_sent"]:
                # (written to a connection that is open: the client reads an answer to a request it has given up;
                # "b7" is the client's own RequestTimedOutError)
                if q["out"][1] == "b7":
                    hist["fs:produce-reply-delivered-after-client-timeout"] += 1
                    if any(a["error"] == 0 and a["messages"] for a in e.get("applied", [])):
                        hist["fs:produce-reply-delivered-after-client-timeout:messages-were-appended"] += 1
                else:
                    hist["fs:produce-reply-delivered-after-request-ended:" + str(q["out"][1])] += 1
        elif e.get("fate") == "conn-closed" and e.get("response") is not None:
            hist["fs:produce-reply-late-but-connection-closed"] += 1
        elif e.get("fate") == "dropped-mid":
            hist["fs:produce-reply-cut-mid-frame"] += 1
    for e, _parts in reqs:
        if any(a.get("op") == "append" and a["error"] != 0 and a["messages"] for a in e.get("applied", [])) and e.get("fate") == "answered":
            hist["fs:produce-error-reported-after-append"] += 1
    for sid, l in sorted(apps.items()):
        real = [(e, a) for e, a in l if a["messages"]]
        if len(real) >= 2:
            hist["fs:send-appended-more-than-once"] += 1
            e1, a1 = real[0]
            why = "ack-received(!)" if a1["error"] == 0 and ack_received(recs, e1, a1) else \
                "error-reported-after-append" if a1["error"] != 0 else \
                "reply-late" if e1.get("fate") == "answered" else "reply-" + str(e1.get("fate"))
            hist["fs:send-appended-more-than-once:first-ack-" + why] += 1
            if sid in ok_sids:
                hist["fs:send-appended-more-than-once:and-then-acknowledged"] += 1


def stage(ctx, res, pid):
    import collections
    import random

    n = ctx.scale(900, 6000)
    rng = random.Random(ctx.rng.randrange(1 << 30))
    hist = collections.Counter()
    t_bad = 0
    traced = []
    for i in range(n):
        script = gen_script(rng, pid)
        try:
            r = run_script(script, trace=True)
        except Exception as e:  # a crash of the stack under a scenario is itself a finding to look at
            res.monitor_failures.append({"what": "full-stack run crashed: %r" % (e,), "scenario": script, "tags": ["fullstack:crash"]})
            continue
        if r.tracer is not None and not r.error:
            if r.tracer.skipped:
                hist["fs:trace-not-replayed:" + r.tracer.skipped.split("(")[0].strip()[:50]] += 1
            else:
                traced.append((script, r.tracer))
        res.evaluations += 1
        res.traces_validated += 1
        summarize(r, hist)
        fails = check(r, pid)
        if any(len(o) for o in r.outcomes.values()) and r.cluster.requests(api="Produce"):
            res.nontrivial(script)
        for f in fails[:2]:
            t_bad += 1
            if t_bad <= 3:
                f["scenario"] = script
                res.monitor_failures.append(f)
    t_bad += validate_traces(res, pid, traced, hist, t_bad)
    t_bad += validate_compose(res, pid, traced, hist)
    for k, v in hist.items():
        res.count(k, v)
    res.count("fullstack-runs", n)


def validate_traces(res, pid, traced, hist, shown=0):
    """Trace validation: replay the Producer/KafkaClient boundary traces of the full-stack runs to the model
    (same diff as the scripted correspondence) and evaluate the property's monitors on them.  The looping
    call's schedule is not checked here: the cluster clock's float times are not on the model's exact grid."""
    from harness.lib import producer_check as K

    if not traced:
        return 0
    mons = [m for m in K.MONITORS[pid] if m != "c19-schedule"]
    bad = 0
    for script, tr, d, failed in K.evaluate(pid, traced, monitors=mons):
        hist["fs:traces-replayed"] += 1
        hist["fs:trace-steps"] += len(tr.steps)
        res.evaluations += 1
        if d is not None:
            i, want, got = d
            bad += 1
            if shown + bad <= 3:
                res.disagreements.append({
                    "component": "producer-fullstack", "step": i,
                    "what": "full stack: the real Producer over the real KafkaClient and the model disagree at boundary step %d (%s)" % (i, tr.steps[i][0]),
                    "scenario": script, "impl": want, "model": got,
                    "impl_trace": [[s[0]] + s[1] + [s[2]] for s in tr.steps[:i + 1]],
                    "tags": ["fullstack-trace:disagree"]})
            continue
        for m in failed:
            bad += 1
            if shown + bad <= 3:
                res.monitor_failures.append({
                    "monitor": m, "what": "full stack boundary trace: " + K.WHAT.get(m, m), "scenario": script,
                    "impl_trace": [[s[0]] + s[1] + [s[2]] for s in tr.steps],
                    "tags": ["fullstack-trace:" + m]})
    return bad


def compose_lines(call):
    """the `compose-call` request for one recorded `send_produce_request` (see Driver/ProducerComposeCodec.lean)"""
    def outs(o):
        if o[0] == "fail":
            return "f:" + o[1]
        return "ok:" + (";".join("%d/%d:%d:%d" % tuple(x) for x in o[1]) or "-")

    return "compose-call %s %s %s" % (
        ";".join("%d/%d" % k for k in call.keys),
        ",".join("x" if ld == "x" else "N" if ld is None else str(ld) for ld in call.leaders),
        "|".join(outs(q["out"]) for q in call.reqs) or "-")


def compose_expect(call):
    """what the REAL client did, in the model's vocabulary: (route line, result line)"""
    from harness.lib import producer_drive as D

    if call.reqs:
        # (inside one request the encoder groups the partitions by topic - C04; which payloads go to which broker, and
        # the order of the requests, is the routing kernel's)
        route = "route " + ";".join("%d=%s" % (q["node"], ",".join(str(i) for i in sorted(call.keys.index(tp) for tp in q["parts"]))) for q in call.reqs)
    else:
        route = None  # nothing was sent: the model must say so too (route-error)
    res = D.result_str(call.result)
    if res in ("none", "resp -"):
        res = "resp -"
    return route, "result " + res


def validate_compose(res, pid, traced, hist, model=None):
    """COMPOSED model vs the real KafkaClient under the real Producer: for every `send_produce_request` of the
    full-stack runs, the recorded cache leaders and broker-request outcomes are given to the product machine's
    client call (`sendProduce`), and (a) the broker requests it routes (node, payload indices, order) must be the ones
    the real client put on the wire, (b) the result it computes must be the result the real client handed to the
    Producer at the boundary, (c) the environment hypotheses of the composed theorems (`callOK`: a broker answers only
    what it was asked; `callAccounts`: ... exactly what it was asked) must hold of what the simulated brokers answered."""
    from harness import core

    model = model or core.run_model
    todo = []
    for script, tr in traced:
        for call in tr.client.calls:
            if call.result is None:
                hist["fs:compose:call-never-completed"] += 1
            elif call.odd or call.leaders is None or any(q["out"] is None for q in call.reqs):
                hist["fs:compose:not-compared:" + (call.odd or "incomplete record")[:40]] += 1
            else:
                todo.append((script, call))
    if not todo:
        return 0
    answers = model("producer", [compose_lines(c) for _s, c in todo])
    bad = 0
    for (script, call), got in zip(todo, answers):
        hist["fs:compose:calls-compared"] += 1
        want_route, want_res = compose_expect(call)
        problems = []
        if len(got) != 4:
            problems.append("the model driver refused the call: %r" % (got,))
        else:
            route, result, callok, callacc = got
            if result in ("result none",):
                result = "result resp -"
            if want_route is None:
                # nothing was sent.  Either routing failed (the model must say the same), or the call failed before
                # it routed - cancelled during version discovery, a metadata reload inside it failed: those answers
                # carry no response and are raw events of the product machine (`CEv.ev`, `rawOK`), not `sendProduce`'s
                if call.result[0] != "err":
                    problems.append("the real client sent nothing, yet answered %r" % (want_res,))
                elif not (route.startswith("route-error") and result == want_res):
                    hist["fs:compose:early-failure-outside-sendProduce:" + call.result[1]] += 1
                    hist["fs:compose:calls-compared"] -= 1
                    continue
            else:
                if route != want_route and call.reloaded:
                    # the client reloaded metadata while it was resolving the payloads one after the other: the leaders
                    # recorded (the cache when the first request went out) are not the ones every payload was resolved
                    # with (C07's known finding: a reload inside one call can leave an earlier payload on the old leader)
                    hist["fs:compose:not-compared:metadata reloaded inside the call and the routes differ"] += 1
                    hist["fs:compose:calls-compared"] -= 1
                    continue
                if call.reloaded:
                    hist["fs:compose:calls-compared-with-a-reload-inside"] += 1
                if route != want_route:
                    problems.append("broker requests differ: real client %r, model %r" % (want_route, route))
                if result != want_res:
                    problems.append("results differ: real client %r, model %r" % (want_res, result))
            if callok != "callok 1":
                problems.append("environment hypothesis callOK fails on the observed outcomes")
            if callacc != "callaccounts 1":
                # (hypothesis of C01_composed_fires_exactly_once_run: every broker that answers, answers for exactly the
                # partitions it was asked; with acks=0 there is no answer to speak of)
                if script["producer"]["req_acks"] == 0:
                    hist["fs:compose:callAccounts-not-applicable-acks0"] += 1
                else:
                    problems.append("environment hypothesis callAccounts fails on the observed outcomes")
            if len(call.reqs) >= 2:
                hist["fs:compose:multi-broker-calls-compared"] += 1
            if call.result[0] == "fail":
                hist["fs:compose:failed-payload-results-compared"] += 1
        if problems:
            bad += 1
            if len(res.disagreements) < 3:
                res.disagreements.append({
                    "component": "producer-compose", "what": "composed model (Afkak/ProducerCompose.lean sendProduce) vs the real KafkaClient: " + "; ".join(problems),
                    "scenario": script, "impl": [want_route, want_res], "model": got, "call": compose_lines(call),
                    "tags": ["fullstack-compose:disagree"]})
    return bad


def replay(ctx, script, pid):
    r = run_script(script, trace=True)
    print("full-stack replay; producer config:", json.dumps(script["producer"]))
    for sid, outs in sorted(r.outcomes.items()):
        print("  send %d (%s key=%r): %s" % (sid, r.sends[sid]["topic"], r.sends[sid]["key"], outs or "UNRESOLVED"))
    for e, parts in produce_requests(r.cluster):
        print("  produce n=%d t=%s broker=%s fate=%s: %s" % (e["n"], e["t"], e["broker"], e.get("fate"),
              [(t, p, len(m)) for t, p, m in parts]))
    fails = check(r, pid)
    if r.tracer is not None and not r.error:
        if r.tracer.skipped:
            print("  boundary trace not replayed to the model:", r.tracer.skipped)
        else:
            from harness.lib import producer_check as K

            mons = [m for m in K.MONITORS[pid] if m != "c19-schedule"]
            _s, tr, d, failed = K.evaluate(pid, [(script, r.tracer)], monitors=mons)[0]
            print("  boundary trace: %d steps replayed to the model" % len(tr.steps))
            if d is not None:
                i, want, got = d
                for st in tr.steps[max(0, i - 8):i]:
                    print("    ", st[0], "|", "; ".join(st[1]), "|", st[2])
                print("  MODEL AND IMPLEMENTATION DISAGREE at boundary step %d: %s" % (i, tr.steps[i][0]))
                print("    impl :", want)
                print("    model:", got)
                fails.append({"what": "boundary trace: model and implementation disagree at step %d" % i, "tags": ["fullstack-trace:disagree"]})
            for m in failed:
                fails.append({"what": "boundary trace: " + K.WHAT.get(m, m), "tags": ["fullstack-trace:" + m]})
            import collections

            from harness import core

            tmp, hist = core.Result(), collections.Counter()
            validate_compose(tmp, pid, [(script, r.tracer)], hist)
            print("  composed client call (sendProduce) vs the real client: %d calls compared" % hist.get("fs:compose:calls-compared", 0))
            for d in tmp.disagreements:
                print("    call:", d["call"])
                fails.append({"what": d["what"], "tags": d["tags"]})
    if r.stuck:
        print("  the batch in flight never resolves:", r.stuck)
    for f in fails:
        print("  FAIL:", f["what"])
    if fails:
        print("VIOLATION property=%s replay=(this file)" % pid)
        return 1
    return 0
