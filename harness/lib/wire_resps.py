"""Response side of the wire checks: generators of well-formed responses / message sets as values of
the grammar (the nested-list shape `spec-enc <kind>` takes), the REAL decoders with canonical
rendering of what they return, and the independent Python encoding through refcodec.

String fields are `bytes` (UTF-8); the generators mostly produce what real brokers send (ASCII topic
and host names, UTF-8 member ids) and sometimes values outside the property's quantifier (non-ASCII
topic, duplicate dict keys, ints out of range) - the monitor classifies those as out-of-range.
"""
from harness.lib.wire_common import drain, exc_name, gen_bytes, gen_int, vr

ERRS = [0, 0, 0, 1, 3, 6, 7, 14, 15, 16, 25, 27, 35, -1, 87, 32767, -32768]


def err(rng):
    return rng.choice(ERRS) if rng.random() < 0.9 else gen_int(rng, 16)


def topic(rng, bad=0.03):
    r = rng.random()
    if r < bad:
        return rng.choice(["tópic".encode(), b"\xff", b""])
    if r < bad + 0.01:
        return b"t" * rng.choice([249, 32767])
    return rng.choice([b"t", b"topic", b"Topic-1", b"a.b_c-9", b"x"]) + str(rng.randrange(0, 6)).encode()


def text(rng, bad=0.03):
    r = rng.random()
    if r < bad:
        return rng.choice([b"\xff\xfe", b"\xed\xa0\x80", b"\xc0\xaf"])
    if r < 0.3:
        return rng.choice(["mémber".encode(), "名前".encode(), "😀".encode(), b""])
    return rng.choice([b"member-", b"consumer", b"range", b"roundrobin", b"afkak-"]) + str(rng.randrange(0, 50)).encode()


def i16(rng):
    return gen_int(rng, 16, p_bad=0.01)


def i32(rng):
    return gen_int(rng, 32, p_bad=0.01)


def i64(rng):
    return gen_int(rng, 64, p_bad=0.01)


def topics_of(rng, mk, max_topics=4, max_parts=5, dup=0.05):
    """[[topic, [partition item]]]; a topic may repeat (the protocol allows it)."""
    out = []
    for _ in range(rng.randrange(0, max_topics + 1)):
        out.append([topic(rng), [mk(rng) for _ in range(rng.randrange(0, max_parts + 1))]])
    if out and rng.random() < dup:
        out.append([out[0][0], [mk(rng)]])
    return out


# --------------------------------------------------------------------------- message sets (values of the grammar)

def spec_msg(rng, magic=None, big=1 << 16):
    magic = rng.choice([0, 1]) if magic is None else magic
    attrs = 0 if rng.random() < 0.85 else rng.choice([8, 16, 32, 64, 128, 24])  # bits outside the codec field
    if rng.random() < 0.03:
        # the other values of the codec field on a message that is not a wrapper: 2 = snappy (not installed:
        # NotImplementedError), 3 = no codec (ProtocolError), 4..7 = bit 2 set (afkak masks with 0x03).  The
        # monitor does not judge these (codec >= 2: out-of-range); model and code must agree.
        attrs = rng.choice([2, 3, 4, 5, 6, 7, 2 | 8, 3 | 16, 4 | 64])
    ts = None
    if magic == 1:
        ts = rng.choice([0, -1, 1500000000000, gen_int(rng, 64, p_bad=0)])
    return [magic, attrs, ts, gen_bytes(rng, big=big), gen_bytes(rng, big=big)]


def plain_entries(rng, max_n=20, magic=None, big=1 << 16, offsets=None):
    n = rng.choice([0, 1, 1, 2, 3, rng.randrange(0, max_n + 1)])
    if offsets is None:
        start = rng.choice([0, 0, 5, 1000, gen_int(rng, 63, signed=False, p_bad=0)])
        step = rng.choice([1, 1, 1, 2, 7])
        offsets = [start + i * step for i in range(n)]
    else:
        offsets = offsets(n)
    return [[o, spec_msg(rng, magic, big)] for o in offsets]


class Tree(object):
    """A message set with compressed wrappers, as a tree: `entries` = [(offset, msg, inner Tree | None)]."""

    def __init__(self, entries):
        self.entries = entries


def gen_tree(rng, depth, big=1 << 16, top=True):
    """A generated message set up to nesting `depth`. Inner offsets follow the protocol: stored absolute
    for a format-0 wrapper, relative (0..n-1) for a format-1 wrapper whose own offset is that of its last
    inner message; sometimes arbitrary (the decoder must apply the rule whatever the numbers are)."""
    entries = []
    n = rng.choice([0, 1, 1, 2, 3, 5]) if top else rng.choice([1, 1, 2, 4])
    next_off = rng.choice([0, 0, 3, 1000, 2 ** 40])
    for _ in range(n):
        if depth > 0 and rng.random() < 0.45:
            magic = rng.choice([0, 1])
            inner = gen_tree(rng, depth - 1, big, top=False)
            k = len(flatten_count(inner))
            style = rng.random()
            if magic == 1:
                # protocol: relative 0..k-1 inside, wrapper carries the last absolute offset
                rel = list(range(len(inner.entries)))
                if style < 0.2:
                    rel = sorted(rng.sample(range(0, 50), len(inner.entries)))
                for e, r in zip(inner.entries, rel):
                    e[0] = r
                woff = next_off + max(k, 1) - 1 if style >= 0.1 else rng.choice([0, 5, next_off])
            else:
                offs = [next_off + i for i in range(len(inner.entries))]
                if style < 0.2:
                    offs = [rng.randrange(0, 1000) for _ in inner.entries]
                for e, o in zip(inner.entries, offs):
                    e[0] = o
                woff = offs[-1] if offs else next_off
            attrs = 1 | rng.choice([0, 0, 0, 16, 32])
            ts = rng.choice([0, 1500000000000]) if magic == 1 else None
            entries.append([woff, [magic, attrs, ts, rng.choice([None, None, b"k"]), None], inner])
            next_off += max(k, 1)
        else:
            entries.append([next_off, spec_msg(rng, big=big), None])
            next_off += rng.choice([1, 1, 2])
    return Tree(entries)


def flatten_count(tree):
    out = []
    for _o, _m, inner in tree.entries:
        out += flatten_count(inner) if inner is not None else [1]
    return out


def tree_levels(tree):
    """Max nesting depth below this set."""
    d = 0
    for _o, _m, inner in tree.entries:
        if inner is not None:
            d = max(d, 1 + tree_levels(inner))
    return d


# --------------------------------------------------------------------------- response values, one generator per kind

def g_produce0(rng):
    return [i32(rng), topics_of(rng, lambda r: [i32(r), err(r), i64(r)])]


def g_produce2(rng):
    return [i32(rng), topics_of(rng, lambda r: [i32(r), err(r), i64(r), i64(r)]), i32(rng)]


def g_offset(rng):
    return [i32(rng), topics_of(rng, lambda r: [i32(r), err(r), [i64(r) for _ in range(r.randrange(0, 4))]])]


def g_metadata(rng):
    nb = rng.choice([0, 1, 3, 3, 5, 2, 12, 40, rng.choice([300, 1024, 1025]) if rng.random() < 0.3 else 7])
    brokers = [[i if rng.random() < 0.9 else i32(rng), rng.choice([b"kafka", b"b", b"10.0.0.", b"host-"]) + str(i % 7).encode(), rng.choice([9092, 0, 65535, i32(rng)])] for i in range(nb)]
    if brokers and rng.random() < 0.03:
        brokers[-1][1] = "hôst".encode()
    if len(brokers) > 1 and rng.random() < 0.05:
        brokers[-1][0] = brokers[0][0]
    tps = []
    for ti in range(rng.randrange(0, 4)):
        parts = []
        for pi in range(rng.randrange(0, 5)):
            reps = [rng.randrange(0, 5) for _ in range(rng.randrange(0, 4))]
            isr = reps[: rng.randrange(0, len(reps) + 1)] if rng.random() < 0.8 else [i32(rng)]
            parts.append([err(rng), pi if rng.random() < 0.9 else i32(rng), rng.choice([-1, 0, 1, 2, i32(rng)]), reps, isr])
        if len(parts) > 1 and rng.random() < 0.05:
            parts[-1][1] = parts[0][1]
        tps.append([err(rng), topic(rng), parts])
    if len(tps) > 1 and rng.random() < 0.05:
        tps[-1][1] = tps[0][1]
    return [i32(rng), brokers, tps]


def g_consumermetadata(rng):
    host = rng.choice([b"kafka1", b"", b"h", "hôst".encode() if rng.random() < 0.1 else b"node"])
    return [i32(rng), err(rng), i32(rng), host, i32(rng)]


def g_offset_commit(rng):
    return [i32(rng), topics_of(rng, lambda r: [i32(r), err(r)])]


def g_offset_fetch(rng):
    return [i32(rng), topics_of(rng, lambda r: [i32(r), i64(r), gen_bytes(r, big=33000, p_big=0.01), err(r)])]


def g_join_group(rng):
    members = [[text(rng), gen_bytes(rng, allow_none=False, big=70000, p_big=0.02)] for _ in range(rng.randrange(0, 4))]
    return [i32(rng), err(rng), i32(rng), text(rng), text(rng), text(rng), members]


def g_sync_group(rng):
    return [i32(rng), err(rng), gen_bytes(rng, allow_none=False, big=70000, p_big=0.02)]


def g_error_only(rng):
    return [i32(rng), err(rng)]


def g_api_versions(rng):
    n = rng.choice([0, 1, 3, 12, 40])
    keys = list(range(n))
    if rng.random() < 0.5:
        rng.shuffle(keys)
    return [i32(rng), err(rng), [[k, rng.choice([0, 0, 1, i16(rng)]), rng.choice([0, 2, 5, 11, i16(rng)])] for k in keys]]


def g_subscription(rng):
    return [i16(rng), [text(rng) for _ in range(rng.randrange(0, 5))], gen_bytes(rng, big=70000, p_big=0.02)]


def g_assignment(rng):
    tps = [[topic(rng), [i32(rng) if rng.random() < 0.2 else rng.randrange(0, 12) for _ in range(rng.randrange(0, 6))]] for _ in range(rng.randrange(0, 4))]
    return [rng.choice([0, 0, 0, 0, 1, -1]), tps, gen_bytes(rng, big=70000, p_big=0.02)]


def g_correlation_id(rng):
    return [i32(rng), bytes(rng.getrandbits(8) for _ in range(rng.randrange(0, 9)))]


SIMPLE = {
    "produce0": g_produce0, "produce2": g_produce2, "offset": g_offset, "metadata": g_metadata,
    "consumermetadata": g_consumermetadata, "offset_commit": g_offset_commit, "offset_fetch": g_offset_fetch,
    "join_group": g_join_group, "sync_group": g_sync_group, "heartbeat": g_error_only, "leave_group": g_error_only,
    "api_versions": g_api_versions, "join_group_protocol_metadata": g_subscription,
    "sync_group_member_assignment": g_assignment, "correlation_id": g_correlation_id,
}

# kind -> (model `dec` api name, extra model args, real decoder)
def decoders():
    from afkak.kafkacodec import KafkaCodec as K

    return {
        "produce0": ("produce", [0], lambda d: K.decode_produce_response(d, 0)),
        "produce2": ("produce", [2], lambda d: K.decode_produce_response(d, 2)),
        "fetch0": ("fetch", [0], lambda d: K.decode_fetch_response(d, 0)),
        "fetch2": ("fetch", [2], lambda d: K.decode_fetch_response(d, 2)),
        "offset": ("offset", [], K.decode_offset_response),
        "metadata": ("metadata", [], K.decode_metadata_response),
        "consumermetadata": ("consumermetadata", [], K.decode_consumermetadata_response),
        "offset_commit": ("offset_commit", [], K.decode_offset_commit_response),
        "offset_fetch": ("offset_fetch", [], K.decode_offset_fetch_response),
        "join_group": ("join_group", [], K.decode_join_group_response),
        "sync_group": ("sync_group", [], K.decode_sync_group_response),
        "heartbeat": ("heartbeat", [], K.decode_heartbeat_response),
        "leave_group": ("leave_group", [], K.decode_leave_group_response),
        "api_versions": ("api_versions", [], K.decode_api_versions_response),
        "join_group_protocol_metadata": ("join_group_protocol_metadata", [], K.decode_join_group_protocol_metadata),
        "sync_group_member_assignment": ("sync_group_member_assignment", [], K.decode_sync_group_member_assignment),
        "correlation_id": ("correlation_id", [], K.get_response_correlation_id),
    }


GENERATOR_KINDS = {"produce0", "produce2", "fetch0", "fetch2", "offset", "offset_commit", "offset_fetch"}

# --------------------------------------------------------------------------- the api_version argument of the two versioned decoders
# decode_produce_response / decode_fetch_response take ANY integer (KafkaClient hands on the broker's
# maximum, e.g. 11, while the request header carries the clamped 2).  A scenario of one of these kinds may
# name the version handed to the REAL decoder and to the model (`"ver"`); without it the kind's own
# version (0 / 2) is used.
VERSIONED = {"produce0": "produce", "produce2": "produce", "fetch0": "fetch", "fetch2": "fetch"}


def pick_version(rng, kind):
    """-> None (the kind's own version) or an api_version: the other versions that select the same layout
    (produce: every v >= 1, fetch: every v >= 2), the ones that select none (fetch 1, negative), and the
    other layout (correspondence only)."""
    if kind not in VERSIONED:
        return None
    r = rng.random()
    if kind == "produce0":
        return None if r < 0.7 else rng.choice([0, -1, -3, -32768, 1, 2, 7])
    if kind == "produce2":
        return None if r < 0.5 else rng.choice([2, 3, 3, 5, 8, 11, 32767, 1, 1, 0, -1])
    if kind == "fetch0":
        return None if r < 0.7 else rng.choice([0, 1, 1, -1, -7, 2, 11])
    return None if r < 0.5 else rng.choice([2, 3, 3, 4, 11, 11, 32767, 1, 0, -2])


def version_judged(kind, ver):
    """Is the decoder's result for the grammar's encoding of a `kind` value, decoded under api_version
    `ver`, judged by the monitor?  Yes when `ver` is a version whose reply layout is `kind`'s: 0 for the
    v0 kinds, any version >= 2 for the v2 kinds (the request goes out as version 2 then).  Version 1 is
    not implemented (C04_reply_v1_not_implemented) and negative versions do not exist: correspondence only."""
    if ver is None or kind not in VERSIONED:
        return True
    return ver == 0 if kind.endswith("0") else ver >= 2


def versioned_decoder(kind, ver):
    """(extra model args, real decoder) for `kind` under api_version `ver`."""
    from afkak.kafkacodec import KafkaCodec as K

    if VERSIONED[kind] == "produce":
        return [ver], (lambda d: K.decode_produce_response(d, ver))
    return [ver], (lambda d: K.decode_fetch_response(d, ver))


# --------------------------------------------------------------------------- canonical rendering of real results

def r_msg(m):
    ts = m.timestamp
    if isinstance(ts, tuple):
        raise TypeError("timestamp is a tuple")  # F1 (repaired): would be a difference in type
    return [m.magic, m.attributes, m.key, m.value, ts]


def r_om(om):
    if type(om).__name__ != "OffsetAndMessage":
        raise TypeError("not an OffsetAndMessage")
    return [om.offset, r_msg(om.message)]


def render_gen(items, ending, f):
    return "gen " + vr([f(x) for x in items]) + " " + ending


def real_decode_line(kind, data, call_fn):
    """The answer line (as the model's `dec` prints it) for the REAL decoder on `data`."""
    try:
        r = call_fn(data)
    except Exception as e:  # noqa: BLE001
        return "error " + exc_name(e)
    try:
        if kind in ("produce0", "produce2"):
            items, end = drain(r)
            return render_gen(items, end, lambda x: [x.topic, x.partition, x.error, x.offset])
        if kind in ("fetch0", "fetch2"):
            items, end = drain(r)
            rows = []
            for x in items:
                ms, mend = drain(x.messages)
                rows.append([x.topic, x.partition, x.error, x.highwaterMark, [r_om(m) for m in ms], mend.encode()])
            return "gen " + vr(rows) + " " + end
        if kind == "offset":
            items, end = drain(r)
            return render_gen(items, end, lambda x: [x.topic, x.partition, x.error, list(x.offsets)])
        if kind == "offset_commit":
            items, end = drain(r)
            return render_gen(items, end, lambda x: [x.topic, x.partition, x.error])
        if kind == "offset_fetch":
            items, end = drain(r)
            return render_gen(items, end, lambda x: [x.topic, x.partition, x.offset, x.metadata, x.error])
        if kind == "metadata":
            brokers, tps = r
            return "ok " + vr([
                [[k, [b.node_id, b.host, b.port]] for k, b in brokers.items()],
                [[k, [t.topic, t.topic_error_code, [[pk, [p.topic, p.partition, p.partition_error_code, p.leader, list(p.replicas), list(p.isr)]] for pk, p in t.partition_metadata.items()]]] for k, t in tps.items()],
            ])
        if kind == "consumermetadata":
            return "ok " + vr([r.error, r.node_id, r.host, r.port])
        if kind == "join_group":
            return "ok " + vr([r.error, r.generation_id, r.group_protocol, r.leader_id, r.member_id, [[m.member_id, m.member_metadata] for m in r.members]])
        if kind == "sync_group":
            return "ok " + vr([r.error, r.member_assignment])
        if kind in ("heartbeat", "leave_group"):
            return "ok " + vr(r.error)
        if kind == "api_versions":
            return "ok " + vr([r.error_code, [[v.api_key, v.min_version, v.max_version] for v in r.api_versions]])
        if kind == "join_group_protocol_metadata":
            return "ok " + vr([r.version, list(r.subscriptions), r.user_data])
        if kind == "sync_group_member_assignment":
            return "ok " + vr([r.version, [[t, list(ps)] for t, ps in r.assignments.items()], r.user_data])
        if kind == "correlation_id":
            return "ok " + vr(r)
    except Exception as e:  # noqa: BLE001 - a result of an unexpected shape is an observation too
        return "unrenderable " + type(e).__name__ + " " + str(e)[:80]
    raise KeyError(kind)


def real_decode_set_line(data):
    from afkak.kafkacodec import KafkaCodec as K

    try:
        items, end = drain(K._decode_message_set_iter(data))
        return "gen " + vr([r_om(m) for m in items]) + " " + end
    except Exception as e:  # noqa: BLE001
        return "unrenderable " + type(e).__name__ + " " + str(e)[:80]


# --------------------------------------------------------------------------- refcodec's encoding of the same value

def _u(b):
    return b.decode("utf-8")


def _att(a):
    return a - 256 if a >= 128 else a


def ref_msgs(entries):
    return [{"offset": o, "magic": m[0], "attributes": _att(m[1]), "timestamp": m[2], "key": m[3], "value": m[4]} for o, m in entries]


def ref_encode(kind, v):
    """refcodec's bytes for the value `v` of `kind`, or None when refcodec has no opinion
    (value outside its domain: non-UTF-8 text, out-of-range ints)."""
    from harness.sim import refcodec as RC

    def tl(ts, mk):
        return [{"topic": _u(t), "partitions": [mk(p) for p in ps]} for t, ps in ts]

    try:
        if kind == "msgset":
            return RC.encode_message_set(ref_msgs(v))
        if kind == "produce0":
            return RC.encode_response(0, 0, v[0], {"topics": tl(v[1], lambda p: {"partition": p[0], "error_code": p[1], "base_offset": p[2]})})
        if kind == "produce2":
            return RC.encode_response(0, 2, v[0], {"topics": tl(v[1], lambda p: {"partition": p[0], "error_code": p[1], "base_offset": p[2], "log_append_time": p[3]}), "throttle_time_ms": v[2]})
        if kind in ("fetch0", "fetch2"):
            tps = v[1] if kind == "fetch0" else v[2]
            body = {"topics": tl(tps, lambda p: {"partition": p[0], "error_code": p[1], "high_watermark": p[2], "record_set": RC.encode_message_set(ref_msgs(p[3]))})}
            if kind == "fetch2":
                body["throttle_time_ms"] = v[1]
            return RC.encode_response(1, 0 if kind == "fetch0" else 2, v[0], body)
        if kind == "offset":
            return RC.encode_response(2, 0, v[0], {"topics": tl(v[1], lambda p: {"partition": p[0], "error_code": p[1], "offsets": p[2]})})
        if kind == "metadata":
            return RC.encode_response(3, 0, v[0], {
                "brokers": [{"node_id": n, "host": _u(h), "port": p} for n, h, p in v[1]],
                "topics": [{"error_code": e, "topic": _u(t), "partitions": [{"error_code": pe, "partition": pi, "leader": ld, "replicas": rp, "isr": isr} for pe, pi, ld, rp, isr in ps]} for e, t, ps in v[2]]})
        if kind == "consumermetadata":
            return RC.encode_response(10, 0, v[0], {"error_code": v[1], "node_id": v[2], "host": _u(v[3]), "port": v[4]})
        if kind == "offset_commit":
            return RC.encode_response(8, 1, v[0], {"topics": tl(v[1], lambda p: {"partition": p[0], "error_code": p[1]})})
        if kind == "offset_fetch":
            return RC.encode_response(9, 1, v[0], {"topics": tl(v[1], lambda p: {"partition": p[0], "offset": p[1], "metadata": None if p[2] is None else _u(p[2]), "error_code": p[3]})})
        if kind == "join_group":
            return RC.encode_response(11, 0, v[0], {"error_code": v[1], "generation_id": v[2], "group_protocol": _u(v[3]), "leader_id": _u(v[4]), "member_id": _u(v[5]),
                                                    "members": [{"member_id": _u(m), "metadata": md} for m, md in v[6]]})
        if kind == "sync_group":
            return RC.encode_response(14, 0, v[0], {"error_code": v[1], "assignment": v[2]})
        if kind == "heartbeat":
            return RC.encode_response(12, 0, v[0], {"error_code": v[1]})
        if kind == "leave_group":
            return RC.encode_response(13, 0, v[0], {"error_code": v[1]})
        if kind == "api_versions":
            return RC.encode_response(18, 0, v[0], {"error_code": v[1], "api_versions": [{"api_key": k, "min_version": lo, "max_version": hi} for k, lo, hi in v[2]]})
        if kind == "join_group_protocol_metadata":
            return RC.encode_subscription(v[0], [_u(t) for t in v[1]], v[2])
        if kind == "sync_group_member_assignment":
            return RC.encode_assignment(v[0], [(_u(t), ps) for t, ps in v[1]], v[2])
    except (RC.CodecError, UnicodeDecodeError, ValueError):
        return None
    return None


REF_API = {"produce0": (0, 0), "produce2": (0, 2), "fetch0": (1, 0), "fetch2": (1, 2), "offset": (2, 0), "metadata": (3, 0),
           "consumermetadata": (10, 0), "offset_commit": (8, 1), "offset_fetch": (9, 1), "join_group": (11, 0), "sync_group": (14, 0),
           "heartbeat": (12, 0), "leave_group": (13, 0), "api_versions": (18, 0)}


def ref_parses(kind, data):
    """refcodec parses `data` strictly as a response / message set of `kind` and re-encodes it to the same bytes.
    -> True / False / None (no refcodec parser for this kind)."""
    from harness.sim import refcodec as RC

    try:
        if kind == "msgset":
            return RC.encode_message_set(RC.decode_message_set(data)) == data
        if kind == "join_group_protocol_metadata":
            d = RC.decode_subscription(data)
            return RC.encode_subscription(d["version"], d["topics"], d["user_data"]) == data
        if kind == "sync_group_member_assignment":
            d = RC.decode_assignment(data)
            return RC.encode_assignment(d["version"], d["partitions"], d["user_data"]) == data
        if kind in REF_API:
            k, ver = REF_API[kind]
            corr, body = RC.parse_response(k, ver, data)
            return RC.encode_response(k, ver, corr, body) == data
    except (RC.CodecError, UnicodeDecodeError, ValueError):
        return False
    return None
