"""Scenario generation for the Producer (scripted environment).  Scenarios are generated ONLINE: the
generator looks at what the real objects have pending (client requests, timers, outstanding sends)
to choose the next event, and records the concrete event list - which is then the whole scenario
(replayable without the generator).  Every choice comes from the `rng` passed in."""
from fractions import Fraction

from harness.lib.producer_drive import RealRun, topic_index

KEYS = [None, None, "", "6b", "6b32", "00ff10", "7a7a7a7a7a"]
PART_LISTS = [[0], [0, 1], [0, 1, 2], [0, 1, 2, 3], [2, 0, 1], [5, 7], [1, 0]]
ERR_CODES = [6, 3, 7, 19, 10, 5, 2, -1, 99, 1]
TOTAL_KINDS = ["lu", "pu", "ua", "cc", "b19", "b6", "tc", "ac1", "o4", "nr"]
FAIL_KINDS = ["tc", "cc", "b7", "ua", "o4"]
DTS = ["1/16", "1/8", "1/4", "1/4", "1/2", "1/2", "1", "1", "2", "5", "30", "120"]

FOCI = ("C01", "C09", "C19")


def gen_cfg(rng, focus):
    batch = rng.random() < (0.8 if focus == "C19" else 0.5)
    if batch:
        n = rng.choice([0, 1, 2, 3, 3, 5, 10, -1]) if rng.random() < 0.85 else 10
        b = rng.choice([0, 0, 1, 16, 50, 200, 32768])
        t = rng.choice([None, "0", "1/2", "1", "1", "2", "30"])
    else:
        n, b, t = rng.choice([(10, 32768, "30"), (1, 1, None), (3, 50, "1")])
    return {
        "acks": rng.choice([1, 1, -1, 0] if focus != "C01" else [1, -1, 0, 0, 1]),
        # (attempt limits up to 25 and intervals up to a minute: the geometric sequence of delays is followed far out)
        "max_attempts": rng.choice([1, 2, 3, 3, 4, 5, 10, 0, 12, 25]) if rng.random() < 0.9 else rng.choice([1, 2]),
        "retry_interval": rng.choice(["1/4", "1/4", "1/2", "1", "0", "1/8", "1/10", "3", "5", "20", "60"]),
        "batch_send": batch, "n": n, "b": b, "t": t,
        "partitioner": "hashed" if rng.random() < 0.25 else "rr",
        "codec": 1 if rng.random() < 0.2 else 0,
        "api_versions": rng.choice([0, 0, 1]),
    }


def gen_msgs(rng):
    r = rng.random()
    if r < 0.02:
        return []
    k = rng.choice([1, 1, 1, 2, 3])
    out = []
    for _ in range(k):
        x = rng.random()
        if x < 0.1:
            out.append(None)
        elif x < 0.2:
            out.append(0)
        elif x < 0.3:
            out.append(rng.randrange(1, 6))
        elif x < 0.9:
            out.append(rng.randrange(6, 60))
        elif x < 0.98:
            out.append(rng.choice([100, 1000, 5000]))
        else:
            out.append(40000)
    return out


def gen_result(rng, payloads, style):
    """A valid result for a produce request with these (topic, part) payloads.
    style: per-scenario bias ("ok", "persist-err", "mixed", "transport")."""
    tps = [(topic_index(p.topic), p.partition) for p in payloads]
    r = rng.random()
    if style["kind"] == "mixed" and r < 0.12 or style["kind"] == "transport" and r < 0.3 or r < 0.04:
        return ["err", rng.choice(TOTAL_KINDS if style["kind"] != "transport" else ["lu", "pu", "ua", "cc"])]
    if r > 0.97:
        return ["none"] if rng.random() < 0.5 else ["resp", []]
    if style.get("acks0"):
        # with acks=0 the client has no responses to report: empty answer, failed payloads, or a failure
        x = rng.random()
        if x < 0.6:
            return ["resp", []]
        fails = [[tp[0], tp[1], rng.choice(FAIL_KINDS), True] for tp in tps if rng.random() < 0.5]
        return ["fail", [], fails] if fails else ["resp", []]
    resps, fails = [], []
    for tp in tps:
        x = rng.random()
        if style["kind"] == "ok":
            what = "ok" if x < 0.9 else "err"
        elif style["kind"] == "persist-err":
            what = "err" if (hash(tp) + style["salt"]) % 3 != 0 else "ok"
            if x < 0.05:
                what = "ok"
        elif style["kind"] == "transport":
            what = "fail" if x < 0.6 else ("ok" if x < 0.9 else "err")
        else:
            what = "ok" if x < 0.45 else ("err" if x < 0.75 else ("fail" if x < 0.95 else "missing"))
        if what == "ok":
            resps.append([tp[0], tp[1], 0, rng.randrange(0, 1000)])
        elif what == "err":
            code = style["code"] if style["kind"] == "persist-err" else rng.choice(ERR_CODES)
            resps.append([tp[0], tp[1], code, -1])
        elif what == "fail":
            if rng.random() < 0.2:
                fails.append([tp[0], tp[1], rng.choice(["b6", "b3", "b8"]), False])  # the suite's mock style
            else:
                fails.append([tp[0], tp[1], rng.choice(FAIL_KINDS), True])
    if fails:
        return ["fail", resps, fails]
    return ["resp", resps]


def cancel_outcomes(rng, real):
    """What the client answers to the cancels `stop()` will issue: the real client's outcomes
    (client_iface.md), plus the mock-style CancelledError, plus 'stays pending'."""
    outs, wipe = {}, False
    for rid, kind, args in real.pending_requests():
        x = rng.random()
        if kind == "meta":
            if x < 0.5:
                outs[str(rid)] = ["ok"]  # succeeds with None
            elif x < 0.7:
                outs[str(rid)] = ["err", "ua"]
            elif x < 0.8:
                outs[str(rid)] = ["err", rng.choice(["tc", "cc", "lu"])]
        else:
            tps = [(topic_index(p.topic), p.partition) for p in args]
            if x < 0.5:
                wipe = True
                outs[str(rid)] = ["fail", [], [[t, p, "tc", True] for t, p in tps]]
            elif x < 0.62 and len(tps) > 1:
                wipe = True
                k = rng.randrange(1, len(tps))
                outs[str(rid)] = ["fail", [[t, p, rng.choice([0, 0, 6]), 7] for t, p in tps[:k]], [[t, p, "tc", True] for t, p in tps[k:]]]
            elif x < 0.75:
                outs[str(rid)] = ["err", rng.choice(["pu", "lu", "ua"])]
            elif x < 0.87:
                outs[str(rid)] = ["err", "tc"]
    return wipe, outs


def gen_raw(rng, ntopics):
    """`send_messages` with arguments of any Python type: mostly one defect at a time, sometimes several (the order of
    the checks decides which error is reported), sometimes none (a tuple instead of a list is fine)"""
    x = rng.random()
    topic = "s2:%d" % rng.randrange(ntopics) if x < 0.8 else rng.choice(["o", "o", "s0:0", "s250:0"])
    x = rng.random()
    key = "N" if x < 0.4 else ("b" + (rng.choice(KEYS[2:]) or "-")) if x < 0.8 else "o"
    x = rng.random()
    if x < 0.2:
        msgs = "F"
    elif x < 0.3:
        msgs = "U"
    else:
        n = rng.choice([1, 1, 2, 3, 4])
        bad = 0.0 if rng.random() < 0.35 else 0.3
        msgs = "S" + ",".join("o" if rng.random() < bad else "n" if rng.random() < 0.15 else str(rng.randrange(0, 40)) for _ in range(n))
    return ["sendraw", topic, key, msgs, rng.randrange(12)]


def threshold_msgs(rng, cfg):
    """messages that by themselves meet the count or the byte threshold of the configuration (a callback that submits
    a threshold's worth: if its batch cannot go out at once - one is in flight - it is due the moment that one resolves)"""
    n, b = cfg["n"], cfg["b"]
    if not cfg["batch_send"]:
        return gen_msgs(rng) or [1]
    if 1 <= n <= 6 and (rng.random() < 0.7 or not 1 <= b <= 200):
        return [rng.randrange(0, 12) for _ in range(n)]
    if 1 <= b <= 200:
        return [b + rng.randrange(0, 8)]
    return gen_msgs(rng)


def gen_hook(rng, ntopics, next_sid, allow_stop, cfg=None):
    """a callback that calls back into the Producer: 1-2 of send_messages / cancel of some send / stop()"""
    hook = []
    for _ in range(rng.choice([1, 1, 2])):
        x = rng.random()
        if x < 0.4:
            msgs = threshold_msgs(rng, cfg) if (cfg is not None and rng.random() < 0.6) else gen_msgs(rng)
            hook.append(["s", rng.randrange(ntopics), rng.choice(KEYS), msgs])
        elif x < 0.75 or not allow_stop:
            hook.append(["c", rng.randrange(next_sid + 1)])
        else:
            hook.append(["x"])
            allow_stop = False
    return hook


def gen_scenario(rng, focus, length=None, cfg=None, hooks=None):
    """hooks: probability that a send gets a re-entrant callback (None: 0.12 in a quarter of the scenarios)"""
    cfg = cfg or gen_cfg(rng, focus)
    real = RealRun(cfg)
    if hooks is None:
        # (C19: more of them - a send made from a callback meets a threshold while its own batch is still "in flight")
        hooks = (0.25 if rng.random() < 0.4 else 0.0) if focus == "C19" else (0.12 if rng.random() < 0.25 else 0.0)
    hook_stop_left = 1
    events = []
    length = length or rng.choice([6, 10, 16, 24, 32, 40])
    ntopics = rng.choice([1, 2, 3])
    style = {"kind": rng.choice(["ok", "persist-err", "mixed", "mixed", "transport"]), "salt": rng.randrange(100),
             "code": rng.choice(ERR_CODES), "acks0": cfg["acks"] == 0}
    meta_good = rng.random() < 0.7
    # SYNCHRONOUS ANSWERS: in a fifth of the scenarios (without re-entrant callbacks) the client answers some produce
    # requests before send_produce_request returns - one by one, or every request of a stretch (a failure known
    # without I/O that repeats until the attempts run out)
    sync = (rng.choice(["some", "some", "runs"]) if rng.random() < 0.2 else None) if not hooks else None
    # … WITH re-entrant callbacks (half of the scenarios that have them): ONE synchronous answer at a time, queued right
    # before a plain send and withdrawn after it if that call made no request - so that it is consumed by a request
    # made in that call, outside any callback, and the sends it fires run their callbacks INSIDE the completion that
    # runs inside _send_batch() (a callback that sends there reaches the thresholds while the batch is "in flight";
    # the completion's re-check must dispatch it).  A synchronous answer consumed inside a callback would split a
    # step in the middle of the callback, which the trace format cannot express.
    sync_h = bool(hooks) and rng.random() < 0.6
    sync_modes = (["none", "empty", "empty", "allfail:cc", "allfail:tc", "err:lu"] if cfg["acks"] == 0 else
                  ["err:lu", "err:lu", "err:ua", "err:pu", "err:cc", "err:b19", "allok", "allok", "allerr:6", "allerr:%d" % style["code"],
                   "allfail:cc", "allfail:b7", "empty", "none"])
    next_sid = 0
    stopped = False
    tail = None
    twins = []

    def emit(ev):
        events.append(ev)
        real.apply(ev)

    if meta_good:
        for t in range(ntopics):
            if rng.random() < 0.85:
                emit(["metaset", t, 0, list(rng.choice(PART_LISTS))])
    w_stop = {"C19": 0.04, "C01": 0.025, "C09": 0.012}[focus]
    w_cancel = {"C19": 0.12, "C01": 0.06, "C09": 0.04}[focus]
    while len(events) < length:
        if getattr(real, "dead", False):
            break  # an exception escaped the implementation: the run ends there (it is an observation of the last step)
        pend = real.pending_requests()
        timers = real.pending_timers()
        if tail is not None:
            tail -= 1
            if tail < 0:
                break
        if sync and not stopped and len(real.client.sync_queue) < 2 and rng.random() < (0.25 if sync == "some" else 0.1):
            mode = rng.choice(sync_modes)
            for _ in range(1 if sync == "some" else rng.choice([2, 3, 4, 6, 11])):
                emit(["syncnext", mode])
        opts = [("send", 0.30 if not stopped else 0.1)]
        if pend:
            opts.append(("complete", 0.45))
        if not stopped:
            opts.append(("stop", w_stop))
        if next_sid:
            opts.append(("cancel", w_cancel))
        if timers or cfg["t"]:
            opts.append(("advance", 0.30 if timers else 0.12))
        opts.append(("meta", 0.05))
        x = rng.random() * sum(w for _o, w in opts)
        for op, w in opts:
            x -= w
            if x < 0:
                break
        if op == "complete":
            rid, kind, args = rng.choice(pend)
            if kind == "meta":
                t = topic_index(args[0])
                y = rng.random()
                if y < 0.6:
                    emit(["metaset", t, 0, list(rng.choice(PART_LISTS))])
                    emit(["metadone", rid, ["ok"]])
                elif y < 0.8:
                    if rng.random() < 0.5:
                        emit(["metaset", t, rng.choice([5, 3, 9]), rng.choice([None, None, [0], []])])
                    emit(["metadone", rid, ["ok"]])
                else:
                    emit(["metadone", rid, ["err", rng.choice(["ua", "ua", "cc", "tc", "o4", "lu"])]])
            else:
                emit(["prodone", rid, gen_result(rng, args, style)])
        elif op == "stop":
            wipe, outs = cancel_outcomes(rng, real)
            emit(["stop", wipe, outs])
            stopped = True
            tail = rng.choice([0, 2, 4, 6])
        elif op == "cancel":
            out = real.outstanding()
            sid = rng.choice(out) if out and rng.random() < 0.8 else rng.randrange(next_sid)
            emit(["cancel", sid])
        elif op == "advance":
            if timers and rng.random() < 0.6:
                # just past the next due timer, on the dyadic grid (keeps the clock's floats exact)
                due = min(t for _tid, t in timers) - real.client.reactor.seconds()
                steps = int(Fraction(due) / Fraction(1, 16)) + 1
                emit(["advance", "%d/16" % max(steps, 1)])
            else:
                emit(["advance", rng.choice(DTS)])
        elif op == "meta":
            t = rng.randrange(ntopics)
            y = rng.random()
            if y < 0.6:
                emit(["metaset", t, 0, list(rng.choice(PART_LISTS))])
            elif y < 0.8:
                emit(["metaset", t, rng.choice([5, 3, 9, 0]), rng.choice([None, [0], [], [1, 2]])])
            elif y < 0.9:
                emit(["metareset", [t]])
            else:
                emit(["metawipe"])
        else:
            if rng.random() < 0.06:
                emit(gen_raw(rng, ntopics))
            elif hooks and rng.random() < hooks:
                hook = gen_hook(rng, ntopics, next_sid, hook_stop_left > 0 and not stopped, cfg)
                if any(a[0] == "x" for a in hook):
                    hook_stop_left -= 1
                emit(["sendh", next_sid, rng.randrange(ntopics), rng.choice(KEYS), gen_msgs(rng), hook])
            elif rng.random() < 0.07:
                # CONTENT-EQUAL sends (same topic, key and message bytes: null / empty values): the Producer must tell
                # them apart by their Deferred, not by value - half of the time the later twin is cancelled at once
                if twins and rng.random() < 0.75:
                    t_, k_, m_ = rng.choice(twins)
                else:
                    t_, k_, m_ = rng.randrange(ntopics), rng.choice(KEYS), rng.choice([[None], [0], [None, 0], [0, 0], [None, None]])
                    twins.append((t_, k_, m_))
                emit(["send", next_sid, t_, k_, list(m_)])
                if rng.random() < 0.5 and not stopped:
                    emit(["cancel", next_sid])
            else:
                use_sync = sync_h and not stopped and not real.client.sync_queue and rng.random() < 0.5
                if use_sync:
                    emit(["syncnext", rng.choice(sync_modes)])
                emit(["send", next_sid, rng.randrange(ntopics), rng.choice(KEYS), gen_msgs(rng)])
                if use_sync and real.client.sync_queue:
                    emit(["syncclear"])
        # sends made by hooks take ids too; a hook may have called stop()
        next_sid = real.next_sid
        if real.producer.stopping and not stopped:
            stopped = True
            tail = rng.choice([0, 2, 4, 6])
    return {"cfg": cfg, "events": events}, real


# ---- shrinking support: make an edited event list applicable again
def normalize(scn):
    """Drop events that are not applicable any more (unknown request / send ids) and renumber
    sends, so that a sub-list of a scenario is again a scenario."""
    real = RealRun(scn["cfg"])
    out, sidmap, nxt = [], {}, 0
    for ev in scn["events"]:
        op = ev[0]
        if op in ("send", "sendh"):
            nxt = real.next_sid
            sidmap[ev[1]] = nxt
            ev = [op, nxt] + list(ev[2:])
            if op == "sendh":
                hook = []
                for a in ev[5]:
                    if a[0] == "c":
                        if a[1] in sidmap:
                            hook.append(["c", sidmap[a[1]]])
                    else:
                        hook.append(a)
                ev = ev[:5] + [hook]
        elif op == "cancel":
            if ev[1] not in sidmap:
                continue
            ev = ["cancel", sidmap[ev[1]]]
        elif op in ("metadone", "prodone"):
            pend = {rid: (kind, args) for rid, kind, args in real.pending_requests()}
            want = "meta" if op == "metadone" else "produce"
            if ev[1] not in pend or pend[ev[1]][0] != want:
                continue
            if op == "prodone":
                tps = {(topic_index(p.topic), p.partition) for p in pend[ev[1]][1]}
                res = ev[2]
                named = [tuple(r[:2]) for r in (res[1] if res[0] in ("resp", "fail") else [])] + \
                        [tuple(f[:2]) for f in (res[2] if res[0] == "fail" else [])]
                if not set(named) <= tps or len(set(named)) != len(named):
                    continue
        elif op == "stop":
            pend = {rid: (kind, args) for rid, kind, args in real.pending_requests()}
            outs = {}
            for rid_s, o in ev[2].items():
                rid = int(rid_s)
                if rid not in pend:
                    continue
                kind, args = pend[rid]
                if kind == "meta" and o[0] in ("ok", "err") and len(o) <= 2 and not (o[0] == "err" and len(o) != 2):
                    if o[0] == "ok" or (o[0] == "err" and isinstance(o[1], str)):
                        outs[rid_s] = o
                elif kind == "produce" and o[0] in ("fail", "err", "resp", "none"):
                    tps = {(topic_index(p.topic), p.partition) for p in args}
                    named = [tuple(r[:2]) for r in (o[1] if o[0] in ("resp", "fail") else [])] + \
                            [tuple(f[:2]) for f in (o[2] if o[0] == "fail" else [])]
                    if set(named) <= tps and len(set(named)) == len(named):
                        outs[rid_s] = o
            ev = ["stop", ev[1], outs]
        try:
            real.apply(ev)
        except Exception:
            return None
        out.append(ev)
    return {"cfg": scn["cfg"], "events": out}, real


def shrink(scn, still_fails, budget=400):
    """ddmin-style: remove chunks of events while `still_fails(scenario)` holds."""
    cur = scn
    n = 2
    tries = 0
    while len(cur["events"]) >= 1 and tries < budget:
        evs = cur["events"]
        chunk = max(1, len(evs) // n)
        removed = False
        for i in range(0, len(evs), chunk):
            cand = {"cfg": cur["cfg"], "events": evs[:i] + evs[i + chunk:]}
            tries += 1
            nz = normalize(cand)
            if nz is None:
                continue
            if still_fails(nz[0]):
                cur = nz[0]
                n = max(n - 1, 2)
                removed = True
                break
        if not removed:
            if chunk == 1:
                break
            n = min(n * 2, len(evs))
    return cur
