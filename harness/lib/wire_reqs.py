"""Request side of the wire checks: type-directed generators of encoder arguments, builders that turn
the generated plain values into afkak's structs and call the REAL `KafkaCodec.encode_*`, and the
independent Python re-encoding through `harness/sim/refcodec.py`.

A generated argument list is plain data (ints, bytes, None, lists) in exactly the shape the model's
`enc <api>` request takes (`harness/lib/wire_common.vr` renders it); text fields are `bytes` holding
the UTF-8 of the Python `str` the real encoder is given.
"""
from harness.lib.wire_common import gen_bytes, gen_client_id, gen_corr, gen_int, gen_str


def _s(b):
    """bytes (UTF-8) -> the Python str handed to afkak; None stays None."""
    return None if b is None else b.decode("utf-8")


def _enc(s):
    return None if s is None else s.encode("utf-8")


# --------------------------------------------------------------------------- messages

def gen_message(rng, magic=None, big=1 << 16, p_bad=0.02):
    magic = rng.choice([0, 1]) if magic is None else magic
    if rng.random() < p_bad:
        magic = rng.choice([2, -1, 255])
    r = rng.random()
    attrs = 0 if r < 0.8 else rng.choice([1, 2, 3, 4, 8, 9, 127, 128, 255, 256, -1])
    ts = None
    if magic == 1 or rng.random() < 0.1:
        ts = rng.choice([None, gen_int(rng, 64), 0, -1, 1500000000000])
    return [magic, attrs, gen_bytes(rng, big=big), gen_bytes(rng, big=big), ts]


def gen_messages(rng, max_n=20, magic=None, big=1 << 16):
    n = rng.choice([0, 1, 1, 2, 3, rng.randrange(0, max_n + 1)])
    if magic is None and rng.random() < 0.7:
        magic = rng.choice([0, 1])  # a homogeneous set, as the producer builds them
    return [gen_message(rng, magic, big=big) for _ in range(n)]


# --------------------------------------------------------------------------- topic / partition payload lists

def gen_topic(rng):
    return _enc(gen_str(rng, text=False, p_big=0.005))


def gen_keys(rng, max_topics=4, max_parts=5):
    """(topic, partition) keys: 0..4 topics x 0..5 partitions, interleaved, sometimes duplicated."""
    nt = rng.randrange(0, max_topics + 1)
    topics = []
    for i in range(nt):
        t = gen_topic(rng)
        topics.append(t if rng.random() < 0.3 else (b"topic%d" % i))
    keys = []
    for t in topics:
        for _ in range(rng.randrange(0, max_parts + 1)):
            keys.append((t, gen_int(rng, 32) if rng.random() < 0.3 else rng.randrange(0, 12)))
    if rng.random() < 0.6:
        rng.shuffle(keys)  # interleave topics
    if keys and rng.random() < 0.15:
        keys.insert(rng.randrange(0, len(keys) + 1), rng.choice(keys))  # duplicate (topic, partition)
    return keys


# --------------------------------------------------------------------------- argument generators, one per encoder

def g_header(rng):
    return [gen_client_id(rng), gen_corr(rng), gen_int(rng, 16), gen_int(rng, 16)]


def g_produce(rng, big=1 << 16):
    ver = rng.choice([0, 0, 1, 2, 2, 3, 8, gen_int(rng, 16)])
    magic = None
    if rng.random() < 0.8:
        magic = 1 if ver >= 2 else 0
    ps = [[t, p, gen_messages(rng, magic=magic, big=big)] for t, p in gen_keys(rng)]
    return [gen_client_id(rng), gen_corr(rng), ps, gen_int(rng, 16), gen_int(rng, 32), ver]


def g_fetch(rng):
    ps = [[t, p, gen_int(rng, 64), gen_int(rng, 32)] for t, p in gen_keys(rng)]
    return [gen_client_id(rng), gen_corr(rng), ps, gen_int(rng, 32), gen_int(rng, 32), rng.choice([0, 0, 1, 2, 2, 3, 11, gen_int(rng, 16)])]


def g_offset(rng):
    ps = [[t, p, rng.choice([-1, -2, gen_int(rng, 64)]), gen_int(rng, 32)] for t, p in gen_keys(rng)]
    return [gen_client_id(rng), gen_corr(rng), ps]


def g_metadata(rng):
    return [gen_client_id(rng), gen_corr(rng), [gen_topic(rng) for _ in range(rng.randrange(0, 6))]]


def g_group(rng, text=False):
    return _enc(gen_str(rng, text=text, p_big=0.005))


def g_consumermetadata(rng):
    return [gen_client_id(rng), gen_corr(rng), g_group(rng)]


def g_offset_commit(rng):
    ps = [[t, p, gen_int(rng, 64), gen_int(rng, 64), _enc_md(rng)] for t, p in gen_keys(rng)]
    consumer = g_group(rng)
    if rng.random() < 0.8 and consumer is None:
        consumer = b""
    return [gen_client_id(rng), gen_corr(rng), g_group(rng), gen_int(rng, 32), consumer, ps]


def _enc_md(rng):
    b = gen_bytes(rng, big=40000, p_big=0.01)
    return b


def g_offset_fetch(rng):
    return [gen_client_id(rng), gen_corr(rng), g_group(rng), [[t, p] for t, p in gen_keys(rng)]]


def g_join_group(rng):
    protos = [[_enc(gen_str(rng, text=False, p_big=0.003)), gen_bytes(rng, big=70000, p_big=0.02)] for _ in range(rng.randrange(0, 4))]
    return [gen_client_id(rng), gen_corr(rng), g_group(rng, True), gen_int(rng, 32), g_group(rng, True), g_group(rng, True), protos]


def g_join_group_protocol_metadata(rng):
    return [gen_int(rng, 16), [_enc(gen_str(rng, text=True, p_big=0.003)) for _ in range(rng.randrange(0, 5))], gen_bytes(rng, big=70000, p_big=0.02)]


def g_leave_group(rng):
    return [gen_client_id(rng), gen_corr(rng), g_group(rng, True), g_group(rng, True)]


def g_heartbeat(rng):
    return [gen_client_id(rng), gen_corr(rng), g_group(rng, True), gen_int(rng, 32), g_group(rng, True)]


def g_sync_group(rng):
    asg = [[g_group(rng, True), gen_bytes(rng, big=70000, p_big=0.02)] for _ in range(rng.randrange(0, 4))]
    return [gen_client_id(rng), gen_corr(rng), g_group(rng, True), gen_int(rng, 32), g_group(rng, True), asg]


def g_sync_group_member_assignment(rng):
    topics, seen = [], set()
    for _ in range(rng.randrange(0, 4)):
        t = gen_topic(rng)
        if t in seen:
            continue  # a dict has no duplicate keys
        seen.add(t)
        topics.append([t, [gen_int(rng, 32) if rng.random() < 0.3 else rng.randrange(0, 9) for _ in range(rng.randrange(0, 6))]])
    return [gen_int(rng, 16), topics, gen_bytes(rng, big=70000, p_big=0.02)]


def g_api_versions(rng):
    return [gen_client_id(rng), gen_corr(rng), rng.choice([18, 18, 18, gen_int(rng, 16)]), rng.choice([0, 0, 0, 1, gen_int(rng, 16)])]


GENERATORS = {
    "header": g_header, "produce": g_produce, "fetch": g_fetch, "offset": g_offset, "metadata": g_metadata,
    "consumermetadata": g_consumermetadata, "offset_commit": g_offset_commit, "offset_fetch": g_offset_fetch,
    "join_group": g_join_group, "join_group_protocol_metadata": g_join_group_protocol_metadata,
    "leave_group": g_leave_group, "heartbeat": g_heartbeat, "sync_group": g_sync_group,
    "sync_group_member_assignment": g_sync_group_member_assignment, "api_versions": g_api_versions,
}
REQUEST_APIS = [a for a in GENERATORS if a != "header"]


# --------------------------------------------------------------------------- calling the real encoders

def mk_message(m):
    from afkak.common import Message

    magic, attrs, key, value, ts = m
    return Message(magic, attrs, key, value, ts)


def real_encode(api, a):
    """Call the REAL encoder of `api` with the generated plain arguments `a`."""
    import afkak.common as C
    from afkak.kafkacodec import KafkaCodec as K

    if api == "header":
        return K._encode_message_header(a[0], a[1], a[2], a[3])
    if api == "produce":
        ps = [C.ProduceRequest(_s(t), p, [mk_message(m) for m in ms]) for t, p, ms in a[2]]
        return K.encode_produce_request(a[0], a[1], ps, a[3], a[4], a[5])
    if api == "fetch":
        ps = [C.FetchRequest(_s(t), p, off, mb) for t, p, off, mb in a[2]]
        return K.encode_fetch_request(a[0], a[1], ps, a[3], a[4], a[5])
    if api == "offset":
        ps = [C.OffsetRequest(_s(t), p, tm, mo) for t, p, tm, mo in a[2]]
        return K.encode_offset_request(a[0], a[1], ps)
    if api == "metadata":
        return K.encode_metadata_request(a[0], a[1], [_s(t) for t in a[2]])
    if api == "consumermetadata":
        return K.encode_consumermetadata_request(a[0], a[1], _s(a[2]))
    if api == "offset_commit":
        ps = [C.OffsetCommitRequest(_s(t), p, off, ts, md) for t, p, off, ts, md in a[5]]
        return K.encode_offset_commit_request(a[0], a[1], _s(a[2]), a[3], _s(a[4]), ps)
    if api == "offset_fetch":
        ps = [C.OffsetFetchRequest(_s(t), p) for t, p in a[3]]
        return K.encode_offset_fetch_request(a[0], a[1], _s(a[2]), ps)
    if api == "join_group":
        protos = [C._JoinGroupRequestProtocol(_s(n), md) for n, md in a[6]]
        return K.encode_join_group_request(a[0], a[1], C._JoinGroupRequest(_s(a[2]), a[3], _s(a[4]), _s(a[5]), protos))
    if api == "join_group_protocol_metadata":
        return K.encode_join_group_protocol_metadata(a[0], [_s(t) for t in a[1]], a[2])
    if api == "leave_group":
        return K.encode_leave_group_request(a[0], a[1], C._LeaveGroupRequest(_s(a[2]), _s(a[3])))
    if api == "heartbeat":
        return K.encode_heartbeat_request(a[0], a[1], C._HeartbeatRequest(_s(a[2]), a[3], _s(a[4])))
    if api == "sync_group":
        asg = [C._SyncGroupRequestMember(_s(m), md) for m, md in a[5]]
        return K.encode_sync_group_request(a[0], a[1], C._SyncGroupRequest(_s(a[2]), a[3], _s(a[4]), asg))
    if api == "sync_group_member_assignment":
        return K.encode_sync_group_member_assignment(a[0], {_s(t): ps for t, ps in a[1]}, a[2])
    if api == "api_versions":
        return K.encode_api_versions_request(a[0], a[1], C.ApiVersionRequest(a[2], a[3]))
    raise KeyError(api)


# --------------------------------------------------------------------------- the Python oracle (refcodec)

def _regroup(items):
    """[(topic, x)] -> [(topic, [x])], topics by first occurrence (what the protocol's nesting needs)."""
    order, by = [], {}
    for t, x in items:
        if t not in by:
            by[t] = []
            order.append(t)
        by[t].append(x)
    return [(t, by[t]) for t in order]


def ref_expected(api, a, now_ms):
    """The request as refcodec would write it for these arguments: (api_key, version, corr, client_id str, body),
    or None when the arguments are outside the protocol's value space (null in a non-nullable field,
    version the client does not implement...); a repeated (topic, partition) is in range (both payloads expected)."""
    from harness.sim import refcodec as RC

    def topic_list(rows, mk):
        keys = [(r[0], r[1]) for r in rows]
        if any(t is None for t, _ in keys):  # a repeated (topic, partition) is a value: both payloads are expected
            return None
        return [{"topic": _s(t), "partitions": ps} for t, ps in _regroup([(r[0], mk(r)) for r in rows])]

    def cid(b):
        return b.decode("utf-8")

    try:
        if api == "produce":
            ver = a[5]
            if ver < 0:
                return None
            ver = min(ver, 2)

            def mk(r):
                msgs = []
                for magic, attrs, key, value, ts in r[2]:
                    if magic not in (0, 1) or not (0 <= attrs <= 255):
                        raise ValueError
                    if magic == 1 and ver < 2:
                        raise ValueError
                    att = attrs - 256 if attrs >= 128 else attrs  # refcodec's attributes are a signed byte
                    msgs.append({"offset": 0, "magic": magic, "attributes": att, "key": key, "value": value,
                                 "timestamp": (now_ms if ts is None else ts) if magic == 1 else None})
                return {"partition": r[1], "record_set": RC.encode_message_set(msgs)}

            tl = topic_list(a[2], mk)
            return None if tl is None else (0, ver, a[1], cid(a[0]), {"acks": a[3], "timeout": a[4], "topics": tl})
        if api == "fetch":
            if a[5] < 0:
                return None
            tl = topic_list(a[2], lambda r: {"partition": r[1], "fetch_offset": r[2], "max_bytes": r[3]})
            return None if tl is None else (1, min(a[5], 2), a[1], cid(a[0]), {"replica_id": -1, "max_wait_time": a[3], "min_bytes": a[4], "topics": tl})
        if api == "offset":
            tl = topic_list(a[2], lambda r: {"partition": r[1], "timestamp": r[2], "max_num_offsets": r[3]})
            return None if tl is None else (2, 0, a[1], cid(a[0]), {"replica_id": -1, "topics": tl})
        if api == "metadata":
            if any(t is None for t in a[2]):
                return None
            return (3, 0, a[1], cid(a[0]), {"topics": [_s(t) for t in a[2]]})
        if api == "consumermetadata":
            return None if a[2] is None else (10, 0, a[1], cid(a[0]), {"group_id": _s(a[2])})
        if api == "offset_commit":
            if a[2] is None or a[4] is None:
                return None
            tl = topic_list(a[5], lambda r: {"partition": r[1], "offset": r[2], "timestamp": r[3], "metadata": None if r[4] is None else r[4].decode("utf-8")})
            if tl is None:
                return None
            return (8, 1, a[1], cid(a[0]), {"group_id": _s(a[2]), "generation_id": a[3], "member_id": _s(a[4]), "topics": tl})
        if api == "offset_fetch":
            if a[2] is None:
                return None
            tl = topic_list(a[3], lambda r: {"partition": r[1]})
            return None if tl is None else (9, 1, a[1], cid(a[0]), {"group_id": _s(a[2]), "topics": tl})
        if api == "join_group":
            if None in (a[2], a[4], a[5]) or any(n is None or md is None for n, md in a[6]):
                return None
            return (11, 0, a[1], cid(a[0]), {"group_id": _s(a[2]), "session_timeout": a[3], "member_id": _s(a[4]), "protocol_type": _s(a[5]),
                                              "group_protocols": [{"name": _s(n), "metadata": md} for n, md in a[6]]})
        if api == "leave_group":
            if None in (a[2], a[3]):
                return None
            return (13, 0, a[1], cid(a[0]), {"group_id": _s(a[2]), "member_id": _s(a[3])})
        if api == "heartbeat":
            if None in (a[2], a[4]):
                return None
            return (12, 0, a[1], cid(a[0]), {"group_id": _s(a[2]), "generation_id": a[3], "member_id": _s(a[4])})
        if api == "sync_group":
            if None in (a[2], a[4]) or any(m is None or md is None for m, md in a[5]):
                return None
            return (14, 0, a[1], cid(a[0]), {"group_id": _s(a[2]), "generation_id": a[3], "member_id": _s(a[4]),
                                              "group_assignment": [{"member_id": _s(m), "assignment": md} for m, md in a[5]]})
        if api == "api_versions":
            return (18, 0, a[1], cid(a[0]), {}) if (a[2], a[3]) == (18, 0) else None
    except (ValueError, UnicodeDecodeError):
        return None
    return None


def ref_encode(api, a, now_ms):
    """refcodec's bytes for these arguments, or None (outside the value space / refcodec refuses them)."""
    from harness.sim import refcodec as RC

    try:
        if api == "join_group_protocol_metadata":
            if any(t is None for t in a[1]):
                return None
            return RC.encode_subscription(a[0], [_s(t) for t in a[1]], a[2])
        if api == "sync_group_member_assignment":
            if any(t is None for t, _ in a[1]):
                return None
            return RC.encode_assignment(a[0], {_s(t): ps for t, ps in a[1]}, a[2])
        e = ref_expected(api, a, now_ms)
        if e is None:
            return None
        return RC.encode_request(*e)
    except (RC.CodecError, UnicodeDecodeError):
        return None


# --------------------------------------------------------------------------- the same request as a value of the Lean grammar

def spec_request(api, a, now_ms):
    """(header V, body V) for `spec-enc-req <api>` / what `spec-dec-req <api>` must give back, built from the
    caller's arguments independently of refcodec's dict; None when the arguments are outside the value space."""
    def regroup(rows, mk):
        keys = [(r[0], r[1]) for r in rows]
        if any(t is None for t, _ in keys):  # a repeated (topic, partition) is a value: both payloads are expected
            return None
        return [[t, ps] for t, ps in _regroup([(r[0], mk(r)) for r in rows])]

    try:
        if api == "produce":
            if a[5] < 0:
                return None
            ver = min(a[5], 2)

            def mk(r):
                es = []
                for magic, attrs, key, value, ts in r[2]:
                    if magic not in (0, 1) or not (0 <= attrs <= 255) or (magic == 1 and ver < 2):
                        raise ValueError
                    es.append([0, [magic, attrs, ((now_ms if ts is None else ts) if magic == 1 else None), key, value]])
                return [r[1], es]

            tl = regroup(a[2], mk)
            return None if tl is None else ([0, ver, a[1], a[0]], [a[3], a[4], tl])
        if api == "fetch":
            if a[5] < 0:
                return None
            tl = regroup(a[2], lambda r: [r[1], r[2], r[3]])
            return None if tl is None else ([1, min(a[5], 2), a[1], a[0]], [-1, a[3], a[4], tl])
        if api == "offset":
            tl = regroup(a[2], lambda r: [r[1], r[2], r[3]])
            return None if tl is None else ([2, 0, a[1], a[0]], [-1, tl])
        if api == "metadata":
            return None if any(t is None for t in a[2]) else ([3, 0, a[1], a[0]], list(a[2]))
        if api == "consumermetadata":
            return None if a[2] is None else ([10, 0, a[1], a[0]], a[2])
        if api == "offset_commit":
            if a[2] is None or a[4] is None:
                return None
            tl = regroup(a[5], lambda r: [r[1], r[2], r[3], r[4]])
            return None if tl is None else ([8, 1, a[1], a[0]], [a[2], a[3], a[4], tl])
        if api == "offset_fetch":
            if a[2] is None:
                return None
            tl = regroup(a[3], lambda r: r[1])
            return None if tl is None else ([9, 1, a[1], a[0]], [a[2], tl])
        if api == "join_group":
            if None in (a[2], a[4], a[5]) or any(n is None or md is None for n, md in a[6]):
                return None
            return ([11, 0, a[1], a[0]], [a[2], a[3], a[4], a[5], [[n, md] for n, md in a[6]]])
        if api == "sync_group":
            if None in (a[2], a[4]) or any(m is None or md is None for m, md in a[5]):
                return None
            return ([14, 0, a[1], a[0]], [a[2], a[3], a[4], [[m, md] for m, md in a[5]]])
        if api == "heartbeat":
            return None if None in (a[2], a[4]) else ([12, 0, a[1], a[0]], [a[2], a[3], a[4]])
        if api == "leave_group":
            return None if None in (a[2], a[3]) else ([13, 0, a[1], a[0]], [a[2], a[3]])
        if api == "api_versions":
            return ([18, 0, a[1], a[0]], []) if (a[2], a[3]) == (18, 0) else None
    except ValueError:
        return None
    return None


SPEC_REQ_APIS = ["produce", "fetch", "offset", "metadata", "consumermetadata", "offset_commit", "offset_fetch",
                 "join_group", "sync_group", "heartbeat", "leave_group", "api_versions"]
