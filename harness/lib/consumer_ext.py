"""Third stage of the consumer checks: application behaviour BEYOND the model's environment.

The model (`lean/Afkak/Consumer.lean`) assumes that the processor calls stop/commit/shutdown (not start) and returns
None, raises, or returns a plain Deferred (one that fires when cancelled).  Here the real Consumer is driven over the
same scripted client with a processor that also
  * calls `start(n)` after `stop()` from inside the processor call (a restart from inside), and
  * returns a Deferred that OUTLIVES its cancellation (its errback turns the CancelledError into a clean-up Deferred
    that fires later, event `cleanupDone`).
There is no model run to compare with: the Lean monitors are evaluated on the implementation's trace only (the
restart from inside is put into the trace as the applied event `start n`, which is how the monitors know a run begins).
Monitors used: the ones whose verdict does not depend on which run an old batch belongs to being modelled -
no overlap, no gap / no duplicate against the scenario's partition log, nothing after stop() returned, the start
Deferred fires at most once per run, one request / one commit outstanding, commits carry the processed offset.
"""
import random

from harness import core
from harness.lib import consumer_corr as CC
from harness.lib import consumer_gen as G

MONITORS = {
    "C02": ["c02-no-overlap", "c02-single-fetch"],
    "C03": ["c03-one-in-flight"],
    "C13": ["c13-quiescent", "c13-fires-once", "c02-no-overlap"],
    "C14": [],
}


def gen_one(rng):
    steps = rng.choice([12, 20, 35])
    g = G.Gen(rng, steps, faithful=True, reentrant=True)
    g.api_scale = 0.6
    g.err_scale = 0.5
    if rng.random() < 0.6:
        # several processor calls per reply, so that a batch can outlive the run it belongs to
        g.cfg.update(group=True, autoN=rng.choice([1, 2]), autoMs=0)
    script = []
    for i, e in enumerate(g.script):
        e = dict(e, acts=list(e["acts"]))
        r = rng.random()
        if r < (0.45 if i < 3 else 0.15):
            e["acts"] = ["stop", "start %d" % rng.choice([0, 3, 17, 50])] + ([rng.choice(["commit", "stop"])] if rng.random() < 0.1 else [])
        elif r < 0.5:
            e["acts"] = ["stop"] if rng.random() < 0.5 else []
        if e["res"] == "defer" and rng.random() < 0.5:
            e["res"] = "survive"
        elif e["res"].startswith("err") and rng.random() < 0.7:
            e["res"] = rng.choice(["ok", "defer", "survive"])
        script.append(e)
    g.script = script
    sc, impl, _run = g.generate()
    sc["profile"] = "beyond-model"
    return sc, impl


def trace_lines(sc, impl):
    out = []
    for l in CC.trace_lines(sc, impl):
        w = l.split()
        if w[:3] == ["tr", "ob", "act"] and w[3] == "start":
            out.append("tr ev start " + w[4])     # a restart from inside the processor: a run begins
        elif w[:3] == ["tr", "ev", "cleanupDone"]:
            continue                               # no item: nothing the monitors know of happens
        else:
            out.append(l)
    return out


def verdicts(pid, scs):
    """-> per scenario: names of the monitors that reject its implementation trace"""
    names = MONITORS[pid]
    lines, spans, metas = [], [], []
    for sc, impl in scs:
        ls = [CC.cfg_line(sc["cfg"])] + trace_lines(sc, impl) + ["mon " + nm for nm in names]
        extra = []
        if sc.get("log") is not None and pid in ("C02", "C13"):
            extra = ["mon-nogap " + sc["log"]]
        ls += extra
        lines += ls
        spans.append(len(ls))
        metas.append(names + (["c02-nogap"] if extra else []))
    out = core.run_model("consumer", lines) if lines else []
    pos, res = 0, []
    for (sc, impl), n_l, nm in zip(scs, spans, metas):
        ans = out[pos:pos + n_l]
        for l, a in zip(lines[pos:pos + n_l], ans):
            if l.startswith("tr ") and a:
                raise core.Undecided("beyond-model trace line not understood by the driver: %r -> %r" % (l, a))
        pos += n_l
        res.append([name for name, a in zip(nm, ans[len(ans) - len(nm):]) if a != ["ok"]])
    return res


def run_stage(ctx, res, pid, n):
    scs = [gen_one(ctx.rng) for _ in range(n)]
    for (sc, impl), bad in zip(scs, verdicts(pid, scs)):
        res.count("beyond-model:runs")
        res.traces_validated += 1
        for name in bad:
            res.count("monitor_failures_seen:beyond-model:" + name)
            if sum(1 for f in res.monitor_failures if f.get("monitor") == "beyond:" + name) < 2:
                res.monitor_failures.append({
                    "what": "beyond the model (restart from inside the processor / processor Deferred that outlives its cancellation): "
                            "monitor %s rejects the implementation trace" % name,
                    "scenario": sc, "impl": impl, "monitor": "beyond:" + name, "tags": ["beyond-model", name]})
    res.extra["beyond_model_runs"] = res.hist.get("beyond-model:runs", 0)


def replay(pid, sc):
    impl = CC.run_impl(sc)
    for ev, obs in zip(sc["events"], impl):
        print("  %-36s impl  %s" % (ev, obs))
    bad = verdicts(pid, [(sc, impl)])[0]
    print("beyond-model monitors on the implementation trace:", "all ok" if not bad else "FAIL " + ",".join(bad))
    return bad
