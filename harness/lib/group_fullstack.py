"""Full-stack stage for C16/C17: 2-3 REAL ConsumerGroup members, each over its own REAL KafkaClient and REAL
partition Consumers, against the simulated Kafka cluster (harness/sim/cluster.py: coordinator with
generations, assignments and an offset store).

Two kinds of checking on every run:

* per member, at the group/client boundary: a recording proxy around the real client (`RecClient`), a
  recording reactor for the group's own delayed calls and a recording Consumer subclass turn what the real
  objects do into the SAME event/observation vocabulary as the scripted environment.  That trace is fed to
  the Lean model (trace validation: observations step by step, inspected state at every quiescent point)
  and to the Lean monitors of C16 and C17.
* end to end, against the coordinator's ground truth (`e2e_*`): every running consumer of a member that is
  in the coordinator's current generation is for a partition the coordinator assigned to that member; no
  partition has running consumers of two members of the same generation; every OffsetCommit on the wire
  carries the generation/member id its consumer was created with; and once faults cease every member that
  was not stopped is a stable member within `STABLE_BOUND` virtual seconds (joins may take up to 35 s).
"""
import random
from fractions import Fraction

from twisted.internet import defer
from twisted.internet.task import LoopingCall

from harness.lib.group_fakeclient import frac, kinds, opt, show_frac

STABLE_BOUND = 200.0
TOPICS = {"t1": 3, "t2": 2}


def kind_of_exc(exc):
    import afkak.common as C

    for k, cls in kinds().items():
        if type(exc) is cls:
            return k
    if isinstance(exc, C.RequestTimedOutError):
        return "requestTimedOut"
    if isinstance(exc, C.KafkaError):
        return "unknownError"  # any other Kafka error takes the table's generic KafkaError row
    return "nonKafka"


class MemberLog(object):
    """The trace of one member in the model's vocabulary."""

    def __init__(self, name, cfg):
        self.name, self.cfg = name, cfg
        self.steps = []  # {"ev":..., "obs":[...], "snap": None|str, "t": float}
        self.members = {"": 0}
        self.now = Fraction(0)
        self.due = {}
        self.group = None
        self.consumers = []
        self.start_d = None
        self.timer_ids = 0
        self.artefact = False
        # A real consumer's shutdown() may complete synchronously, inside the group's loop over its consumers.
        # The model takes every `consumerShutdown` observation of that loop first and the completions as
        # events after it: completions seen during a shutdown() call are held back until the loop is over.
        self.in_shutdown = 0
        self.held_back = []
        self.last_reply = 0.0

    def member_no(self, m):
        if m not in self.members:
            self.members[m] = len(self.members)
        return self.members[m]

    def _advance(self, clock, fire_id=None):
        cand = frac(clock.seconds())
        if fire_id is not None:
            cand = max(cand, self.due.get(fire_id, cand))
        if cand > self.now:
            self.steps.append({"ev": "advance %s" % show_frac(cand - self.now), "obs": [], "snap": None})
            self.now = cand
            self._close_step(clock)

    def _close_step(self, clock):
        """A new event begins while the previous step's call stack may still be open: record what can be
        inspected NOW.  `_rejoin_d` is assigned only when `_join_and_sync()` returns, so inside a reactor
        callback it is not meaningful: such intermediate points are not observable states and `jif` is
        reported as 1 there; the never-idle check is made at every quiescent point (see `flush`)."""
        if self.steps and self.steps[-1]["snap"] is None and self.group is not None:
            sn = self.snap(clock.getDelayedCalls())
            self.steps[-1]["snap"] = sn.replace(" jif=0 ", " jif=1 ")
            self.steps[-1]["quiescent"] = False

    def _release(self):
        held, self.held_back = self.held_back, []
        for clock, ev in held:
            self._close_step(clock)
            self._advance(clock)
            self.steps.append({"ev": ev, "obs": [], "snap": None})

    def event(self, clock, ev, fire_id=None, hold=False):
        if hold and self.in_shutdown:
            self.held_back.append((clock, ev))
            return
        self._release()
        self._close_step(clock)
        self._advance(clock, fire_id)
        self.steps.append({"ev": ev, "obs": [], "snap": None})
        if not ev.startswith("fire"):
            self.last_reply = clock.seconds()  # something other than the member's own timers happened

    def ob(self, o):
        if not (isinstance(o, str) and o.startswith("consumerShutdown")):
            self._release()
        if not self.steps:
            self.steps.append({"ev": "advance 0", "obs": [], "snap": None})
        self.steps[-1]["obs"].append(o)

    def req(self, text):
        """A partition consumer of this member sends a request (fetch / commit): it belongs to the composed trace
        (Afkak.GroupCompose), placed after the group step that is current (a request made inside a group step -
        the first fetch of a consumer being started, the final commit of one being shut down - follows that step)."""
        if self.steps:
            self.steps[-1].setdefault("reqs", []).append(text)

    # ---- inspection at quiescent points
    def snap(self, clock_calls):
        g = self.group
        b = lambda x: "1" if x else "0"  # noqa: E731
        held = set(id(c) for cs in g.consumers.values() for c in cs)
        cons = ",".join(
            "%d:%d:%d:%s:%d:%s:%s:%s" % (c.v_cid, int(c.topic[1:]), c.partition, opt(c.commit_generation_id), self.member_no(c.commit_consumer_id or ""),
                                        c.v_phase, b(id(c) in held), b(c.v_start_d is not None and c.v_start_d.called))
            for c in self.consumers
        ) or "-"
        mine = [dc for dc in clock_calls if getattr(dc, "v_owner", None) is self]
        return "snap started=%s stopping=%s jif=%s needed=%s hb=%s hbif=%s sf=%s jt=%d ht=%d member=%d gen=%s cons=%s" % (
            b(g._start_d is not None), b(g._stopping), b(g._rejoin_d), b(g._rejoin_needed), b(g._heartbeat_looper.running),
            b(g._heartbeat_request_d is not None), b(self.start_d is not None and self.start_d.called),
            sum(1 for dc in mine if dc.v_kind in ("rejoin", "retry")), sum(1 for dc in mine if dc.v_kind == "hb"),
            self.member_no(g.member_id or ""), opt(g.generation_id), cons,
        )

    def flush(self, clock_calls):
        self._release()
        if self.steps and self.steps[-1]["snap"] is None:
            self.steps[-1]["snap"] = self.snap(clock_calls)
            self.steps[-1]["quiescent"] = True


class RecReactor(object):
    """`client.reactor` as the group sees it: the cluster's clock, with the group's delayed calls numbered,
    logged and attributed to the member."""

    def __init__(self, clock, mlog):
        self._clock, self._mlog = clock, mlog

    def seconds(self):
        return self._clock.seconds()

    def callLater(self, delay, func, *a, **kw):
        mlog = self._mlog
        tid = mlog.timer_ids
        mlog.timer_ids += 1

        def fired(*a2, **kw2):
            mlog.event(self._clock, "fire %d" % tid, fire_id=tid)
            step = mlog.steps[-1]
            r = func(*a2, **kw2)
            if isinstance(func, LoopingCall):
                # what `_scheduleFrom` computed (float arithmetic) is an external answer for the model
                nxt = [o for st in mlog.steps[mlog.steps.index(step):] for o in st["obs"] if isinstance(o, list) and isinstance(o[1].func.v_func, LoopingCall)]
                if nxt:
                    step["ev"] = "fire %d %s" % (tid, show_frac(nxt[-1][2]))
            return r

        fired.v_func = func
        dc = self._clock.callLater(delay, fired, *a, **kw)
        dc.v_owner, dc.v_id = mlog, tid
        import sys

        caller = sys._getframe(1).f_code.co_name
        # hb / rejoin / retry are the kinds of delayed call the code (and the model) has; anything else scheduled on the
        # member's reactor is `other` (as in the scripted stage: a disagreement; not part of the monitors' alphabet)
        dc.v_kind = ("hb" if isinstance(func, LoopingCall) else "rejoin" if caller == "rejoin_after_error"
                     else "retry" if caller in ("_get_coordinator_failed", "_get_coordinator_success") else "other")
        orig = dc.canceller

        def canceller(c):
            mlog.ob("cancelTimer %d" % tid)
            orig(c)

        dc.canceller = canceller
        mlog.due[tid] = mlog.now + frac(delay)
        mlog.ob(["setTimer", dc, frac(delay)])
        return dc

    def getDelayedCalls(self):
        return self._clock.getDelayedCalls()


class RecClient(object):
    """Pass-through proxy around the real KafkaClient that records the calls `_group.py` makes and how
    their Deferreds end (as the model's events), BEFORE the group's own callbacks run."""

    def __init__(self, real, mlog, clock):
        self._real, self._mlog, self._clock = real, mlog, clock
        self.reactor = RecReactor(clock, mlog)

    def __getattr__(self, name):
        return getattr(self._real, name)

    def _watch(self, d, name, ok):
        """-> a Deferred for the group.  The real Deferred's outcome is logged as the model's event and then
        handed on; when the GROUP cancels, that is an observation (`cancelReq`) and the real client's
        cancel outcome is delivered inside the same step, as in the model."""
        mlog, clock = self._mlog, self._clock
        kind = {"coordDone": "coord", "metaDone": "meta", "partsDone": "parts", "joinDone": "join", "syncDone": "sync", "hbDone": "hb"}.get(name)
        state = {"cancelled": False}

        def canceller(_):
            state["cancelled"] = True
            if kind is not None:
                mlog.ob("cancelReq %s" % kind)
            d.cancel()

        outer = defer.Deferred(canceller)

        def cb(r):
            if not state["cancelled"]:
                mlog.event(clock, "%s %s" % (name, ok(r)))
            if not outer.called:
                outer.callback(r)

        def eb(f):
            if not state["cancelled"]:
                mlog.event(clock, "%s err:%s" % (name, kind_of_exc(f.value)))
            if not outer.called:
                outer.errback(f)

        d.addCallbacks(cb, eb)
        return outer

    def _get_coordinator_for_group(self, group):
        self._mlog.ob("coordLookup")
        return self._watch(self._real._get_coordinator_for_group(group), "coordDone", lambda r: "ok" if r else "none")

    def load_metadata_for_topics(self, *topics):
        self._mlog.ob("loadMeta")
        return self._watch(self._real.load_metadata_for_topics(*topics), "metaDone", lambda r: "ok")

    def _load_topic_partitions(self, *topics):
        self._mlog.ob("loadParts")
        return self._watch(self._real._load_topic_partitions(*topics), "partsDone", lambda r: "ok")

    def reset_consumer_group_metadata(self, *groups):
        self._mlog.ob("resetGroupMeta")
        return self._real.reset_consumer_group_metadata(*groups)

    def _send_request_to_coordinator(self, group, payload, encoder_fn, decode_fn, **kwargs):
        import afkak.common as C
        from afkak.kafkacodec import KafkaCodec

        mlog = self._mlog
        mno = mlog.member_no
        if isinstance(payload, C._JoinGroupRequest):
            mlog.ob("join %d" % mno(payload.member_id))

            def ok(r):
                return "ok %d %d %d %d" % (mno(r.member_id), r.generation_id, 1 if r.leader_id == r.member_id else 0, len(r.members))

            name = "joinDone"
        elif isinstance(payload, C._SyncGroupRequest):
            mlog.ob("sync %s %d %d" % (opt(payload.generation_id), mno(payload.member_id), len(payload.group_assignment)))

            def ok(r):
                a = KafkaCodec.decode_sync_group_member_assignment(r.member_assignment).assignments
                parts = ["%d:%s" % (int(t[1:]), ",".join(str(p) for p in ps)) for t, ps in a.items() if len(ps)]
                return "ok " + (";".join(parts) or "-")

            name = "syncDone"
        elif isinstance(payload, C._HeartbeatRequest):
            mlog.ob("heartbeat %s %d" % (opt(payload.generation_id), mno(payload.member_id)))
            name, ok = "hbDone", (lambda r: "ok")
        else:
            mlog.ob("leave %d" % mno(payload.member_id))
            name, ok = "leaveDone", (lambda r: "ok")
        return self._watch(self._real._send_request_to_coordinator(group, payload, encoder_fn, decode_fn, **kwargs), name, ok)


class ConClient(object):
    """What a partition consumer gets as its client: the REAL KafkaClient, with the consumer's own requests (fetch,
    offset look-ups, offset commit with the generation / member id it passes) recorded in its member's trace."""

    def __init__(self, real, consumer):
        self._real, self._consumer = real, consumer

    def __getattr__(self, name):
        return getattr(self._real, name)

    def _fetch(self):
        c = self._consumer
        c.v_log.req("fetch %d" % c.v_cid)

    def send_fetch_request(self, *a, **kw):
        self._fetch()
        return self._real.send_fetch_request(*a, **kw)

    def send_offset_request(self, *a, **kw):
        self._fetch()
        return self._real.send_offset_request(*a, **kw)

    def send_offset_fetch_request(self, *a, **kw):
        self._fetch()
        return self._real.send_offset_fetch_request(*a, **kw)

    def send_offset_commit_request(self, group, payloads=None, fail_on_error=True, callback=None, group_generation_id=-1, consumer_id=""):
        c = self._consumer
        c.v_log.req("commit %d %s %d" % (c.v_cid, opt(group_generation_id), c.v_log.member_no(consumer_id or "")))
        return self._real.send_offset_commit_request(group, payloads, fail_on_error=fail_on_error, callback=callback,
                                                     group_generation_id=group_generation_id, consumer_id=consumer_id)


def make_rec_consumer_class():
    from afkak.consumer import Consumer

    class RecConsumer(Consumer):
        def __init__(self, client=None, **kw):
            self.v_log = client._mlog
            self.v_clock = client._clock
            self.v_cid = len(self.v_log.consumers)
            self.v_log.consumers.append(self)
            self.v_phase = "new"
            self.v_start_d = None
            # the consumer talks to the REAL client (its own timers are not the group's); its requests are recorded
            Consumer.__init__(self, client=ConClient(client._real, self), **kw)

        def start(self, offset):
            log = self.v_log
            log.ob("consumerStart %d %d %d %s %d %d" % (self.v_cid, int(self.topic[1:]), self.partition, opt(self.commit_generation_id),
                                                       log.member_no(self.commit_consumer_id or ""), offset))
            self.v_phase = "r"
            # the group's committed position for this partition when the consumer is started (e2e_resume)
            cl = getattr(log, "cluster", None)
            self.v_committed = cl.committed(self.consumer_group, self.topic, self.partition) if cl is not None else None
            self.v_first = None
            d = Consumer.start(self, offset)
            self.v_start_d = d

            def eb(f):
                if self.v_phase != "s":
                    log.event(self.v_clock, "consumerErr %d %s" % (self.v_cid, kind_of_exc(f.value)))
                return f

            d.addErrback(eb)
            return d

        def shutdown(self):
            log = self.v_log
            log.ob("consumerShutdown %d" % self.v_cid)
            self.v_phase = "d"
            log.in_shutdown += 1
            try:
                d = Consumer.shutdown(self)

                def cb(r):
                    if self.v_phase == "d":
                        self.v_phase = "s"
                        log.event(self.v_clock, "consumerDown %d ok" % self.v_cid, hold=True)
                    return r

                def eb(f):
                    if self.v_phase == "d" and not f.check(defer.CancelledError):
                        self.v_phase = "s"
                        log.event(self.v_clock, "consumerDown %d err" % self.v_cid, hold=True)
                    return f

                d.addCallbacks(cb, eb)
            finally:
                log.in_shutdown -= 1
            return d

        def stop(self):
            if self.v_phase in ("r", "d") and not getattr(self, "_v_internal_stop", False):
                import sys

                # only a stop() called by the GROUP is an observation; the consumer also calls stop() itself
                # when its shutdown completes
                caller = sys._getframe(1).f_code.co_name
                if caller in ("stop_consumers", "shutdown_consumers"):
                    self.v_log.ob("consumerStop %d" % self.v_cid)
                    self.v_phase = "s"
            return Consumer.stop(self)

    return RecConsumer


def coordinator_stats(c, sc, logs):
    """What the simulated coordinator went through in this run (measures the generator: evidence histogram)."""
    st = {}
    leader = None
    for e in c.log:
        if e.get("kind") != "group":
            continue
        ev = e["event"]
        if ev in ("session-expired", "member-dropped", "member-left", "state-lost", "rebalance-started"):
            st[ev] = st.get(ev, 0) + 1
        elif ev == "stable":
            st["generations"] = st.get("generations", 0) + 1
            if leader is not None and e.get("leader") is not None and e["leader"] != leader:
                st["leader-changes"] = st.get("leader-changes", 0) + 1
            leader = e.get("leader") or leader
    grown = sc.get("grow")
    if grown:
        base = TOPICS[grown["topic"]]
        st["consumers-on-grown-partitions"] = sum(1 for m in logs for cons in m.consumers if cons.topic == grown["topic"] and cons.partition >= base)
    return st


class FullStackRun(object):
    def __init__(self, seed, scenario):
        self.seed, self.sc = seed, scenario
        self.stats = {}
        self.logs = []
        self.problems = []  # e2e findings: dicts(what, detail, tags)
        self.error = None


def gen_scenario(rng, flavour=None):
    """flavour (None = drawn from rng; the stage passes seed % 4 so that EVERY check has runs of each kind):
    0 plain, 1 commit-in-flight eviction, 2 coordinator outage that comes back, 3 coordinator outage (maybe failing over) on top of whatever else"""
    n = rng.choice([2, 2, 3])
    sc = {
        "members": n,
        "join_window": rng.choice([0.0, 0.0, 3.0, 12.0, 20.0, 25.0]),
        "starts": sorted(round(rng.uniform(0, 20), 1) for _ in range(n)),
        "faults": [],
        "stop": None,
        "appends": sorted(round(rng.uniform(0, 80), 1) for _ in range(rng.randrange(2, 8))),
    }
    tf = rng.choice([0, 20, 40, 60])
    apis = ["JoinGroup", "SyncGroup", "Heartbeat", "GroupCoordinator", "OffsetCommit", "OffsetFetch"]
    codes = [27, 16, 15, 14, 22, 25, 25, 22, 27]
    for _ in range(rng.randrange(0, 6) if tf else 0):
        t0 = round(rng.uniform(0, tf), 1)
        sc["faults"].append({"api": rng.choice(apis), "code": rng.choice(codes), "times": rng.choice([1, 1, 2]), "t_from": t0, "t_to": t0 + rng.choice([5, 15, 30])})
    if rng.random() < 0.25 and tf:
        sc["faults"].append({"silent": "Heartbeat", "times": 1, "t_from": round(rng.uniform(20, tf + 20), 1)})
    if rng.random() < 0.3:
        sc["stop"] = {"member": rng.randrange(n), "t": round(rng.uniform(15, max(20, tf + 10)), 1)}
    # partition-consumer habits: how often they commit; flavour "commit in flight": slow OffsetCommit replies while
    # messages arrive, and an eviction (heartbeat or commit answered IllegalGeneration / UnknownMemberId) meanwhile,
    # so that consumers are hard-stopped with a commit request unanswered
    sc["consumer_kwargs"] = rng.choice([{}, {}, {"auto_commit_every_n": 1}, {"auto_commit_every_ms": 1000}])
    r_commit, r_outage, r_elect, r_of = rng.random(), rng.random(), rng.random(), rng.random()
    # the OffsetFetch of freshly started consumers answered with a transient error (UnknownTopicOrPartition: the
    # coordinator's metadata cache lacks the partition for a moment; or CoordinatorLoadInProgress) right after the
    # rebalance caused by the second member - when the group HAS a committed position for the partition
    if (r_of < 0.3) if flavour is None else (flavour == 0 or r_of < 0.25):
        sc["faults"].append({"api": "OffsetFetch", "code": rng.choice([3, 3, 14]), "times": rng.choice([1, 2, 3]), "t_from": max(0.0, sc["starts"][1] - 0.5), "t_to": sc["starts"][1] + 60})
    if (r_commit < 0.4) if flavour is None else (flavour == 1 or (flavour == 3 and r_commit < 0.3)):
        t0 = round(rng.uniform(sc["starts"][-1] + 5, sc["starts"][-1] + 30), 1)
        sc["consumer_kwargs"] = {"auto_commit_every_n": 1}
        sc["faults"].append({"delay": "OffsetCommit", "seconds": rng.choice([2.0, 4.0, 8.0]), "times": 20, "t_from": t0, "t_to": t0 + 30})
        sc["appends"] = sorted(sc["appends"] + [round(t0 + 1 + 3 * i + rng.random(), 1) for i in range(6)])
        sc["faults"].append({"api": rng.choice(["Heartbeat", "Heartbeat", "OffsetCommit"]), "code": rng.choice([22, 25]), "times": 1, "t_from": t0 + 2, "t_to": t0 + 30})
    # the broker that is the group's coordinator goes down for longer than the client's request timeout and comes
    # back (elect=False: the group stays on it, partitions it led are leaderless meanwhile) or the group fails over
    # to another broker (elect=True); connections drop, connects are refused, queued requests time out
    if (r_outage < 0.3) if flavour is None else flavour in (2, 3):
        t0 = round(rng.uniform(sc["starts"][-1] + 5, sc["starts"][-1] + 40), 1)
        sc["faults"].append({"outage": "coordinator", "elect": (r_elect < 0.4) if flavour != 2 else False, "t_from": t0, "t_to": t0 + rng.choice([15, 25, 40])})
    # the group's coordinator MOVES to another live broker (no connection drops; with lose_state the new one knows no
    # member: everybody is kicked).  The old one answers NOT_COORDINATOR to the heartbeat and to whatever the partition
    # consumers still have on their way to it; commits are answered late and the look-ups that follow take a while, so
    # that several error replies for the group arrive at different instants while a look-up is in flight.
    r_move = rng.random()
    if (r_move < 0.3) if flavour is None else (r_move < (0.7 if flavour in (0, 1) else 0.25)):
        t0 = round(rng.uniform(sc["starts"][-1] + 8, sc["starts"][-1] + 40), 1)
        sc["consumer_kwargs"] = {"auto_commit_every_n": 1}
        sc["faults"].append({"move": "coordinator", "t_from": t0, "pick": rng.randrange(2), "lose_state": rng.random() < 0.25})
        # every consumer has a commit on its way when the coordinator moves and the old coordinator is slow to answer
        # (one request at a time per connection): the heartbeat of the next tick queues between them, so the member sees
        # NOT_COORDINATOR on the heartbeat, starts its rejoin (a slow coordinator look-up) and the other commits' error
        # replies come in while that look-up is in flight
        sc["faults"].append({"delay": "OffsetCommit", "seconds": rng.choice([0.5, 2.0, 3.0, 3.0]), "times": 60, "t_from": t0 - 1, "t_to": t0 + 15})
        sc["faults"].append({"delay": "GroupCoordinator", "seconds": rng.choice([6.0, 8.0, 8.0]), "times": 20, "t_from": t0, "t_to": t0 + 15})
        sc["appends"] = sorted(sc["appends"] + [round(t0 - 2 + 0.4 * i, 1) for i in range(30)])
    # a topic GROWS partitions between generations: the next rebalance (forced by a RebalanceInProgress on a heartbeat
    # a little later) has the leader load the partitions afresh and hand out the new ones; messages arrive on them
    if rng.random() < 0.3:
        tg = round(rng.uniform(sc["starts"][-1] + 5, sc["starts"][-1] + 35), 1)
        sc["grow"] = {"t": tg, "topic": rng.choice(sorted(TOPICS)), "add": rng.choice([1, 2])}
        sc["faults"].append({"api": "Heartbeat", "code": 27, "times": 1, "t_from": tg + 1, "t_to": tg + 30})
    sc["t_quiet"] = max([f.get("t_to", f["t_from"] + 40) for f in sc["faults"]] + [sc["starts"][-1], (sc["stop"] or {"t": 0})["t"]])
    sc["t_end"] = sc["t_quiet"] + STABLE_BOUND
    return sc


def run_fullstack(seed, sc):
    """Execute one scenario. -> FullStackRun with member logs and e2e problems."""
    import afkak._group as G
    from harness.sim import fullstack as F
    from harness.sim.cluster import Cluster

    run = FullStackRun(seed, sc)
    c = Cluster(brokers=3, rng=random.Random(seed))
    for t, n in TOPICS.items():
        c.add_topic(t, partitions=n)
        for p in range(n):
            c.append(t, p, [b"v%d" % i for i in range(3)])
    c.join_window = sc["join_window"]
    rec = F.Recorder(c)
    orig_consumer = G.Consumer
    G.Consumer = make_rec_consumer_class()
    cfg = (1000, 100, 10000, 5000)
    members = []
    try:
        with F.Determinism(c, seed):
            for i in range(sc["members"]):
                mlog = MemberLog("m%d" % i, cfg)
                mlog.cluster = c
                real = F.make_client(c, clientId="c%d" % i)
                proxy = RecClient(real, mlog, c.clock)
                g = G.ConsumerGroup(proxy, "grp", list(TOPICS), make_processor(c), consumer_kwargs=dict(sc.get("consumer_kwargs") or {}))
                mlog.group = g
                # the member runs with the source's DEFAULT back-offs and heartbeat interval: the model gets the same
                mlog.cfg = (g.initial_backoff_ms, g.retry_backoff_ms, g.fatal_backoff_ms, g.heartbeat_interval_ms)
                members.append((g, mlog, real))
                run.logs.append(mlog)
            agenda = [(t, "start", i) for i, t in enumerate(sc["starts"])]
            agenda += [(t, "append", None) for t in sc["appends"]]
            for f in sc["faults"]:
                agenda.append((f["t_from"], "fault", f))
                if "outage" in f:
                    agenda.append((f["t_to"], "heal", f))
            if sc["stop"]:
                agenda.append((sc["stop"]["t"], "stop", sc["stop"]["member"]))
            if sc.get("grow"):
                agenda.append((sc["grow"]["t"], "grow", sc["grow"]))
            nparts = dict(TOPICS)
            agenda.sort(key=lambda a: a[0])
            stopped = set()

            def quiesce():
                calls = c.clock.getDelayedCalls()
                for _, mlog, _ in members:
                    mlog.flush(calls)
                e2e_fencing(run, c, members, stopped)

            def advance_to(t):
                while c.step(limit=t):
                    quiesce()
                if t > c.now():
                    c.clock.advance(t - c.now())
                c.settle()
                quiesce()

            for t, what, arg in agenda:
                advance_to(t)
                if what == "start":
                    g, mlog, _ = members[arg]
                    mlog.event(c.clock, "start")
                    d = g.start()
                    mlog.start_d = d
                    d.addCallbacks(lambda r, m=mlog: m.ob("startFired ok"), lambda f, m=mlog: m.ob("startFired err:" + kind_of_exc(f.value)))
                elif what == "stop":
                    g, mlog, _ = members[arg]
                    if g._start_d is not None and not g._stopping:
                        stopped.add(arg)
                        mlog.event(c.clock, "stop")
                        d = g.stop()
                        d.addCallbacks(lambda r, m=mlog: m.ob("stopFired ok"), lambda f, m=mlog: m.ob("stopFired restop"))
                elif what == "append":
                    for tp, n in sorted(nparts.items()):
                        c.append(tp, random.Random(int(t * 10)).randrange(n), [b"w"])
                elif what == "grow":
                    from harness.sim.cluster import Partition

                    topic = c.topics[arg["topic"]]
                    nodes = list(c.brokers)
                    for k in range(arg["add"]):
                        pid = nparts[arg["topic"]]
                        topic.partitions[pid] = Partition(arg["topic"], pid, nodes[pid % len(nodes)], [nodes[pid % len(nodes)]])
                        nparts[arg["topic"]] = pid + 1
                        c.append(arg["topic"], pid, [b"g0", b"g1"])
                elif what == "heal":
                    if arg.get("node") is not None:
                        c.start_broker(arg["node"])
                elif what == "fault":
                    if "move" in arg:
                        # the group's coordinator moves to another live broker (no connection drops): the old one
                        # answers NOT_COORDINATOR from now on - to the heartbeat AND to whatever the partition
                        # consumers still send it (commits, offset fetches), each reply at its own instant
                        old = c.coordinator_of("grp")
                        others = [n for n in c.alive_ids() if n != old]
                        if others:
                            c.move_coordinator("grp", others[arg.get("pick", 0) % len(others)], lose_state=bool(arg.get("lose_state")))
                    elif "outage" in arg:
                        arg["node"] = c.coordinator_of("grp")
                        if arg["node"] is not None:
                            c.kill_broker(arg["node"], elect=arg["elect"])
                    elif "silent" in arg:
                        c.inject("silent", api=arg["silent"], group=None, times=arg["times"], t_from=arg["t_from"], block=False)
                    elif "delay" in arg:
                        c.inject("delay", api=arg["delay"], times=arg["times"], t_from=arg["t_from"], t_to=arg["t_to"], seconds=arg["seconds"])
                    else:
                        c.inject("error", api=arg["api"], code=arg["code"], times=arg["times"], t_from=arg["t_from"], t_to=arg["t_to"])
                c.settle()
                quiesce()
            advance_to(sc["t_quiet"])
            c.clear_faults()
            advance_to(sc["t_end"])
            e2e_stable(run, c, members, stopped)
            e2e_wedged(run, c, members, stopped)
            e2e_commits(run, c, members)
            e2e_resume(run, c, members)
            for g, mlog, real in members:
                if g._start_d is not None and not g._stopping:
                    mlog.event(c.clock, "stop")
                    g.stop().addCallbacks(lambda r, m=mlog: m.ob("stopFired ok"), lambda f, m=mlog: m.ob("stopFired restop"))
            advance_to(sc["t_end"] + 30)
            run.stats = coordinator_stats(c, sc, run.logs)
            if c.violations:
                run.problems.append({"what": "the simulated brokers could not parse a request strictly", "detail": str(c.violations[:2]), "tags": ["wire-violation"]})
    except Exception as e:  # Livelock etc.: cannot decide this run
        run.error = "%s: %s" % (type(e).__name__, e)
    finally:
        G.Consumer = orig_consumer
        for _, _, real in members:
            try:
                real.close()
            except Exception:
                pass
    return run


def make_processor(cluster):
    """The application's processor: remembers, per partition consumer, the offset of the first message it was handed
    and what the group had committed for the partition at that moment."""

    def processor(consumer, msgs):
        if getattr(consumer, "v_first", "absent") is None and msgs:
            consumer.v_first = msgs[0].offset
            consumer.v_committed_now = cluster.committed(consumer.consumer_group, consumer.topic, consumer.partition)

    return processor


def e2e_resume(run, c, members):
    """Every partition consumer a member started resumed from the group's committed position: the first message its
    processor got is the one after the committed offset (as stored when the consumer was started; a commit that a
    consumer of the previous generation got through meanwhile is accepted too)."""
    for g, mlog, _ in members:
        for cons in mlog.consumers:
            first, com = getattr(cons, "v_first", None), getattr(cons, "v_committed", None)
            if first is None or com is None or com < 0:
                continue
            if first != com + 1 and first != (getattr(cons, "v_committed_now", com) or 0) + 1:
                run.problems.append({"what": "a partition consumer did not start from the group's committed position",
                                     "detail": "%s consumer %d %s/%d (generation %s): the group had committed offset %s when it was started, the first message its processor got has offset %s"
                                               % (mlog.name, cons.v_cid, cons.topic, cons.partition, cons.commit_generation_id, com, first),
                                     "tags": ["e2e-start-not-from-committed"]})


def running_parts(g):
    out = []
    for t, cs in g.consumers.items():
        for cons in cs:
            if cons._start_d is not None and not cons._shuttingdown:
                out.append((t, cons.partition, cons.commit_generation_id, cons.commit_consumer_id))
    return out


def decode_assignment(b):
    from afkak.kafkacodec import KafkaCodec

    if not b:
        return set()
    a = KafkaCodec.decode_sync_group_member_assignment(b).assignments
    return set((t, p) for t, ps in a.items() for p in ps)


def e2e_fencing(run, c, members, stopped):
    """At a quiescent point: consumers of members in the coordinator's CURRENT generation are for assigned
    partitions, carry that generation / member id, and no partition is consumed by two of them."""
    grp = c.group("grp")
    owners = {}
    for i, (g, mlog, _) in enumerate(members):
        for (t, p, gen, mid) in running_parts(g):
            if gen != g.generation_id or mid != g.member_id:
                run.problems.append({"what": "a running consumer carries a generation/member id other than its member's", "detail": "%s %s/%d gen %s member %s vs %s %s at t=%s" % (mlog.name, t, p, gen, mid, g.generation_id, g.member_id, c.now()), "tags": ["e2e-stale-identity"]})
            if grp.state == "Stable" and gen == grp.generation and mid in grp.members:
                if (t, p) not in decode_assignment(grp.members[mid].assignment):
                    run.problems.append({"what": "a running consumer is for a partition the coordinator did not assign to its member in the current generation", "detail": "%s %s/%d gen %s at t=%s" % (mlog.name, t, p, gen, c.now()), "tags": ["e2e-unassigned-partition"]})
                owners.setdefault((t, p), []).append(mlog.name)
    for tp, names in owners.items():
        if len(names) > 1:
            run.problems.append({"what": "two members of the same generation run consumers for one partition", "detail": "%s %s at t=%s" % (tp, names, c.now()), "tags": ["e2e-double-consumer"]})


def e2e_commits(run, c, members):
    """Every OffsetCommit on the wire carries the generation/member id of a consumer that was created with
    exactly that identity for that partition."""
    created = set()
    for g, mlog, _ in members:
        for cons in mlog.consumers:
            created.add((cons.topic, cons.partition, cons.commit_generation_id, cons.commit_consumer_id))
    for r in c.requests(api="OffsetCommit"):
        req = r.get("request") or {}
        for t in req.get("topics", []):
            for p in t["partitions"]:
                if (t["topic"], p["partition"], req.get("generation_id"), req.get("member_id")) not in created:
                    run.problems.append({"what": "an OffsetCommit carries a generation/member id no consumer of that partition was created with", "detail": str(req)[:200], "tags": ["e2e-commit-identity"]})


def e2e_stable(run, c, members, stopped):
    """Once faults cease, every member that was not stopped is a stable member within STABLE_BOUND."""
    grp = c.group("grp")
    for i, (g, mlog, _) in enumerate(members):
        if i in stopped or g._start_d is None:
            continue
        ok = g._state == "[joined]" and not g._rejoin_needed and g._heartbeat_looper.running and grp.state == "Stable" and g.member_id in grp.members and g.generation_id == grp.generation
        if not ok and not (mlog.start_d is not None and mlog.start_d.called):
            run.problems.append({
                "what": "%.0f virtual seconds after the last fault the member is not a stable member" % STABLE_BOUND,
                "detail": "%s state %s rejoin_needed=%s generation %s; coordinator: %s; the member sent %d JoinGroup requests and saw %s" % (
                    mlog.name, g._state, g._rejoin_needed, g.generation_id, grp.snapshot(),
                    sum(1 for s in mlog.steps for o in s["obs"] if isinstance(o, str) and o.startswith("join ")),
                    sorted(set(s["ev"] for s in mlog.steps if " err:" in s["ev"]))),
                "tags": ["e2e-not-stable-after-faults"],
            })


WEDGE_BOUND = 120.0


def e2e_wedged(run, c, members, stopped):
    """'Join in flight' / 'heartbeat in flight' must mean that something is really pending underneath: with faults over
    for STABLE_BOUND virtual seconds, a member whose `_rejoin_d` or `_heartbeat_request_d` is set has had a group event other than
    its own timers (a reply, a consumer event) within the last WEDGE_BOUND seconds - the client's own time-outs are 10 s
    (35 s for a JoinGroup).  Otherwise a call the group made on its client never completed: the member is busy in name
    only (C17 never idle, seen from below the group/client boundary)."""
    for i, (g, mlog, _) in enumerate(members):
        if i in stopped or g._start_d is None or g._stopping:
            continue
        idle_for = c.now() - mlog.last_reply
        if (g._rejoin_d or g._heartbeat_request_d is not None) and idle_for > WEDGE_BOUND:
            last = [o for s in mlog.steps[-40:] for o in s["obs"] if isinstance(o, str) and o.split()[0] in ("coordLookup", "loadMeta", "join", "loadParts", "sync", "heartbeat")]
            run.problems.append({
                "what": "a call the group made on its client has not completed for %.0f virtual seconds although faults ceased %.0f s ago" % (idle_for, STABLE_BOUND),
                "detail": "%s state %s _rejoin_d=%s heartbeat in flight=%s; last group requests: %s; no reply or consumer event has reached the group since t=%.1f" % (
                    mlog.name, g._state, bool(g._rejoin_d), g._heartbeat_request_d is not None, last[-3:], mlog.last_reply),
                "tags": ["e2e-client-call-never-completes"],
            })


def render_steps(mlog):
    """Resolve timer kinds; -> steps with text observations."""
    g = mlog.group
    out = []
    for st in mlog.steps:
        obs = []
        for o in st["obs"]:
            if isinstance(o, list):
                _, dc, delay = o
                obs.append("setTimer %d %s %s" % (dc.v_id, dc.v_kind, show_frac(delay)))
            else:
                obs.append(o)
        out.append({"ev": st["ev"], "obs": obs, "snap": st["snap"], "quiescent": st.get("quiescent", False), "reqs": list(st.get("reqs", []))})
    return out


def _close(a, b):
    try:
        x, y = Fraction(a), Fraction(b)
    except (ValueError, ZeroDivisionError):
        return a == b
    return abs(x - y) <= Fraction(1, 10**5) * max(1, abs(x))


def obs_equal(impl, model):
    if len(impl) != len(model):
        return False
    for a, b in zip(impl, model):
        if a == b:
            continue
        wa, wb = a.split(), b.split()
        if wa[:3] == wb[:3] and wa[0] == "setTimer" and len(wa) == 4 and _close(wa[3], wb[3]):
            continue
        return False
    return True


def check_member(ctx, mlog, pid):
    """Trace validation against the Lean model + the Lean monitors on one member's trace.
    -> (disagreement | None, failing monitor names, steps)"""
    from harness.lib import group_scen as S

    steps = [s for s in render_steps(mlog) if s["snap"] is not None]  # (what client.close() stirs up at the very end is not inspected)
    scn = {"cfg": list(mlog.cfg), "events": [s["ev"] for s in steps]}
    # the COMPOSED trace: after each group event the requests its partition consumers sent before the next one
    # (product model Afkak.GroupCompose: `pev fetch <cid>` / `pev commit <cid>`)
    ml = ["reset " + S.cfg_words(scn["cfg"])]
    pos, rpos = [], []
    for s in steps:
        pos.append(len(ml))
        ml.append("ev " + s["ev"])
        for r in s["reqs"]:
            rpos.append((len(ml), len(pos) - 1, r))
            ml.append("pev " + " ".join(r.split()[:2]))
    full = ctx.model("group", ml)
    ans = [full[0]] + [full[i] for i in pos]
    # at a non-quiescent point (inside a reactor callback: `_rejoin_d` not yet assigned, a LoopingCall mid-call,
    # consumers mid-shutdown; see MemberLog._close_step) the object state is not an observable state: the
    # monitors get the model's snapshot there.  The observations of every step, and the snapshot at every
    # quiescent point, are the implementation's and are compared with the model's below.
    msteps = []
    for i, s in enumerate(steps):
        s2 = dict(s)
        if not s["quiescent"]:
            _, msnap, _ = S.split_model_answer(ans[1 + i])
            if msnap:
                s2["snap"] = msnap
        msteps.append(s2)
    mo = ["mon-reset " + S.cfg_words(scn["cfg"])]
    for s, mobs in zip(msteps, S.monitor_obs(msteps)):
        mo.append("mon-ev " + s["ev"])
        mo += ["mon-ob " + o for o in mobs]
        mo.append("mon-" + s["snap"])
        mo += ["mon-req " + r for r in s["reqs"]]
    mo.append("mon-end " + pid)
    ml = ml[:1] + [ml[i] for i in pos]
    ans = ans + ctx.model("group", mo)
    dis = None
    for i, s in enumerate(steps):
        obs, snap, st = S.split_model_answer(ans[1 + i])
        s["st"] = st  # the (agreeing) model's control state: what the classification of known findings looks at
        if not obs_equal(s["obs"], obs) or (s["quiescent"] and snap != s["snap"]):
            dis = {"component": "group-fullstack", "member": mlog.name, "step": i, "event": s["ev"],
                   "scenario": {"cfg": scn["cfg"], "events": scn["events"][: i + 1]},
                   "impl": {"obs": s["obs"], "snap": s["snap"]}, "model": {"obs": obs, "snap": snap}}
            break
    if dis is None:
        # the product model must let every consumer request through, with the ids the consumer really sent
        for i, si, r in rpos:
            if full[i] != ["req " + r]:
                dis = {"component": "group-fullstack-composed", "member": mlog.name, "step": si, "event": "consumer request after " + steps[si]["ev"],
                       "scenario": {"cfg": scn["cfg"], "events": scn["events"][: si + 1]},
                       "impl": {"obs": [r], "snap": steps[si]["snap"]}, "model": {"obs": full[i], "snap": None}}
                break
    mon = ans[len(ml):]
    bad = [i for i, x in enumerate(mon[:-1]) if x != ["ok"]]
    if bad:
        failing = ["monitor-input-rejected:" + mo[bad[0]]]
    elif mon[-1] == ["ok"]:
        failing = []
    else:
        failing = mon[-1][0].split()[1:] if mon[-1] and mon[-1][0].startswith("fail") else ["monitor-error"]
    return dis, failing, steps, scn
