"""Scripted environment for the real `afkak.consumer.Consumer`: a fake client + a step-wise clock.

`FakeClient` implements exactly the interface `Consumer` uses (`reactor`, `send_fetch_request`,
`send_offset_request`, `send_offset_fetch_request`, `send_offset_commit_request`; plus harmless
`reset_topic_metadata` etc.).  Every `send_*` returns an `inlineCallbacks` Deferred - the same kind of
Deferred the real `KafkaClient` returns - whose completion the SCENARIO decides: any `ClientIface`
result kind at any time.  Cancelling it reproduces the real client's cancel outcomes
(`harness/lib/client_iface.md`): the scenario's current *cancel policy* says whether the cancel makes
the request complete at once with a given failure (in-flight request: `FailedPayloadsError`; resolving
a leader: `PartitionUnavailableError`/`LeaderUnavailableError`; resolving the coordinator: twisted
`CancelledError`) or is eaten (bootstrapping metadata load) so that the request stays pending and
completes later with whatever the scenario says.

`StepClock` is a `twisted.internet.task.Clock` whose time moves without firing anything (`move`) and
whose delayed calls are fired one at a time, by kind, when the scenario says so (`fire`).
"""
from twisted.internet import defer
from twisted.internet.base import DelayedCall
from twisted.internet.task import Clock, LoopingCall
from twisted.python.failure import Failure


class LazyTimerLine(object):
    """Placeholder for the observation `setTimer <kind> <delay>` of a timer whose kind is not known yet."""

    def __init__(self, dc, delay):
        self.dc, self.delay = dc, delay

    def resolve(self, consumer):
        for attr, kind in (("_retry_call", "retry"), ("_commit_call", "commit")):
            if consumer is not None and getattr(consumer, attr, None) is self.dc:
                self.dc.verif_kind = kind
        return "setTimer %s %r" % (self.dc.verif_kind, self.delay)


class StepClock(Clock):
    def __init__(self, log):
        Clock.__init__(self)
        self.log = log  # callable(str)

    @staticmethod
    def kind_of(func):
        if isinstance(func, LoopingCall):
            return "loop"
        name = getattr(func, "__name__", "")
        if name == "_do_fetch":
            return "retry"
        if name == "_send_commit_request":
            return "commit"
        return "other:" + name

    def callLater(self, delay, callable, *args, **kw):
        kind = self.kind_of(callable)

        def cancelled(dc):
            self.log("cancelTimer %s" % dc.verif_kind)
            self.calls.remove(dc)

        dc = DelayedCall(self.seconds() + delay, callable, args, kw, cancelled, lambda c: None, self.seconds)
        dc.verif_kind = kind
        self.calls.append(dc)
        self._sortCalls()
        if kind.startswith("other:"):
            # a callee the harness does not know by name: the timer is named by the attribute of the consumer that
            # holds its handle (`_retry_call`, `_commit_call`), looked up as soon as the caller has stored it - see
            # `consumer_run.Run.log`; a handle stored in neither keeps the name `other:<callee>`
            self.log(LazyTimerLine(dc, float(delay)))
        else:
            self.log("setTimer %s %r" % (kind, float(delay)))
        return dc

    def move(self, dt):
        """Time passes; nothing fires (the scenario fires timers explicitly)."""
        self.rightNow += dt

    def pending(self, kind):
        return [c for c in self.calls if c.verif_kind == kind]

    def due(self, kind):
        """The pending call of that kind if it is due, else None."""
        cs = self.pending(kind)
        if len(cs) != 1:
            return None
        return cs[0] if cs[0].getTime() <= self.seconds() else None

    def fire(self, dc):
        self.calls.remove(dc)
        dc.called = 1
        dc.func(*dc.args, **dc.kw)


class _Eaten(Exception):
    pass


class Req(object):
    def __init__(self, k, kind, args):
        self.k, self.kind, self.args = k, kind, args
        self.inner = None  # Deferred the generator currently waits on
        self.outer = None  # Deferred handed to the Consumer
        self.done = False  # the outer Deferred has delivered its result to the Consumer
        self.cancelled = False
        self.eaten = False


class FakeClient(object):
    """`policy[kind]` for kind in ('req', 'commit'): None = a cancel is eaten (request stays pending), or a
    zero-argument callable returning the exception the cancelled request completes with at once."""

    def __init__(self, log):
        self.log = log
        self.reactor = StepClock(log)
        self.reqs = {}
        self.next_k = 0
        self.policy = {"req": None, "commit": None}
        self.clientId = "verif-fake"

    # -- what Consumer calls
    def send_fetch_request(self, payloads=None, fail_on_error=True, callback=None, max_wait_time=None, min_bytes=None):
        [p] = payloads
        return self._new("fetch", {"offset": p.offset, "max_bytes": p.max_bytes, "topic": p.topic, "partition": p.partition, "max_wait_time": max_wait_time, "min_bytes": min_bytes},
                         "fetch %%d %d %d" % (p.offset, p.max_bytes))

    def send_offset_request(self, payloads=None, fail_on_error=True, callback=None):
        [p] = payloads
        return self._new("offsets", {"time": p.time, "max_offsets": p.max_offsets, "topic": p.topic, "partition": p.partition}, "offsets %%d %d" % p.time)

    def send_offset_fetch_request(self, group, payloads=None, fail_on_error=True, callback=None):
        [p] = payloads
        return self._new("offsetFetch", {"group": group, "topic": p.topic, "partition": p.partition}, "offsetFetch %d")

    def send_offset_commit_request(self, group, payloads=None, fail_on_error=True, callback=None, group_generation_id=-1, consumer_id=""):
        [p] = payloads
        return self._new("commit", {"group": group, "offset": p.offset, "topic": p.topic, "partition": p.partition, "timestamp": p.timestamp, "metadata": p.metadata,
                                    "generation": group_generation_id, "member": consumer_id},
                         "commitReq %%d %d %d %s" % (p.offset, group_generation_id, consumer_id or "-"))

    def reset_topic_metadata(self, *topics):
        pass

    def reset_consumer_group_metadata(self, *groups):
        pass

    # -- machinery
    def _new(self, kind, args, fmt):
        k = self.next_k
        self.next_k += 1
        r = Req(k, kind, args)
        self.reqs[k] = r
        self.log(fmt % k)
        r.outer = self._run(r)
        return r.outer

    def _inner(self, r):
        def canceller(d):
            self.log("cancelReq %d" % r.k)
            r.cancelled = True
            pol = self.policy["commit" if r.kind in ("commit", "offsetFetch") else "req"]
            if pol is None:
                r.eaten = True  # Twisted now errbacks `d` with CancelledError; the generator eats it
            else:
                d.errback(Failure(pol()))

        r.inner = defer.Deferred(canceller)
        return r.inner

    @defer.inlineCallbacks
    def _run(self, r):
        while True:
            try:
                res = yield self._inner(r)
            except defer.CancelledError:
                if r.eaten:
                    r.eaten = False
                    continue  # like the bootstrap loop: the cancel is eaten, the operation goes on
                r.done = True
                raise
            except BaseException:
                r.done = True
                raise
            r.done = True
            return res

    def outstanding(self, k, kind):
        r = self.reqs.get(k)
        return r if (r is not None and not r.done and r.kind == kind) else None

    def complete(self, r, value):
        """value: a list of responses, or an exception instance."""
        if isinstance(value, BaseException):
            r.inner.errback(Failure(value))
        else:
            r.inner.callback(value)
