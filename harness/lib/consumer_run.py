"""Run one consumer scenario on the REAL `afkak.consumer.Consumer` over the scripted environment.

Scenario (also the replay format):
  {"cfg": {...}, "script": [{"acts": [...], "res": "ok" | "defer" | "err:<kind>:<tag>"}, ...], "events": ["start 0", ...]}
Returns one list of observation lines per event (same syntax as the Lean driver prints).
See lean/Driver/Consumer.lean for the line protocol.
"""
import gc
from fractions import Fraction

from twisted.internet import defer, error as terror
from twisted.logger import globalLogBeginner, globalLogPublisher
from twisted.python.failure import Failure

from harness.lib.consumer_fakeclient import FakeClient

_LOG_STARTED = []


def _quiet_twisted_log():
    """Twisted buffers log events (unhandled errors in Deferreds) and dumps them to stderr at exit unless
    logging has begun; we observe them ourselves (`Run.observer`)."""
    if not _LOG_STARTED:
        _LOG_STARTED.append(True)
        try:
            globalLogBeginner.beginLoggingTo([lambda e: None], redirectStandardIO=False, discardBuffer=True)
        except Exception:
            pass


TOPIC = "verif-topic"
PARTITION = 3
GROUP = "verif-group"


def frac(s):
    return Fraction(s)


class Tagged(object):
    """Exception factory: kind -> exception instance carrying `.verif = (kind, tag)`."""

    @staticmethod
    def make(kind, tag):
        import afkak.common as C

        tag = int(tag)
        if kind == "cancelled":
            e = defer.CancelledError()
        elif kind == "outOfRange":
            e = C.OffsetOutOfRangeError("verif")
        elif kind == "kafka":
            classes = [C.FailedPayloadsError, C.LeaderUnavailableError, C.PartitionUnavailableError, C.KafkaUnavailableError, C.RequestTimedOutError,
                       C.UnknownTopicOrPartitionError, C.NotLeaderForPartitionError, C.CoordinatorNotAvailable, C.NotCoordinator, C.CoordinatorLoadInProgress,
                       C.ChecksumError, C.ClientError, C.CancelledError]
            cls = classes[tag % len(classes)]
            e = cls([], []) if cls is C.FailedPayloadsError else cls("verif")
        elif kind == "groupFatal":
            classes = [C.IllegalGeneration, C.InvalidGroupId, C.UnknownMemberId]
            e = classes[tag % 3]("verif")
        elif kind == "other":
            classes = [ValueError, RuntimeError, KeyError, C.BufferUnderflowError if not issubclass(C.BufferUnderflowError, C.KafkaError) else ZeroDivisionError]
            e = classes[tag % len(classes)]("verif")
        else:
            raise ValueError("unknown error kind " + kind)
        e.verif = (kind, tag)
        return e


def canon_failure(f):
    """Failure / exception -> the model's `Fail` syntax."""
    import afkak.common as C

    v = f.value if isinstance(f, Failure) else f
    tagged = getattr(v, "verif", None)
    if tagged is not None:
        return "ext:%s:%d" % tagged
    if isinstance(v, C.OperationInProgress):
        return "opInProgress"
    if isinstance(v, C.ConsumerFetchSizeTooSmall):
        return "tooSmall"
    if isinstance(v, C.InvalidConsumerGroupError):
        return "invalidGroup"
    if isinstance(v, C.RestopError):
        return "restop"
    if isinstance(v, C.RestartError):
        return "restart"
    if isinstance(v, defer.CancelledError):
        return "ext:cancelled:0"  # produced by Deferred.cancel() itself
    if type(v) is C.KafkaError and "has no entry for" in str(v):
        return "ext:kafka:0"  # an OffsetCommit reply without an entry for the partition (event `commitDone k empty`): a failed attempt
    return "unexpected:%s" % type(v).__name__


def opt(v):
    return "none" if v is None else str(v)


CRASH_TYPES = (AttributeError, defer.AlreadyCalledError, terror.AlreadyCalled, terror.AlreadyCancelled, AssertionError, TypeError, NameError, IndexError, KeyError)


class MsgIter(object):
    """What `FetchResponse.messages` is in the real client: an iterator that may raise part-way."""

    def __init__(self, items, tail):
        self.items, self.tail = list(items), tail

    def __iter__(self):
        import afkak.common as C

        for off, pid in self.items:
            yield C.OffsetAndMessage(off, C.Message(0, 0, b"k%d" % pid, b"v%d" % pid))
        if self.tail == "small":
            raise C.ConsumerFetchSizeTooSmall()
        if self.tail.startswith("raise:"):
            _, kind, tag = self.tail.split(":")
            raise Tagged.make(kind, tag)


class Run(object):
    def __init__(self, scenario):
        from afkak.consumer import Consumer

        self.sc = scenario
        self.cur = []  # observations of the current event
        self.script = list(scenario.get("script", []))
        self.in_action = False
        self.procd = None
        self.n_commit = 0
        self.n_waiter = 0
        self.n_shutdown = 0
        self.crashed = False
        self.unhandled = []
        self.internal_errors = []  # exceptions swallowed by Deferreds / the reactor (diagnostic only, not compared)
        cfg = scenario["cfg"]
        self.client = FakeClient(self.log)
        self.clock = self.client.reactor
        kw = dict(
            buffer_size=cfg["buf"],
            max_buffer_size=cfg.get("max"),
            request_retry_init_delay=float(frac(cfg["init"])),
            request_retry_max_delay=float(frac(cfg["maxd"])),
            request_retry_max_attempts=cfg["attempts"],
            auto_offset_reset=cfg.get("reset"),
            commit_generation_id=cfg.get("gen", -1),
            commit_consumer_id=cfg.get("member", ""),
        )
        if cfg["group"]:
            kw.update(consumer_group=GROUP, auto_commit_every_n=cfg["autoN"], auto_commit_every_ms=cfg["autoMs"])
        self.consumer = Consumer(self.client, TOPIC, PARTITION, self.processor, **kw)
        self.set_env(cfg.get("cancelReq", "-"), cfg.get("cancelCommit", "-"))

    # ---- logging
    def log(self, line):
        self.resolve_timers()
        self.cur.append(line)

    def resolve_timers(self):
        """Name the timers set by a callee the clock does not know (`consumer_fakeclient.LazyTimerLine`): by now the
        caller of `callLater` has stored the handle."""
        from harness.lib.consumer_fakeclient import LazyTimerLine

        for i, l in enumerate(self.cur):
            if isinstance(l, LazyTimerLine):
                self.cur[i] = l.resolve(getattr(self, "consumer", None))

    def observer(self, event):
        f = event.get("log_failure")
        if f is not None:
            self.unhandled.append(f)

    # ---- environment
    def set_env(self, rq, cm):
        """rq: cancel outcome of leader-routed requests (fetch, offsets); cm: of coordinator-routed ones (commit, offset fetch)."""
        def pol(s):
            if s == "-":
                return None
            kind, tag = s.split(":")
            return lambda: Tagged.make(kind, tag)

        self.client.policy["req"] = pol(rq)
        self.client.policy["commit"] = pol(cm)

    def processor(self, consumer, msgs):
        assert consumer is self.consumer
        items = []
        for m in msgs:
            assert m.topic == TOPIC and m.partition == PARTITION
            pid = int(m.message.value[1:])
            assert m.message.key == b"k%d" % pid
            items.append("%d:%d" % (m.offset, pid))
        self.log("proc " + ",".join(items))
        entry = self.script.pop(0) if self.script else {"acts": [], "res": "ok"}
        if not self.in_action:
            for a in entry["acts"]:
                self.in_action = True
                self.log("act " + a)
                try:
                    self.api(a)
                finally:
                    self.in_action = False
        res = entry["res"]
        if res == "ok":
            self.log("procRet ok")
            return None
        if res == "defer":
            self.log("procRet defer")
            self.procd = defer.Deferred(lambda d: self.log("procCancel"))
            return self.procd
        if res == "fired":
            # a Deferred that has already fired with its result: for the consumer the same as a plain return value
            self.log("procRet ok")
            return defer.succeed(None)
        if res == "paused":
            # a Deferred that has ALREADY FIRED but whose callback chain is paused on a still-pending inner Deferred
            # (`succeed(msgs).addCallback(slow_write)`): `.called` is true, the result is not there yet - for the consumer
            # (and the model: `defer`) a pending result; `procDone` fires the inner Deferred, cancelling the outer one
            # cancels the inner one
            self.log("procRet defer")
            self.procd = inner = defer.Deferred(lambda d: self.log("procCancel"))
            d = defer.succeed(None)
            d.addCallback(lambda _: inner)
            return d
        if res.startswith("failed:"):
            # a Deferred that has already failed: the same as raising
            _, kind, tag = res.split(":")
            self.log("procRet err:%s:%s" % (kind, tag))
            return defer.fail(Tagged.make(kind, tag))
        if res == "survive":
            # (beyond the model) a Deferred that outlives its cancellation: its own errback turns the CancelledError
            # into a clean-up Deferred that fires later (event `cleanupDone`)
            self.log("procRet defer")
            self.procd = d = defer.Deferred(lambda d: self.log("procCancel"))

            def cleanup(f):
                f.trap(defer.CancelledError)
                self.cleanupd = defer.Deferred()
                return self.cleanupd

            d.addErrback(cleanup)
            return d
        _, kind, tag = res.split(":")
        self.log("procRet err:%s:%s" % (kind, tag))
        raise Tagged.make(kind, tag)

    # ---- API calls (top level or from inside the processor)
    def api(self, name):
        c = self.consumer
        if name.startswith("start"):
            off = int(name.split()[1])
            try:
                d = c.start(off)
            except Exception as e:
                self.api_raised(e)
                return
            d.addCallbacks(lambda v: self.log("startFired ok %s" % opt(v)), lambda f: self.log("startFired err %s" % canon_failure(f)))
        elif name == "stop":
            try:
                v = c.stop()
            except Exception as e:
                self.api_raised(e)
                return
            self.log("stopReturned %s" % opt(v))
        elif name == "shutdown":
            try:
                d = c.shutdown()
            except Exception as e:
                self.api_raised(e)
                return
            if d.called and isinstance(d.result, Failure) and d.result.check(_restop()):
                d.addErrback(lambda f: None)
                self.log("shutdownRejected")
                return
            d.addCallbacks(lambda v: self.log("shutdownFired ok %s" % opt(v)), lambda f: self.log("shutdownFired err %s" % canon_failure(f)))
        elif name == "commit":
            n = self.n_commit
            self.n_commit += 1
            try:
                d = c.commit()
            except Exception as e:
                self.api_raised(e)
                return

            def eb(f, n=n):
                import afkak.common as C

                if f.check(C.OperationInProgress) and f.value.deferred is not None:
                    w = self.n_waiter
                    self.n_waiter += 1
                    self.log("commitFired %d err opInProgress:%d" % (n, w))
                    f.value.deferred.addCallbacks(lambda v: self.log("waiterFired %d ok %s" % (w, opt(v))), lambda f2: self.log("waiterFired %d err %s" % (w, canon_failure(f2))))
                else:
                    self.log("commitFired %d err %s" % (n, canon_failure(f)))

            d.addCallbacks(lambda v, n=n: self.log("commitFired %d ok %s" % (n, opt(v))), eb)
        else:
            raise ValueError("unknown api call " + name)

    def api_raised(self, e):
        import afkak.common as C

        if isinstance(e, C.RestartError):
            self.log("raised restart")
        elif isinstance(e, C.RestopError):
            self.log("raised restop")
        else:
            self.log("crash %s" % type(e).__name__)
            self.crashed = True

    # ---- events
    def apply(self, ev):
        """Apply one event; returns False when the environment does not enable it (bad-op)."""
        import afkak.common as C

        w = ev.split()
        op = w[0]
        cl = self.client
        if op in ("start", "stop", "shutdown", "commit"):
            self.api(ev)
            return True
        if op == "env":
            self.set_env(w[1], w[2])
            return True
        if op == "advance":
            dt = frac(w[1])
            if dt < 0:
                return False
            self.clock.move(float(dt))
            return True
        if op in ("retryFire", "commitRetryFire", "autoCommitTick"):
            dc = self.clock.due({"retryFire": "retry", "commitRetryFire": "commit", "autoCommitTick": "loop"}[op])
            if dc is None:
                return False
            try:
                self.clock.fire(dc)
            except Exception as e:
                # the reactor logs an exception escaping a delayed call and carries on
                self.internal_errors.append(type(e).__name__)
            return True
        if op == "cleanupDone":
            d = getattr(self, "cleanupd", None)
            if d is None or d.called:
                return False
            self.cleanupd = None
            d.callback(None)
            return True
        if op == "procDone":
            d = self.procd
            if d is None or d.called:
                return False
            self.procd = None
            if w[1] == "ok":
                d.callback(None)
            else:
                kind, tag = w[2].split(":")
                d.errback(Failure(Tagged.make(kind, tag)))
            return True
        kinds = {"fetchDone": "fetch", "offsetDone": "offsets", "offsetFetchDone": "offsetFetch", "commitDone": "commit"}
        if op in kinds:
            r = cl.outstanding(int(w[1]), kinds[op])
            if r is None:
                return False
            # the late result of a request the consumer cancelled in stop() (the client swallowed the cancel):
            # the run that issued it is over, the consumer drops it - for the model the event is not enabled
            stale = r.cancelled
            if w[2] == "empty":
                if op != "commitDone":
                    return False
                cl.complete(r, [])  # the broker's reply carries no entry for the partition: acknowledges nothing
            elif w[2] == "err":
                kind, tag = w[3].split(":")
                cl.complete(r, Tagged.make(kind, tag))
            elif op == "fetchDone":
                items = [] if w[3] == "-" else [tuple(int(x) for x in it.split(":")) for it in w[3].split(",")]
                resp = C.FetchResponse(TOPIC, PARTITION, 0, 0, MsgIter(items, w[4]))
                extra = [C.FetchResponse(TOPIC, PARTITION + 1, 0, 0, MsgIter([(10 ** 6, 0)], "end"))] if len(w) > 5 and w[5] == "foreign" else []
                cl.complete(r, extra + [resp])
            elif op == "offsetDone":
                cl.complete(r, [C.OffsetResponse(TOPIC, PARTITION, 0, [int(w[3])])])
            elif op == "offsetFetchDone":
                cl.complete(r, [C.OffsetFetchResponse(TOPIC, PARTITION, int(w[3]), b"", 0)])
            else:
                cl.complete(r, [C.OffsetCommitResponse(TOPIC, PARTITION, 0)])
            return "stale" if stale else True
        raise ValueError("unknown event " + ev)

    def begin(self):
        _quiet_twisted_log()
        globalLogPublisher.addObserver(self.observer)

    def end(self):
        for f in self.unhandled:
            if f.check(*CRASH_TYPES) and not getattr(f.value, "verif", None):
                self.internal_errors.append(f.type.__name__)
        self.unhandled = []
        globalLogPublisher.removeObserver(self.observer)

    def step(self, ev):
        """Apply one event; returns its observation lines (`["bad-op"]` when not enabled)."""
        self.cur = []
        if self.crashed:
            return ["bad-op"]
        try:
            ok = self.apply(ev)
        except Exception as e:  # an exception escaping an event the harness fired: a crash of the consumer
            ok = True
            self.log("crash %s" % type(e).__name__)
            self.crashed = True
        self.resolve_timers()
        if not ok:
            return ["bad-op"]
        if ok == "stale" and not self.cur and not self.crashed:
            return ["bad-op"]  # dropped without a trace, as the model says (anything else is reported and disagrees)
        if not self.crashed:
            c = self.consumer
            self.log("probe %s %s" % (opt(c.last_processed_offset), opt(c.last_committed_offset)))
        self.resolve_timers()
        return self.cur

    def run(self):
        self.begin()
        try:
            return [self.step(ev) for ev in self.sc["events"]]
        finally:
            self.end()

    def leftovers(self):
        """What is still alive in the environment (for C13: nothing may remain after stop)."""
        return {
            "timers": sorted(c.verif_kind for c in self.clock.calls),
            "requests": sorted((r.kind, r.k, r.cancelled) for r in self.client.reqs.values() if not r.done),
        }


def _restop():
    import afkak.common as C

    return C.RestopError


def run_scenario(scenario):
    r = Run(scenario)
    return r.run()
