"""Scenario generation/execution for the client-layer network checks (C07 C08 C11 C20).

A scenario is `{"cfg": {...}, "cmds": [...]}`; commands are generated ONLINE (the generator looks at
what is pending in the simulated network) from one rng and recorded, so that executing the recorded
list on a fresh `Sim` replays the run exactly (indices are taken modulo what is available).
"""
from fractions import Fraction

from harness.lib import client_common as CC
from harness.lib import client_wire as W
from harness.lib.client_sim import GARBAGE, Sim, commit_tag, rat

APIS = ["produce", "fetch", "offset"]
GROUP_APIS = ["commit", "ofetch"]
SEND_ERRS = [0, 0, 0, 0, 0, 0, 6, 3, 19, 7, 1, 10, 14, 15, 16]


class Cluster(object):
    """what the simulated brokers believe (used for honest replies)"""

    def __init__(self, rng):
        n = rng.randrange(1, 6)
        ids = rng.sample(range(1, 8), n)
        self.brokers = {i: ("h%d" % i, 9092) for i in ids}
        self.topics = {}
        for t in rng.sample(CC.TOPICS, rng.randrange(1, 4)):
            self.topics[t] = {p: (rng.choice(ids) if rng.random() > 0.1 else -1) for p in rng.sample(range(0, 6), rng.randrange(1, 6))}
        self.groups = {g: rng.choice(ids) for g in CC.GROUPS}

    def mutate(self, rng):
        r = rng.random()
        ids = sorted(self.brokers)
        if r < 0.35 and self.topics:
            t = rng.choice(sorted(self.topics))
            p = rng.choice(sorted(self.topics[t]))
            self.topics[t][p] = rng.choice(ids + [-1])
            return "leader-move"
        if r < 0.55:
            i = rng.choice(ids)
            self.brokers[i] = (self.brokers[i][0] + "x", rng.choice([9092, 9093]))
            return "re-address"
        if r < 0.70 and len(ids) > 1:
            i = rng.choice(ids)
            del self.brokers[i]
            rest = sorted(self.brokers)
            for t in self.topics:
                for p in self.topics[t]:
                    if self.topics[t][p] == i:
                        self.topics[t][p] = rng.choice(rest + [-1])
            for g in self.groups:
                if self.groups[g] == i:
                    self.groups[g] = rng.choice(rest)
            return "remove-broker"
        if r < 0.85 and len(ids) < 5:
            i = rng.choice([x for x in range(1, 8) if x not in ids])
            self.brokers[i] = ("h%d" % i, 9092)
            return "add-broker"
        t = rng.choice(CC.TOPICS)
        if t in self.topics and rng.random() < 0.5:
            del self.topics[t]
            return "drop-topic"
        self.topics[t] = {p: rng.choice(ids) for p in rng.sample(range(0, 6), rng.randrange(1, 5))}
        return "new-topic"

    def metadata_for(self, rng, asked):
        brokers = [(i, h, p) for i, (h, p) in sorted(self.brokers.items())]
        rng.shuffle(brokers)
        names = list(asked) if asked else sorted(self.topics)
        topics = []
        for t in names:
            if t in self.topics:
                parts = [(0, p, l) for p, l in self.topics[t].items()]
                rng.shuffle(parts)
                topics.append((t, 0, parts))
            else:
                topics.append((t, rng.choice([3, 5]), []))
        return brokers, topics


def gen_keys(rng, cluster, dup_ok=True):
    pool = []
    for t, ps in cluster.topics.items():
        pool += [(t, p) for p in ps]
    pool += [(rng.choice(CC.TOPICS), rng.randrange(0, 7)) for _ in range(2)]  # maybe unknown
    n = rng.choice([1, 1, 2, 2, 3, 4, 5, 7])
    keys = [rng.choice(pool) for _ in range(n)] if dup_ok and rng.random() < 0.15 else rng.sample(pool, min(n, len(pool)))
    return [list(k) for k in keys]


def reply_spec(rng, cluster, rq, honest):
    n = rq["name"]
    if n == "apiversions":
        return {"kind": "apiv", "ok": rng.random() < 0.6}
    if rng.random() < 0.03:
        return {"kind": "garbage"}
    if n == "metadata":
        if honest or rng.random() < 0.7:
            bs, ts = cluster.metadata_for(rng, rq["extra"]["topics"])
        else:
            bs, ts, _ = CC.gen_metadata(rng, known_ids=sorted(cluster.brokers), dup=False)
        return {"kind": "meta", "brokers": [list(b) for b in bs], "topics": [[t, e, [list(p) for p in ps]] for t, e, ps in ts]}
    if n == "coord":
        g = rq["extra"]["group"]
        if rng.random() < 0.2:
            return {"kind": "coord", "err": rng.choice([15, 14, 16, 30]), "broker": [-1, "", 0]}
        i = cluster.groups.get(g, sorted(cluster.brokers)[0])
        if i not in cluster.brokers:
            i = sorted(cluster.brokers)[0]
        return {"kind": "coord", "err": 0, "broker": [i, cluster.brokers[i][0], cluster.brokers[i][1]]}
    if n in ("produce", "fetch", "offset", "commit", "ofetch"):
        errs = []
        for k in rq["keys"]:
            r = rng.random()
            errs.append(0 if r < 0.75 else rng.choice(SEND_ERRS))
        omit = [i for i in range(len(errs)) if rng.random() < 0.04]
        extra = [[rng.choice(CC.TOPICS), rng.randrange(0, 7), rng.choice([0, 6])]] if rng.random() < 0.05 else []
        return {"kind": "items", "errs": errs, "omit": omit, "extra": extra}
    return {"kind": "simple", "err": rng.choice([0, 0, 0, 16, 15, 14, 25, 27, 3])}


class Runner(object):
    """executes commands on a Sim"""

    def __init__(self, cfg):
        self.cfg = cfg
        self.sim = Sim(timeout_ms=cfg["timeout_ms"], disconnect_on_timeout=cfg["dot"], hosts=[tuple(h) for h in cfg["hosts"]], shuffle_seed=cfg["shuffle_seed"],
                       hold_closes=cfg.get("hold", False), cancel_style=cfg.get("cancel_style", "plain"),
                       bytes_groups=cfg.get("bytes_groups", False), discovery=cfg.get("discovery", False),
                       no_jump=cfg.get("no_jump", False))
        self.ntag = 0
        self.closed = False

    def build_reply(self, rq, spec):
        """-> (desc, body)"""
        n = rq["name"]
        k = spec["kind"]
        if k == "garbage":
            return "garbage", GARBAGE
        if n == "metadata":
            if k != "meta":
                spec = {"kind": "meta", "brokers": [], "topics": []}
            bs = [tuple(b) for b in spec["brokers"]]
            ts = [(t, e, [tuple(p) for p in ps]) for t, e, ps in spec["topics"]]
            body = W.metadata_response(bs, [(t, e, [(pe, p, l, [], []) for pe, p, l in ps]) for t, e, ps in ts])
            return "meta %s %s" % (CC.fmt_brokers(bs), CC.fmt_topics(ts)), body
        if n == "apiversions":
            # version discovery (beyond-model stage): every API at version 0, or bytes the decoder rejects
            if k == "apiv" and spec.get("ok"):
                import struct
                body = struct.pack(">hi", 0, 19) + b"".join(struct.pack(">hhh", a, 0, 0) for a in range(19))
                return "simple 0", body
            return "garbage", GARBAGE
        if n == "coord":
            if k != "coord":
                spec = {"kind": "coord", "err": 15, "broker": [-1, "", 0]}
            b = spec["broker"]
            host = b[1] or "none"
            return "coord %d %s" % (spec["err"], CC.fmt_broker((b[0], host, b[2]))), W.find_coordinator_response(spec["err"], b[0], host, b[2])
        if n in ("produce", "fetch", "offset", "commit", "ofetch"):
            if k != "items":
                spec = {"kind": "items", "errs": [0] * len(rq["keys"]), "omit": [], "extra": []}
            items = []
            for i, (t, p) in enumerate(rq["keys"]):
                if i in spec["omit"]:
                    continue
                e = spec["errs"][i] if i < len(spec["errs"]) else 0
                items.append((t, p, e))
            for t, p, e in spec["extra"]:
                items.append((t, p, e))
            tagged = []
            for t, p, e in items:
                if n == "commit":
                    tag = commit_tag(t, p, e)
                else:
                    self.ntag += 1
                    tag = self.ntag
                tagged.append((t, p, e, tag))
            body = W.RESPONDERS[rq["api"]](tagged)
            # the decoder groups by topic in first-seen order: the model sees the items in that order
            order = [it for _, its in W.by_topic(tagged) for it in its]
            return "items " + CC.lst("%s:%d:%d#%d" % it for it in order), body
        err = spec.get("err", 0) if k == "simple" else 0
        return "simple %d" % err, W.leave_group_response(err)

    def outstanding(self):
        out = []
        for c, i, f, rq in self.sim.outstanding():
            if rq["name"] == "produce" and rq["extra"].get("acks") == 0:
                continue
            out.append((c, i, f, rq))
        return out

    def run(self, cmd):
        s = self.sim
        op = cmd[0]
        if op == "load":
            return s.api_load(cmd[1])
        if op == "send":
            _, api, keys, foe, expect, group = cmd
            return s.api_send(api, [tuple(k) for k in keys], foe=foe, expect=expect, group=group)
        if op == "cload":
            return s.api_cload(cmd[1])
        if op == "srtc":
            return s.api_srtc(cmd[1], None if cmd[2] is None else Fraction(cmd[2]))
        if op == "ltp":
            return s.api_ltp(cmd[1])
        if op == "cancel":
            if cmd[1] in s.ops and s.ops[cmd[1]].get("d") is not None and not s.ops[cmd[1]].get("is_close"):
                s.api_cancel(cmd[1])
            return None
        if op == "close":
            self.closed = True
            return s.api_close()
        if op == "rtopics":
            return s.api_reset_topics(cmd[1])
        if op in ("accept", "refuse"):
            ps = s.pending_connects()
            if ps:
                p = ps[cmd[1] % len(ps)]
                (s.accept if op == "accept" else s.refuse)(p)
            return None
        if op == "reply":
            out = self.outstanding()
            if out:
                c, i, f, rq = out[cmd[1] % len(out)]
                desc, body = self.build_reply(rq, cmd[2])
                s.reply(c, i, desc, body)
            return None
        if op == "drop":
            cs = [c for c in s.net.conns if not c.closed and not c.ct.disconnected]
            if cs:
                s.drop(cs[cmd[1] % len(cs)])
            return None
        if op == "notify":
            hs = s.held()
            if hs:
                s.notify(hs[cmd[1] % len(hs)])
            return None
        if op == "advance":
            return s.advance(Fraction(cmd[1]))
        if op == "arm_close":
            # the Deferred of the NEXT operation started gets a callback that calls close() synchronously
            s.close_armed = True
            return None
        if op == "sync_refuse":
            # the next cmd[1] connection attempts of broker clients fail inside endpoint.connect()
            s.sync_refuse_left = cmd[1]
            s.xsteps.append({"line": "x-syncrefuse %d" % cmd[1], "seq": [], "envs": []})
            return None
        raise ValueError(op)

    def dispose(self):
        self.sim.dispose()


def gen_cfg(rng, focus):
    r = rng.random()
    if r < 0.5:
        hosts = [["boot", 9092]]
    elif r < 0.78:
        hosts = [["ba", 9092], ["bb", 9093], ["bc", 9092]][: rng.randrange(2, 4)]
    else:
        # the bootstrap list names cluster MEMBERS (broker i lives at h<i>:9092 until it is re-addressed), usually
        # next to a host that is no broker: the known brokers are tried through their broker clients first and
        # then every bootstrap host - members included - over a fresh connection
        hosts = [["h%d" % i, 9092] for i in sorted(rng.sample(range(1, 8), rng.randrange(1, 4)))]
        if rng.random() < 0.75:
            hosts.append(["boot", 9092])
    return {
        "timeout_ms": rng.choice([500, 1000, 2500, 10000, 40000]),
        "dot": rng.random() < 0.5,
        "hosts": hosts,
        "shuffle_seed": rng.randrange(1 << 30),
        # connection-closed notifications delivered only on command (any order, arbitrarily late)
        "hold": rng.random() < (0.6 if focus == "c20" else 0.35),
        # how the endpoint reports a cancelled connect (Twisted's TCP endpoints: ConnectingCancelledError)
        "cancel_style": rng.choice(["plain", "connecting"]),
        # group names given as bytes instead of str
        "bytes_groups": rng.random() < 0.25,
    }


def next_timer_gap(sim):
    ts = [t for t, _ in sim.timers_line()]
    if not ts:
        return None
    return Fraction(min(ts)).limit_denominator(10**6) - Fraction(sim.clock.seconds()).limit_denominator(10**6)


def generate(rng, focus="c07", nsteps=None, prefix=None, cfg=None):
    """Generate and run one scenario (optionally continuing after the commands `prefix` under `cfg`).
    -> (scenario dict, Runner)"""
    cfg = cfg or gen_cfg(rng, focus)
    run = Runner(cfg)
    cluster = Cluster(rng)
    cmds = []
    for cmd in prefix or []:
        cmds.append(cmd)
        run.run(cmd)
    nsteps = nsteps or rng.randrange(8, 45)
    live = lambda: [o for o, v in run.sim.ops.items() if v.get("result") is None and v.get("d") is not None and not v.get("is_close")]
    p_close = {"c20": 0.06, "c11": 0.01}.get(focus, 0.015)
    p_adv = {"c11": 0.25, "c20": 0.08}.get(focus, 0.08)
    p_cancel = 0.05
    after_close = 0
    # black-hole phase (a fifth of the scenarios): from some step on the cluster mostly stays silent - requests are not
    # answered, connection attempts are refused or left hanging, the clock runs to the next timer - so that a request
    # times out on EVERY broker it is tried on, falls back to the bootstrap hosts and exhausts them too
    dark_from = rng.randrange(2, max(3, nsteps - 4)) if rng.random() < 0.2 else None
    try:
        # bootstrap quickly in most scenarios so that broker-aware paths are reached
        for i in range(nsteps):
            sim = run.sim
            pend = sim.pending_connects()
            outst = run.outstanding()
            r = rng.random()
            cmd = None
            beyond = cfg.get("beyond")  # beyond-model stages (harness/lib/client_beyond.py): "reentrant" | "discovery"
            if beyond and sim.close_log_idx is not None:
                run.closed = True  # close() was called from inside a callback
            if run.closed:
                after_close += 1
                if after_close > 8 and not sim.held():
                    break
                if after_close > 30:
                    break
            if dark_from is not None and i >= dark_from and not run.closed and rng.random() < 0.85:
                gap = next_timer_gap(sim)
                k = rng.random()
                if pend and k < 0.55:
                    cmd = ["refuse" if rng.random() < 0.8 else "accept", rng.randrange(len(pend))]
                elif gap is not None and k < 0.9:
                    cmd = ["advance", "%d/%d" % (gap.numerator, gap.denominator)]
                elif not live():
                    cmd = ["load", rng.sample(CC.TOPICS, rng.randrange(0, 3))]
                if cmd is not None:
                    cmds.append(cmd)
                    run.run(cmd)
                    continue
            # a broker client closed by a refresh whose connection has not reported closed yet: close now, often
            refresh_close_pending = (not run.closed and any(getattr(bc, "_dDown", None) is not None and not bc._dDown.called for bc in sim.bcs))
            if not run.closed and i > 2 and (r < p_close or (refresh_close_pending and r < 0.35)):
                cmd = ["close"]
            elif run.closed and focus == "c20" and r < (0.25 if sim.held() else 0.08):
                cmd = ["close"]  # close() again: returns the pending close Deferred
            elif focus in ("c11", "c20") and sim.sync_refuse_left == 0 and r > 0.97:
                cmd = ["sync_refuse", rng.choice([1, 1, 2, 3, 50])]
            elif r < p_close + p_cancel and live():
                cmd = ["cancel", rng.choice(live())]
            elif r < p_close + p_cancel + (0.25 if (run.closed and focus == "c20") else p_adv):
                gap = next_timer_gap(sim)
                choice = rng.random()
                if gap is not None and choice < 0.5:
                    dt = gap  # exactly to the next timer (ties with replies are decided by command order)
                elif gap is not None and choice < 0.7 and gap > 0:
                    dt = gap * Fraction(rng.choice([1, 2, 3]), 4)
                else:
                    dt = Fraction(rng.choice([1, 4, 8, 20, 40, 80, 240]), 8)  # dyadic: float clock arithmetic stays exact
                cmd = ["advance", "%d/%d" % (dt.numerator, dt.denominator)]
            elif sim.held() and rng.random() < (0.25 if not run.closed else 0.5):
                cmd = ["notify", rng.randrange(len(sim.held()))]
            elif pend and rng.random() < (0.4 if beyond == "reentrant" else 0.75):
                cmd = ["accept" if rng.random() < 0.85 else "refuse", rng.randrange(len(pend))]
            elif outst and rng.random() < 0.8:
                j = rng.randrange(len(outst))
                cmd = ["reply", j, reply_spec(rng, cluster, outst[j][3], honest=rng.random() < 0.8)]
            elif rng.random() < (0.2 if focus == "c20" else 0.08):
                if focus == "c20" and len(cluster.brokers) > 1 and rng.random() < 0.5:
                    # remove a broker the client is connected to, if any
                    conn_nodes = [bc.node_id for bc in sim.bcs if bc.proto is not None and bc._dDown is None and bc.node_id in cluster.brokers]
                    if conn_nodes:
                        victim = rng.choice(conn_nodes)
                        del cluster.brokers[victim]
                        rest = sorted(cluster.brokers)
                        for t in cluster.topics:
                            for pp in cluster.topics[t]:
                                if cluster.topics[t][pp] == victim:
                                    cluster.topics[t][pp] = rng.choice(rest)
                        for g in cluster.groups:
                            if cluster.groups[g] == victim:
                                cluster.groups[g] = rng.choice(rest)
                        continue
                cluster.mutate(rng)
                continue
            elif rng.random() < 0.05 and [c for c in sim.net.conns if not c.closed]:
                cmd = ["drop", rng.randrange(8)]
            else:
                k = rng.random()
                if k < 0.22 or (not sim.client._brokers and k < 0.6):
                    asked = rng.sample(CC.TOPICS, rng.randrange(0, 3)) if (focus != "c20" or rng.random() < 0.5) else []
                    cmd = ["load", asked]
                elif k < 0.75:
                    api = rng.choice(APIS)
                    expect = not (api == "produce" and rng.random() < (0.6 if beyond == "reentrant" else 0.15))
                    cmd = ["send", api, gen_keys(rng, cluster), rng.random() < 0.6, expect, None]
                elif k < 0.87:
                    cmd = ["send", rng.choice(GROUP_APIS), gen_keys(rng, cluster), rng.random() < 0.6, True, rng.choice(CC.GROUPS)]
                elif k < 0.92:
                    cmd = ["cload", rng.choice(CC.GROUPS)]
                elif k < 0.96:
                    cmd = ["srtc", rng.choice(CC.GROUPS), rng.choice([None, None, "35", "1/4"])]
                elif k < 0.985:
                    cmd = ["ltp", rng.sample(CC.TOPICS, rng.randrange(1, 3))]
                else:
                    cmd = ["rtopics", rng.sample(CC.TOPICS, rng.randrange(1, 3))]
            if beyond == "reentrant" and not run.closed and cmd[0] in ("send", "load", "cload", "srtc") and rng.random() < 0.3:
                # close() will be called synchronously from this operation's callback
                cmds.append(["arm_close"])
                run.run(["arm_close"])
            cmds.append(cmd)
            run.run(cmd)
    except Exception:
        run.dispose()
        raise
    return {"cfg": cfg, "cmds": cmds, "focus": focus}, run


def execute(scn):
    run = Runner(scn["cfg"])
    try:
        for cmd in scn["cmds"]:
            run.run(cmd)
    except Exception:
        run.dispose()
        raise
    return run
