"""Scripted environment for the REAL afkak ConsumerGroup/Coordinator (properties C16, C17).

* `RecClock`      - twisted Clock used as `client.reactor`; numbers every callLater (ids are the model's
                    timer ids), logs set/cancel/fire, fires ONE call per `fire()` so that each timer is a step.
* `FakeClient`    - the client methods `_group.py` uses; every request is a pending Deferred completed by the
                    scenario with any result kind at any time.  Cancelling a pending request reproduces the
                    REAL client's outcome (harness/lib/client_iface.md): coordinator requests and the
                    coordinator look-up fail with Twisted's CancelledError, `load_metadata_for_topics`
                    SUCCEEDS with None, `_load_topic_partitions` fails with a KafkaError (or, sleeping before a
                    retry - 5th cfg element - with CancelledError).
* `FakeConsumer`  - stands in for afkak.consumer.Consumer (patched as `afkak._group.Consumer`): records
                    start/shutdown/stop, the scenario completes the shutdown Deferred or fails start's.
* `GroupWorld`    - one real ConsumerGroup over these; `apply(event)` -> observations, `snap()`, `st()`,
                    `enabled()` for on-line scenario generation.

Observation / snapshot text is the line protocol of lean/Driver/Group.lean.
"""
from fractions import Fraction

from twisted.internet import defer
from twisted.internet.task import Clock, LoopingCall
from twisted.python.failure import Failure

# error kind (Lean GErr constructor) -> exception factory.  Filled lazily (needs afkak importable).
_KINDS = None


def kinds():
    global _KINDS
    if _KINDS is None:
        import afkak.common as C

        _KINDS = {
            "rebalanceInProgress": C.RebalanceInProgress,
            "notCoordinator": C.NotCoordinator,
            "coordinatorNotAvailable": C.CoordinatorNotAvailable,
            "coordinatorLoadInProgress": C.CoordinatorLoadInProgress,
            "illegalGeneration": C.IllegalGeneration,
            "unknownMemberId": C.UnknownMemberId,
            "inconsistentGroupProtocol": C.InconsistentGroupProtocol,
            "invalidGroupId": C.InvalidGroupId,
            "requestTimedOut": C.RequestTimedOutError,
            "invalidSessionTimeout": C.InvalidSessionTimeout,
            "groupAuthorizationFailed": C.GroupAuthorizationFailed,
            "unknownError": C.UnknownError,
            "kafkaUnavailable": C.KafkaUnavailableError,
            "cancelled": defer.CancelledError,
            "nonKafka": AttributeError,
        }
    return _KINDS


def kind_of(exc):
    for k, cls in kinds().items():
        if type(exc) is cls:
            return k
    return "other:" + type(exc).__name__


def frac(x):
    return Fraction(x).limit_denominator(10**6)


def show_frac(f):
    f = Fraction(f)
    return str(f.numerator) if f.denominator == 1 else "%d/%d" % (f.numerator, f.denominator)


def member_no(m):
    if m == "" or m is None:
        return 0
    return int(m[1:])


def opt(g):
    return "-" if g is None else str(g)


class RecClock(Clock):
    def __init__(self, world):
        Clock.__init__(self)
        self.world = world
        self.next_id = 0
        self.by_id = {}

    def callLater(self, delay, func, *a, **kw):
        dc = Clock.callLater(self, delay, func, *a, **kw)
        dc.verif_id = self.next_id
        dc.verif_func = func  # Twisted deletes `dc.func` when the call fires or is cancelled
        self.next_id += 1
        self.by_id[dc.verif_id] = dc
        orig = dc.canceller

        def canceller(c):
            self.world.log.append("cancelTimer %d" % c.verif_id)
            orig(c)

        dc.canceller = canceller
        self.world.log.append(["setTimer", dc, frac(delay)])
        return dc

    def active(self):
        self._sortCalls()
        return list(self.calls)

    def next_due(self):
        a = self.active()
        return a[0] if a else None

    def fire(self, tid):
        """Fire exactly the delayed call `tid` (it must be due), as one iteration of Clock.advance."""
        self._sortCalls()
        for i, c in enumerate(self.calls):
            if c.verif_id == tid:
                if c.getTime() > self.seconds() + 1e-12:
                    raise KeyError("timer %d not due" % tid)
                del self.calls[i]
                c.called = 1
                try:
                    c.func(*c.args, **c.kw)
                except Exception as e:
                    # the reactor would log it and go on: an observation (the model's `raise <class>`), never a harness crash
                    self.world.log.append("raise " + type(e).__name__)
                return
        raise KeyError("timer %d not active" % tid)


REQ_KINDS = ("coord", "meta", "join", "parts", "sync", "hb", "leave")


class FakeClient(object):
    def __init__(self, world):
        self.world = world
        self.reactor = world.clock
        self.pending = []  # (kind, deferred, info)

    def _mk(self, kind, ob, info=None):
        self.world.log.append(ob)

        def canceller(d):
            self.pending[:] = [p for p in self.pending if p[1] is not d]
            if kind != "leave":
                self.world.log.append("cancelReq %s" % kind)
            if kind == "meta":
                d.callback(None)  # the real client eats the CancelledError
            elif kind == "parts":
                # waiting for its metadata request: KafkaError; sleeping before a retry: the cancelled delay's
                # CancelledError comes out (the same that `close()` produces since 2a79d59)
                sleeping = len(self.world.cfg) > 4 and self.world.cfg[4]
                d.errback(Failure(kinds()["cancelled" if sleeping else "kafkaUnavailable"]("cancelled")))
            # else: Deferred.cancel() errbacks CancelledError itself

        d = defer.Deferred(canceller)
        self.pending.append((kind, d, info))
        return d

    # --- what _group.py calls
    def _get_coordinator_for_group(self, group):
        return self._mk("coord", "coordLookup")

    def load_metadata_for_topics(self, *topics):
        return self._mk("meta", "loadMeta")

    def _load_topic_partitions(self, *topics):
        return self._mk("parts", "loadParts", topics)

    def reset_consumer_group_metadata(self, *groups):
        self.world.log.append("resetGroupMeta")

    def _send_request_to_coordinator(self, group, payload, encoder_fn, decode_fn, **kwargs):
        import afkak.common as C

        if isinstance(payload, C._JoinGroupRequest):
            self.world.join_kwargs = kwargs
            self.world.join_member = payload.member_id
            return self._mk("join", "join %d" % member_no(payload.member_id))
        if isinstance(payload, C._SyncGroupRequest):
            return self._mk("sync", "sync %s %d %d" % (opt(payload.generation_id), member_no(payload.member_id), len(payload.group_assignment)))
        if isinstance(payload, C._HeartbeatRequest):
            return self._mk("hb", "heartbeat %s %d" % (opt(payload.generation_id), member_no(payload.member_id)))
        if isinstance(payload, C._LeaveGroupRequest):
            return self._mk("leave", "leave %d" % member_no(payload.member_id))
        raise AssertionError("unexpected coordinator payload %r" % (payload,))

    # --- scenario side
    def has(self, kind):
        return any(p[0] == kind for p in self.pending)

    def take(self, kind):
        for i, p in enumerate(self.pending):
            if p[0] == kind:
                del self.pending[i]
                return p
        raise KeyError("no pending %s request" % kind)


class FakeConsumer(object):
    def __init__(self, world, **kw):
        self.world = world
        self.kw = kw
        self.cid = len(world.consumers)
        world.consumers.append(self)
        self.topic = int(kw["topic"][1:])
        self.partition = kw["partition"]
        self.gen = kw.get("commit_generation_id")
        self.member = member_no(kw.get("commit_consumer_id"))
        self.phase = "new"
        self._start_d = None
        self.start_d = None
        self._shutdown_d = None
        self.quirk = "none"  # none | raises (shutdown() raises) | fails (shutdown() returns a failed Deferred)

    def start(self, offset):
        self.world.log.append("consumerStart %d %d %d %s %d %d" % (self.cid, self.topic, self.partition, opt(self.gen), self.member, offset))
        self.phase = "r"
        self._start_d = self.start_d = defer.Deferred()
        return self.start_d

    def shutdown(self):
        from afkak.common import RestopError

        self.world.log.append("consumerShutdown %d" % self.cid)
        if self.quirk == "raises":
            raise KeyError("scripted: shutdown() raises")
        self.phase = "d"
        if self.quirk == "fails":
            self._shutdown_d = None
            return defer.fail(Failure(RestopError("scripted: shutdown() returns a failed Deferred")))
        self._shutdown_d = defer.Deferred()
        return self._shutdown_d

    def _stopped(self):
        self.phase = "s"
        self._start_d, d = None, self._start_d
        if d is not None and not d.called:
            d.callback(None)

    def stop(self):
        from afkak.common import RestopError

        self.world.log.append("consumerStop %d" % self.cid)
        if self._start_d is None:
            raise RestopError("Stop called on non-running consumer")
        self._stopped()

    # --- environment
    def complete_shutdown(self, ok):
        d = self._shutdown_d
        self._stopped()  # the real consumer stops itself before firing the shutdown Deferred
        if ok:
            d.callback(None)
        else:
            d.errback(Failure(kinds()["illegalGeneration"]()))

    def fail(self, kind):
        self.start_d.errback(Failure(kinds()[kind]("consumer error")))


class GroupWorld(object):
    TOPICS = ["t1", "t2"]

    def __init__(self, cfg):
        """cfg = (initial_backoff_ms, retry_backoff_ms, fatal_backoff_ms, heartbeat_interval_ms[, parts_cancel_sleeping])"""
        import afkak._group as G

        self.cfg = cfg
        self.log = []
        self.consumers = []
        self.clock = RecClock(self)
        self.now = Fraction(0)
        self.client = FakeClient(self)
        self.join_kwargs = None
        self.join_member = ""  # member id quoted by the latest JoinGroup request
        self._orig_consumer = G.Consumer
        G.Consumer = lambda **kw: FakeConsumer(self, **kw)
        try:
            self.group = G.ConsumerGroup(
                self.client, "grp", list(self.TOPICS), lambda c, m: None,
                initial_backoff_ms=cfg[0], retry_backoff_ms=cfg[1], fatal_backoff_ms=cfg[2], heartbeat_interval_ms=cfg[3],
            )
        except Exception:
            G.Consumer = self._orig_consumer
            raise
        self.start_d = None

    def close(self):
        import afkak._group as G

        G.Consumer = self._orig_consumer

    # ---------------------------------------------------------------- events
    def apply(self, ev):
        """Apply one event (text of the line protocol). Returns the observations of the step."""
        self.log = []
        self.last_event = ev
        w = ev.split()
        op = w[0]
        g = self.group
        import afkak.common as C
        from afkak.kafkacodec import KafkaCodec

        def result(kind_word):
            return Failure(kinds()[kind_word[4:]]("scripted"))

        if op == "start":
            try:
                d = g.start()
            except C.RestartError:
                self.log.append("raise RestartError")
            except Exception as e:  # anything else start() raises is an observation too
                self.log.append("raise " + type(e).__name__)
            else:
                self.start_d = d
                d.addCallbacks(lambda r: self.log.append("startFired ok"), lambda f: self.log.append("startFired err:" + kind_of(f.value)))
        elif op == "stop":
            d = g.stop()

            def eb(f):
                # anything but RestopError is the machinery tripping over itself (model: `raise <class>`; monitor noInternalError)
                self.log.append("stopFired restop" if f.check(C.RestopError) else "raise " + type(f.value).__name__)

            d.addCallbacks(lambda r: self.log.append("stopFired ok"), eb)
        elif op == "coordDone":
            _, d, _ = self.client.take("coord")
            if w[1] == "ok":
                d.callback(C.BrokerMetadata(1, "h", 9092))
            elif w[1] == "none":
                d.callback(None)
            else:
                d.errback(result(w[1]))
        elif op == "metaDone":
            _, d, _ = self.client.take("meta")
            d.callback(True) if w[1] == "ok" else d.errback(result(w[1]))
        elif op == "joinDone":
            _, d, _ = self.client.take("join")
            if w[1] == "ok":
                m, gen, leader, n = int(w[2]), int(w[3]), w[4] == "1", int(w[5])
                me = "m%d" % m if m else ""
                md = KafkaCodec.encode_join_group_protocol_metadata(version=0, subscriptions=list(self.TOPICS), user_data=b"")
                members = []
                if leader:
                    members = [C._JoinGroupResponseMember(me if i == 0 else "x%d" % i, member_metadata=md) for i in range(n)]
                d.callback(C._JoinGroupResponse(error=0, generation_id=gen, group_protocol="consumer", member_id=me,
                                                leader_id=me if leader else "other-leader", members=members))
            else:
                d.errback(result(w[1]))
        elif op == "partsDone":
            _, d, topics = self.client.take("parts")
            d.callback({t: [0, 1, 2] for t in topics}) if w[1] == "ok" else d.errback(result(w[1]))
        elif op == "syncDone":
            _, d, _ = self.client.take("sync")
            if w[1] == "ok":
                asg = {}
                if w[2] != "-":
                    for tp in w[2].split(";"):
                        t, ps = tp.split(":")
                        asg["t" + t] = [int(p) for p in ps.split(",")] if ps != "-" else []
                d.callback(C._SyncGroupResponse(error=0, member_assignment=KafkaCodec.encode_sync_group_member_assignment(version=0, assignments=asg, user_data=b"")))
            else:
                d.errback(result(w[1]))
        elif op == "hbDone":
            _, d, _ = self.client.take("hb")
            d.callback(C._HeartbeatResponse(error=0)) if w[1] == "ok" else d.errback(result(w[1]))
        elif op == "leaveDone":
            _, d, _ = self.client.take("leave")
            d.callback(C._LeaveGroupResponse(error=0)) if w[1] == "ok" else d.errback(result(w[1]))
        elif op == "consumerDown":
            if int(w[1]) >= len(self.consumers):
                raise KeyError("no consumer %s" % w[1])
            c = self.consumers[int(w[1])]
            if c.phase != "d" or c._shutdown_d is None:
                raise KeyError("consumer %s is not draining" % w[1])
            c.complete_shutdown(w[2] == "ok")
        elif op == "consumerErr":
            if int(w[1]) >= len(self.consumers):
                raise KeyError("no consumer %s" % w[1])
            c = self.consumers[int(w[1])]
            if c.phase == "s" or c.start_d.called:
                raise KeyError("consumer %s cannot fail" % w[1])
            c.fail(w[2])
        elif op == "consumerQuirk":
            if int(w[1]) >= len(self.consumers) or self.consumers[int(w[1])].phase != "r":
                raise KeyError("consumer %s is not running" % w[1])
            self.consumers[int(w[1])].quirk = w[2]
        elif op == "fire":
            self.clock.fire(int(w[1]))
            # the looper's next delay is Twisted's float arithmetic: an external answer for the model
            nxt = [o for o in self.log if isinstance(o, list) and isinstance(o[1].verif_func, LoopingCall)]
            self.last_event = "fire %s%s" % (w[1], " " + show_frac(nxt[-1][2]) if nxt else "")
        elif op == "advance":
            dt = Fraction(w[1])
            self.now += dt
            self.clock.rightNow = float(self.now)
        else:
            raise KeyError("unknown event " + ev)
        return self.render()

    def timer_kind(self, dc):
        """hb / rejoin / retry: the three kinds of delayed call the code (and the model) has.  Anything else the
        implementation schedules on the member's reactor is `other`: an observation the model has no kind for
        (reported as a disagreement), which the generator fires like any timer so that the monitors judge what
        the implementation does when it fires."""
        f = dc.verif_func
        if isinstance(f, LoopingCall):
            return "hb"
        if f == self.group.join_and_sync:
            return "rejoin" if self.group._rejoin_wait_dc is dc else "retry"
        return "other"

    def render(self):
        out = []
        for o in self.log:
            if isinstance(o, list):
                _, dc, delay = o
                if not hasattr(dc, "verif_kind"):
                    dc.verif_kind = self.timer_kind(dc)
                out.append("setTimer %d %s %s" % (dc.verif_id, dc.verif_kind, show_frac(delay)))
            else:
                out.append(o)
        return out

    # ---------------------------------------------------------------- inspection
    def held(self):
        return [c for cs in self.group.consumers.values() for c in cs]

    def snap(self):
        g = self.group
        b = lambda x: "1" if x else "0"  # noqa: E731
        act = self.clock.active()
        for dc in act:
            if not hasattr(dc, "verif_kind"):
                dc.verif_kind = self.timer_kind(dc)
        held = set(id(c) for c in self.held())
        cons = ",".join(
            "%d:%d:%d:%s:%d:%s:%s:%s" % (c.cid, c.topic, c.partition, opt(c.gen), c.member, c.phase, b(id(c) in held), b(c.start_d is not None and c.start_d.called))
            for c in self.consumers
        ) or "-"
        return "snap started=%s stopping=%s jif=%s needed=%s hb=%s hbif=%s sf=%s jt=%d ht=%d member=%d gen=%s cons=%s" % (
            b(g._start_d is not None), b(g._stopping), b(g._rejoin_d), b(g._rejoin_needed), b(g._heartbeat_looper.running),
            b(g._heartbeat_request_d is not None), b(self.start_d is not None and self.start_d.called),
            sum(1 for dc in act if dc.verif_kind in ("rejoin", "retry")), sum(1 for dc in act if dc.verif_kind == "hb"),
            member_no(g.member_id), opt(g.generation_id), cons,
        )

    def st(self):
        g = self.group
        jpc = "idle"
        for k, name in (("coord", "coordLookup"), ("meta", "metaLoad"), ("join", "join"), ("parts", "loadParts"), ("sync", "sync")):
            if self.client.has(k):
                jpc = name
        if jpc == "idle" and g._rejoin_d:
            jpc = "prepare"
        dc = g._rejoin_wait_dc
        ts = ",".join("%d:%s:%s" % (c.verif_id, c.verif_kind, show_frac(frac(c.getTime()))) for c in sorted(self.clock.active(), key=lambda c: c.verif_id)) or "-"
        return "st now=%s jpc=%s dc=%s broker=%s leave=%s timers=%s" % (
            show_frac(self.now), jpc, "-" if not dc else str(dc.verif_id), "1" if g.coordinator_broker is not None else "0",
            "1" if self.client.has("leave") else "0", ts,
        )

    def enabled(self):
        """What the environment can do next: dict of families -> list of concrete argument choices."""
        e = {}
        for k in ("coord", "meta", "join", "parts", "sync", "hb", "leave"):
            if self.client.has(k):
                e[k] = True
        e["down"] = [c.cid for c in self.consumers if c.phase == "d"]
        e["down"] = [c.cid for c in self.consumers if c.phase == "d" and c._shutdown_d is not None]
        e["cerr"] = [c.cid for c in self.consumers if c.phase in ("r", "d") and not c.start_d.called]
        e["quirk"] = [c.cid for c in self.consumers if c.phase == "r" and c.quirk == "none"]
        nd = self.clock.next_due()
        e["timer"] = (nd.verif_id, frac(nd.getTime())) if nd is not None else None
        return e


def canon_model_st(line):
    """Drop the fields of the model's `st` line that cannot be inspected on the real object."""
    return " ".join(w for w in line.split() if not w.startswith("stops="))
