"""The real KafkaClient over real _KafkaBrokerClients over the in-memory network, instrumented at the
KafkaClient <-> broker-client / bootstrap-endpoint / reactor boundary.

`Sim` executes harness commands (API calls, network events, clock) and records, per boundary-crossing
up-call, one STEP = (model event line, environment answers, observations) in the vocabulary of
lean/Afkak/ClientNet.lean (see Driver/Client.lean for the line formats).  Nothing in afkak is changed:
`afkak.client._KafkaBrokerClient` is replaced by a recording subclass (calls through to the real
methods), `afkak.client.random` by a seeded recorder; both are restored by `Sim.dispose()`.
"""
import random as _random
import sys
from fractions import Fraction

from twisted.internet import defer
from twisted.internet.task import Clock
from twisted.python.failure import Failure

from harness.lib import client_common as CC
from harness.lib import client_wire as W
from harness.sim.world import Net

GARBAGE = b"\x00"


def rat(x):
    f = Fraction(x).limit_denominator(10**9) if isinstance(x, float) else Fraction(x)
    return "%d/%d" % (f.numerator, f.denominator)


def kind_of(f):
    """canonical failure kind of a Failure (matches Driver.Client.showKind)"""
    from afkak import common as K
    from twisted.internet import defer as D
    from twisted.internet import error as E

    v = f.value if isinstance(f, Failure) else f
    if isinstance(v, K.BrokerResponseError):
        return "brokerError:%d" % v.errno
    if isinstance(v, K.ClientError):
        return "clientClosed"
    if isinstance(v, D.CancelledError):
        return "cancelled"
    if isinstance(v, K.CancelledError):
        return "afkakCancelled"
    if isinstance(v, K.KafkaUnavailableError):
        return "unavailable"
    if isinstance(v, K.PartitionUnavailableError):
        return "partitionUnavailable"
    if isinstance(v, K.LeaderUnavailableError):
        return "leaderUnavailable"
    if isinstance(v, D.TimeoutError):
        return "twTimeout"
    if isinstance(v, (E.ConnectionDone, E.ConnectionLost)):
        return "connLost"
    return "other:" + type(v).__name__


def find_frame(name, depth=40):
    """innermost frame of the function `name` on the current stack (observation only)"""
    f = sys._getframe(1)
    for _ in range(depth):
        if f is None:
            return None
        if f.f_code.co_name == name:
            return f
        f = f.f_back
    return None


def commit_tag(topic, partition, error):
    return 1000000 + (sum(topic.encode()) % 97) * 10000 + partition * 100 + error


class SpyClock(Clock):
    """Clock that reports the client's own timers (request timeouts, bootstrap addTimeout)."""

    sim = None

    def callLater(self, delay, func, *a, **kw):
        dc = Clock.callLater(self, delay, func, *a, **kw)
        qn = getattr(func, "__qualname__", "")
        name = None
        if "_mrtb_timeout" in qn:
            name = "mrtb:%d" % self.sim.last_mk
        elif "timeItOut" in qn:
            name = "boot:%d" % self.sim.last_boot_write
        elif find_frame("ebConnect", depth=12) is not None:
            # the back-off delay of a broker client's reconnect loop (`ebConnect`): remembered per broker client
            fr = find_frame("ebConnect", depth=12)
            if "self" in fr.f_locals:
                bcx = fr.f_locals["self"]
                self.sim.bc_retry[id(bcx)] = dc
                self.sim.xbc(getattr(bcx, "b", None), "setTimer %s" % rat(Fraction(delay).limit_denominator(10**9)))
                origx = dc.cancel

                def cancelx(bcx=bcx, origx=origx):
                    self.sim.xbc(getattr(bcx, "b", None), "cancelTimer")
                    return origx()

                dc.cancel = cancelx
            del fr
        elif find_frame("_load_topic_partitions") is not None:
            fr = find_frame("_load_topic_partitions")
            name = "retry:%d" % self.sim.ltp_frames.get(id(fr), -1)
            del fr
        if name is not None:
            dc._verif_name = name
            self.sim.timer_names[id(dc)] = (dc, name)
            self.sim.obs("setTimer %s %s" % (name, rat(Fraction(self.seconds()).limit_denominator(10**9) + Fraction(delay).limit_denominator(10**9))))
            orig = dc.cancel

            def cancel():
                self.sim.obs("cancelTimer %s" % name)
                return orig()

            dc.cancel = cancel
        return dc

    def advance(self, amount):
        """like a reactor: an exception escaping from a delayed call is logged (here: observed as `exc`),
        and the remaining calls still run"""
        self.rightNow += amount
        self._sortCalls()
        while self.calls and self.calls[0].getTime() <= self.seconds():
            call = self.calls.pop(0)
            call.called = 1
            self.sim.x_call_fires(call)
            try:
                call.func(*call.args, **call.kw)
            except Exception as e:
                self.sim.obs("exc %s" % type(e).__name__)
            self._sortCalls()


class SpyNet(Net):
    sim = None

    def _connect(self, host, port, factory):
        from afkak._protocol import bootstrapFactory

        d = Net._connect(self, host, port, factory)
        p = self.pending[-1] if self.pending and self.pending[-1].d is d else None
        if factory is not bootstrapFactory:
            self.sim.xbc(getattr(factory, "b", None), "connect %s %d" % (host, port))
        if factory is not bootstrapFactory and p is not None and self.sim.sync_refuse_left > 0:
            # an endpoint whose connect() returns an already failed Deferred (immediate refusal)
            self.sim.sync_refuse_left -= 1
            p.refuse()
            return d
        if factory is bootstrapFactory:
            j = self.sim.nboot
            self.sim.nboot += 1
            if p is not None:
                p.boot = j
            self.sim.obs("bootConnect %d %s %d" % (j, host, port))
            self.sim.note_ltp_frame()
            fr = find_frame("_bootstrap_request")
            if fr is not None and isinstance(fr.f_locals.get("request"), bytes):
                self.sim.obs("t-battr %d %d" % (j, self.sim.unaware_id(int.from_bytes(fr.f_locals["request"][4:8], "big", signed=True))))
            del fr
            orig = d._canceller

            def canceller(dd):
                self.sim.obs("bootCancel %d" % j)
                orig(dd)
                self._cancel_style(dd, host, port)

            d._canceller = canceller
        else:
            if p is not None:
                p.boot = None
            orig2 = d._canceller

            def canceller2(dd):
                self.sim.xbc(getattr(factory, "b", None), "cancelConnect")
                orig2(dd)
                self._cancel_style(dd, host, port)

            d._canceller = canceller2
        return d

    def _cancel_style(self, dd, host, port):
        """how the endpoint reports a cancelled connect(): a bare Deferred yields defer.CancelledError;
        Twisted's TCP endpoints errback with error.ConnectingCancelledError (not a CancelledError)"""
        if self.sim.cancel_style == "connecting":
            from twisted.internet import error
            from harness.sim.world import Addr
            dd.errback(error.ConnectingCancelledError(Addr(host, port)))


def make_spy(sim):
    from afkak.brokerclient import _KafkaBrokerClient

    class SpyBC(_KafkaBrokerClient):
        def __init__(self, reactor, endpointFactory, brokerMetadata, clientId, retryPolicy):
            _KafkaBrokerClient.__init__(self, reactor, endpointFactory, brokerMetadata, clientId, retryPolicy)
            self.b = len(sim.bcs)
            sim.bcs.append(self)
            self.k_by_corr = {}
            self.reported_conn = False
            sim.obs("bcNew %d %d %s %d" % (self.b, self.node_id, self.host, self.port))

        def updateMetadata(self, new):
            sim.obs("bcUpdate %d %s %d" % (self.b, new.host, new.port))
            return _KafkaBrokerClient.updateMetadata(self, new)

        def makeRequest(self, correlationId, request, expectResponse=True):
            k = sim.nreq
            sim.nreq += 1
            sim.last_mk = k
            rq = W.parse_request(request)
            sim.reqs[k] = {"k": k, "b": self.b, "corr": correlationId, "rq": rq, "expect": expectResponse, "fired": False}
            self.k_by_corr[correlationId] = k
            sim.obs("mk %d %d %d %s" % (k, self.b, 1 if expectResponse else 0, sim.what_of(rq)))
            sim.note_ltp_frame()
            fr = find_frame("_send_broker_aware_request") if rq["name"] in ("produce", "fetch", "offset", "commit", "ofetch") else None
            if fr is not None and isinstance(fr.f_locals.get("payloads"), list):
                hits = [sim.payload_ids.get(id(p)) for p in fr.f_locals["payloads"]]
                if hits and all(h is not None for h in hits) and len(set(h[0] for h in hits)) == 1:
                    sim.obs("t-attr %d %d %s" % (k, hits[0][0], CC.ints(h[1] for h in hits)))
            fr = find_frame("_send_broker_unaware_request") if rq["name"] in ("metadata", "coord") else None
            if fr is not None and "requestId" in fr.f_locals:
                sim.obs("t-uattr %d %d" % (k, sim.unaware_id(fr.f_locals["requestId"])))
            del fr
            d = _KafkaBrokerClient.makeRequest(self, correlationId, request, expectResponse)
            d.addBoth(self._spy_fired, k)
            return d

        def _spy_fired(self, result, k):
            sim.reqs[k]["fired"] = True
            sim.xbc(self.b, "fire %d %s" % (k, kind_of(result) if isinstance(result, Failure) else ("none" if result is None else "ok")))
            if sim.toplevel_fire == k:
                sim.toplevel_fire = None
            else:
                sim.obs("fired %d %s" % (k, kind_of(result) if isinstance(result, Failure) else "ok"))
            return result

        def _cancelRequest(self, correlationId, deferred):
            sim.obs("bcCancel %d" % self.k_by_corr[correlationId])
            return _KafkaBrokerClient._cancelRequest(self, correlationId, deferred)

        def disconnect(self):
            sim.obs("bcDisconnect %d" % self.b)
            return _KafkaBrokerClient.disconnect(self)

        def close(self):
            sim.obs("bcClose %d" % self.b)
            d = _KafkaBrokerClient.close(self)
            if d.called:
                sim.xbc(self.b, "down")
                sim.obs("down %d" % self.b)
                sim.cur_env["sd"].append(self.b)
                self.down_reported = True
            else:
                self.down_reported = False
                d.addCallback(self._spy_down)
            return d

        def _spy_down(self, result):
            sim.xbc(self.b, "down")
            # top level: the step was opened by _connectionLost / connect failure hooks
            if sim.toplevel_down == self.b:
                sim.toplevel_down = None
            else:
                sim.obs("down %d" % self.b)
                sim.cur_env["sd"].append(self.b)
            self.down_reported = True
            return result

        def handleResponse(self, response):
            corr = int.from_bytes(response[0:4], "big", signed=True)
            k = self.k_by_corr.get(corr)
            if k is None or sim.depth > 0:
                return _KafkaBrokerClient.handleResponse(self, response)
            desc = sim.reply_desc.get((self.b, corr), "ok garbage")
            live = corr in self.requests and self.requests[corr].cancelled is None
            with sim.xstep("x-reply %d %d %s" % (self.b, k, desc[3:])), sim.step("fire %d %s" % (k, desc)):
                if sim.xcur is not None and self.proto is not None and self.proto.transport.disconnecting:
                    # the in-memory transport still delivers after loseConnection(); a TCP transport has stopped reading
                    sim.xcur["after_lose"] = True
                if live:
                    sim.toplevel_fire = k
                else:
                    sim.obs("late %d" % k)
                _KafkaBrokerClient.handleResponse(self, response)
                sim.toplevel_fire = None

        def _sendQueued(self):
            sim.note_conn(self, True)
            try:
                return _KafkaBrokerClient._sendQueued(self)
            finally:
                # outside a step (a connection came up): the write annotations belong to the step just
                # recorded (`conn b 1`, or the completion of a request that expects no reply)
                if sim.depth == 0 and sim.pending_annot and sim.steps:
                    sim.steps[-1]["obs"].extend(sim.pending_annot)
                    sim.pending_annot = []

        def _sendRequest(self, tReq):
            if tReq.expectResponse or sim.depth > 0:
                return _KafkaBrokerClient._sendRequest(self, tReq)
            k = self.k_by_corr[tReq.correlationId]
            with sim.step("fire %d ok none" % k):
                sim.toplevel_fire = k
                _KafkaBrokerClient._sendRequest(self, tReq)
                sim.toplevel_fire = None

        def _connectionLost(self, reason):
            with sim.xstep("x-lost %d" % self.b):
                self._connectionLost2(reason)

        def _connectionLost2(self, reason):
            if self._dDown is not None and not self._dDown.called and sim.depth == 0:
                with sim.step("down %d" % self.b):
                    sim.toplevel_down = self.b
                    _KafkaBrokerClient._connectionLost(self, reason)
                    sim.toplevel_down = None
                self.reported_conn = False
                return
            _KafkaBrokerClient._connectionLost(self, reason)
            sim.note_conn(self, False)

    return SpyBC


class _Step(object):
    def __init__(self, sim, line):
        self.sim, self.line = sim, line

    def __enter__(self):
        s = self.sim
        assert s.depth == 0, "nested step %s inside %s" % (self.line, s.cur_line)
        s.depth = 1
        s.cur_line = self.line
        s.cur_obs = s.pending_annot
        s.pending_annot = []
        s.cur_env = {"sh": [], "sd": []}
        self.xs = None
        if s.xcur is None:
            self.xs = s.xstep(None)
            self.xs.__enter__()
        return self

    def __exit__(self, et, ev, tb):
        s = self.sim
        s.depth = 0
        line = s.cur_line_override or self.line
        s.cur_line_override = None
        if s.cur_env["sh"]:
            line += " sh=" + "/".join(".".join(str(i) for i in p) if p else "" for p in s.cur_env["sh"])
        if s.cur_env["sd"]:
            line += " sd=" + ",".join(str(b) for b in s.cur_env["sd"])
        if line.startswith("close "):
            # close() iterates a SET of Deferreds: the order is the environment's choice, told to the model
            rd = [o.split(":")[1] for o in s.cur_obs if o.startswith("cancelTimer retry:")]
            if len(rd) > 1:
                line += " rd=" + ",".join(rd)
        for b in s.idle_bcs():
            s.cur_obs.append("t-bcidle %d" % b)
        st = {"line": line, "obs": s.cur_obs, "dump": CC.dump_real(s.client), "timers": s.timers_line(), "t": s.clock.seconds()}
        swallow = False
        if et is not None and issubclass(et, Exception):
            # like a reactor: an exception escaping from a callback it runs is logged, not propagated.  It is
            # an observation (`exc <type>`) which no model step produces.
            st["exc"] = repr(ev)
            st["obs"].append("exc %s" % et.__name__)
            swallow = True
        s.steps.append(st)
        s.cur_obs = None
        envtoks = [w for w in line.split(" ") if w.startswith(("sh=", "sd=", "rd="))]
        if self.xs is not None:
            # a top-level client step IS the composed event
            w = self.line.split(" ")
            if w[0] == "advance":
                s.xcur["line"] = "x-advance %s %s%s" % (w[1], "%FIRST%", "".join(" " + t for t in envtoks))
            else:
                s.xcur["line"] = "x-api " + line
            if swallow:
                s.xcur["exc"] = True
            self.xs.__exit__(None, None, None)
        elif s.xcur is not None:
            s.xcur["envs"].append(";".join(envtoks) or "-")
            if swallow:
                s.xcur["exc"] = True
        return swallow


class _XStep(object):
    """one network-level event (composed model); nested uses are no-ops"""

    def __init__(self, sim, line):
        self.sim, self.line, self.mine = sim, line, False

    def __enter__(self):
        s = self.sim
        if s.xcur is None:
            self.mine = True
            s.xcur = {"line": self.line, "seq": [], "envs": []}
        return self

    def __exit__(self, et, ev, tb):
        s = self.sim
        if self.mine:
            x = s.xcur
            s.xcur = None
            if x["line"] is not None:
                if x["line"].startswith(("x-connok", "x-lost", "x-reply")):
                    x["line"] += "".join(" " + e for e in x["envs"]) if x["line"].startswith("x-connok") else "".join(" " + t for e in x["envs"] for t in e.split(";") if t != "-")
                s.xsteps.append(x)
            elif x["seq"]:
                s.xstray.extend(repr(e) for e in x["seq"])
        return False


class Sim(object):
    def __init__(self, timeout_ms=10000, disconnect_on_timeout=False, hosts=(("boot", 9092),), shuffle_seed=0,
                 hold_closes=False, cancel_style="plain", bytes_groups=False, discovery=False, no_jump=False):
        import afkak.client as C
        from afkak import KafkaClient

        self.C = C
        self.clock = SpyClock()
        self.clock.sim = self
        self.net = SpyNet()
        self.net.sim = self
        self.depth = 0
        self.cur_line, self.cur_obs, self.cur_env = None, None, {"sh": [], "sd": []}
        self.steps = []
        self.bcs, self.reqs = [], {}
        self.nreq = self.nboot = 0
        self.last_mk = self.last_boot_write = -1
        self.toplevel_fire = self.toplevel_down = None
        self.reply_desc = {}
        self.timer_names = {}
        self.ops = {}  # o -> {"d":..., "result":...}
        self.nops = 0
        self.boot_conns = {}  # j -> Conn
        self.stray = []  # observations outside any step (must stay empty)
        self.nexc = 0
        self.pending_annot = []
        self.ltp_frames, self.ltp_keep, self.cur_ltp, self.nltp = {}, [], None, 0
        self.payload_ids = {}  # id(payload object) -> (op, index); the objects are kept alive in self.ops
        self.unaware_ids = {}
        self.close_log_idx = None
        self.boot_meta_all = {}  # bootstrap attempt j -> its metadata request asked for all topics
        self.hold_closes = hold_closes  # connection-closed notifications are delivered only by `notify`
        self.cancel_style = cancel_style
        # group names handed to the client as bytes (accepted everywhere a str is: `_coerce_consumer_group`)
        self.bytes_groups = bytes_groups
        self.released = set()  # cids whose close notification may be delivered
        self.bc_retry = {}  # id(broker client) -> the DelayedCall of its latest reconnect back-off
        # the run as NETWORK-level events with the observations at both boundaries (client / broker client), for the
        # composed model (lean/Afkak/ClientCompose.lean): see xstep / xbc
        self.xsteps, self.xcur, self.xstray = [], None, []
        # beyond-model stage: close() called synchronously from an operation's callback (inside another step)
        self.cur_line_override, self.close_armed, self.nested_close = None, False, False
        self.no_jump = no_jump
        self.sync_refuse_left = 0  # broker connection attempts still to be refused synchronously
        self.boot_gone = set()
        self._install_conn_hook()
        self.shuffle_rng = _random.Random(shuffle_seed)
        self._orig_bc = C._KafkaBrokerClient
        self._orig_random = C.random
        C._KafkaBrokerClient = make_spy(self)
        sim = self

        class RecRandom(object):
            def shuffle(self, xs):
                n = len(xs)
                perm = list(range(n))
                sim.shuffle_rng.shuffle(perm)
                xs[:] = [xs[i] for i in perm]
                sim.cur_env["sh"].append(perm)

        C.random = RecRandom()
        self.timeout = Fraction(timeout_ms, 1000)
        self.hosts = sorted(set(hosts))
        self.cfg_line = "cfg %s %d %s 1/2" % (rat(self.timeout), 1 if disconnect_on_timeout else 0, CC.lst("%s:%d" % hp for hp in self.hosts))
        self.client = KafkaClient(
            ",".join("%s:%d" % hp for hp in hosts), timeout=timeout_ms, disconnect_on_timeout=disconnect_on_timeout,
            reactor=self.clock, endpoint_factory=self.net, enable_protocol_version_discovery=discovery, retry_policy=lambda n: 0.5,
        )

    def dispose(self):
        self.C._KafkaBrokerClient = self._orig_bc
        self.C.random = self._orig_random

    # ---- logging
    def obs(self, line):
        if self.cur_obs is None:
            self.stray.append(line)
        else:
            self.cur_obs.append(line)
        if not line.startswith(("t-", "late ")):
            if self.xcur is None:
                self.xstray.append("cl " + line)
            else:
                self.xcur["seq"].append(("cl", line))

    def xbc(self, b, text):
        """an observation at the broker-client / network boundary (connect, write, lose, timers, fires, down)"""
        if self.xcur is None:
            self.xstray.append("bc %s %s" % (b, text))
        else:
            self.xcur["seq"].append(("bc", b, text))

    def xstep(self, line):
        return _XStep(self, line)

    def x_call_fires(self, call):
        if self.xcur is not None:
            self.xcur["seq"].append(("call", getattr(call, "_verif_name", None)))

    def annot(self, line):
        """an annotation for the monitors (not an observation the model reproduces); outside a step it is
        attached to the next step"""
        if self.cur_obs is None:
            self.pending_annot.append(line)
        else:
            self.cur_obs.append(line)

    def step(self, line):
        return _Step(self, line)

    def note_ltp_frame(self):
        """during api_ltp: remember which coroutine frame is which _load_topic_partitions call"""
        if self.cur_ltp is not None:
            fr = find_frame("_load_topic_partitions")
            if fr is not None:
                self.ltp_frames.setdefault(id(fr), self.cur_ltp)
                self.ltp_keep.append(fr)  # keep the frame alive so that its id is not reused
            del fr

    def unaware_id(self, request_id):
        return self.unaware_ids.setdefault(request_id, len(self.unaware_ids))

    def note_conn(self, bc, v):
        if bc.reported_conn != v and bc._dDown is None:
            bc.reported_conn = v
            self.steps.append({"line": "conn %d %d" % (bc.b, 1 if v else 0), "obs": [], "dump": None, "timers": None, "t": self.clock.seconds()})

    def idle_bcs(self):
        """broker clients (not closed) that have no connection, no connection attempt in progress and no retry
        scheduled - seen from outside: the protocol, the endpoint factory's pending attempts, the reactor"""
        out = []
        for bc in self.bcs:
            if bc._dDown is not None or bc.proto is not None:
                continue
            if any(p.factory is bc for p in self.net.pending):
                continue
            dc = self.bc_retry.get(id(bc))
            if dc is not None and dc.active():
                continue
            out.append(bc.b)
        return out

    def net_quiet(self):
        """nothing is left on the network: no connection open on the client's side, no attempt pending"""
        return not self.net.pending and all(c.ct.disconnected for c in self.net.conns)

    def what_of(self, rq):
        n = rq["name"]
        if n == "metadata":
            return "meta:" + ("+".join(rq["extra"]["topics"]) or "-")
        if n == "coord":
            return "coord:" + rq["extra"]["group"]
        if n in ("produce", "fetch", "offset", "commit", "ofetch"):
            return "payloads:" + ("+".join("%s:%d" % k for k in sorted(set(rq["keys"]))) or "-")
        if n in ("leave", "join", "heartbeat", "sync"):
            return "group:" + rq["extra"]["group"]
        if n == "apiversions":
            return "group:apiversions"  # version discovery (beyond-model stage only; the monitors ignore the content)
        return n

    def timers_line(self):
        live = []
        for dc in self.clock.getDelayedCalls():
            nm = getattr(dc, "_verif_name", None)
            if nm is not None:
                live.append((dc.getTime(), nm))
        # Clock order: by time, stable
        return live

    # ---- results
    def _watch(self, o, d):
        self.ops.setdefault(o, {}).update(d=d, result=None)

        def done(r):
            self.ops[o]["result"] = self.canon_result(o, r)
            self.obs("result %d %s" % (o, self.ops[o]["result"]))
            return None

        d.addBoth(done)
        if self.close_armed:
            self.close_armed = False

            def close_now(r):
                if self.close_log_idx is None:  # not while (or after) another close() runs
                    self.api_close()
                return r

            d.addBoth(close_now)

    def canon_result(self, o, r):
        from afkak.common import FailedPayloadsError

        op = self.ops[o]
        if isinstance(r, Failure):
            if isinstance(r.value, FailedPayloadsError):
                tags = [self.tag_of(o, x) for x in r.value.responses]
                keys = op["keys"]
                used = set()
                fl = []
                for p, f in r.value.failed_payloads:
                    cands = [i for i, pl in enumerate(op["payload_objs"]) if pl is p]
                    i = next((i for i in cands if i not in used), cands[0] if cands else -1)
                    used.add(i)
                    fl.append("%d:%s" % (i, kind_of(f)))
                return "failedPayloads %s %s" % (CC.ints(tags), CC.lst(fl))
            return "fail " + kind_of(r)
        if r is True or isinstance(r, dict):
            return "ok True"
        if r is None:
            return "ok None"
        if isinstance(r, list):
            return "responses " + CC.ints([self.tag_of(o, x) for x in r])
        if hasattr(r, "error"):
            return "simple %d" % r.error
        return "ok " + repr(r)

    def tag_of(self, o, resp):
        """identity tag of a decoded response object: the harness encodes it in the offset field
        (commit responses have none: a function of their content)"""
        for attr in ("offset", "highwaterMark", "offsets"):
            if hasattr(resp, attr):
                v = getattr(resp, attr)
                return v[0] if isinstance(v, tuple) else v
        return commit_tag(resp.topic, resp.partition, resp.error)

    # ---- API commands
    def new_op(self):
        o = self.nops
        self.nops += 1
        return o

    def api_load(self, topics):
        o = self.new_op()
        with self.step("load %d %s" % (o, CC.lst(topics))):
            # the broker-unaware request this load makes uses the next correlation id
            self.obs("t-uop %d %d" % (self.unaware_id((self.client.correlation_id + 1) % 2**31), o))
            try:
                d = self.client.load_metadata_for_topics(*topics)
            except Exception as e:  # synchronous raise
                self.obs("raised %d %s" % (o, type(e).__name__))
                return o
            self._watch(o, d)
        self.settle()
        return o

    def api_send(self, api, keys, foe=True, expect=True, group=None):
        from afkak import common as K

        o = self.new_op()
        c = self.client
        garg = group.encode() if (group is not None and self.bytes_groups) else group
        if api == "produce":
            payloads = [K.ProduceRequest(t, p, []) for t, p in keys]
            call = lambda: c.send_produce_request(payloads, acks=1 if expect else 0, fail_on_error=foe)
        elif api == "fetch":
            payloads = [K.FetchRequest(t, p, 0, 1024) for t, p in keys]
            call = lambda: c.send_fetch_request(payloads, fail_on_error=foe, max_wait_time=100)
        elif api == "offset":
            payloads = [K.OffsetRequest(t, p, -1, 1) for t, p in keys]
            call = lambda: c.send_offset_request(payloads, fail_on_error=foe)
        elif api == "commit":
            payloads = [K.OffsetCommitRequest(t, p, 5, -1, b"") for t, p in keys]
            call = lambda: c.send_offset_commit_request(garg, payloads, fail_on_error=foe)
        elif api == "ofetch":
            payloads = [K.OffsetFetchRequest(t, p) for t, p in keys]
            call = lambda: c.send_offset_fetch_request(garg, payloads, fail_on_error=foe)
        else:
            raise ValueError(api)
        with self.step("send %d %s %d %d %s" % (o, group or "-", 1 if foe else 0, 1 if expect else 0, CC.fmt_keys(keys))):
            self.ops[o] = {"d": None, "result": None, "keys": [tuple(k) for k in keys], "payload_objs": payloads, "api": api, "group": group, "foe": foe, "expect": expect}
            for i, pl in enumerate(payloads):
                self.payload_ids[id(pl)] = (o, i)
            try:
                d = call()
            except Exception as e:
                self.obs("raised %d %s" % (o, type(e).__name__))
                return o
            self._watch(o, d)
        self.settle()
        return o

    def api_cload(self, g):
        o = self.new_op()
        with self.step("cload %d %s" % (o, g)):
            d = self.client.load_coordinator_for_group(g.encode() if self.bytes_groups else g)
            self._watch(o, d)
        self.settle()
        return o

    def api_srtc(self, g, min_timeout=None):
        from afkak.common import _LeaveGroupRequest
        from afkak.kafkacodec import KafkaCodec

        o = self.new_op()
        kw = {} if min_timeout is None else {"min_timeout": float(min_timeout)}
        with self.step("srtc %d %s %s" % (o, g, "-" if min_timeout is None else rat(Fraction(min_timeout)))):
            d = self.client._send_request_to_coordinator(g.encode() if self.bytes_groups else g, _LeaveGroupRequest(g, "m"), KafkaCodec.encode_leave_group_request, KafkaCodec.decode_leave_group_response, **kw)
            self._watch(o, d)
        self.settle()
        return o

    def api_ltp(self, topics):
        o = self.new_op()
        self.cur_ltp = self.nltp
        self.nltp += 1
        try:
            with self.step("ltp %d %s" % (o, CC.lst(topics))):
                d = self.client._load_topic_partitions(*topics)
                self._watch(o, d)
        finally:
            self.cur_ltp = None
        self.settle()
        return o

    def api_cancel(self, o):
        with self.step("cancel %d" % o):
            self.ops[o]["d"].cancel()
        self.settle()

    def split_step(self, new_line):
        """an API call made from inside a callback: the record of the step in progress ends here and what follows is
        recorded under the new event (the model is NOT compared on such runs; the monitors read the real trace)"""
        line = self.cur_line_override or self.cur_line
        if self.cur_env["sh"]:
            line += " sh=" + "/".join(".".join(str(i) for i in p) if p else "" for p in self.cur_env["sh"])
        if self.cur_env["sd"]:
            line += " sd=" + ",".join(str(b) for b in self.cur_env["sd"])
        self.steps.append({"line": line, "obs": self.cur_obs, "dump": CC.dump_real(self.client), "timers": self.timers_line(), "t": self.clock.seconds()})
        self.cur_obs = []
        self.cur_env = {"sh": [], "sd": []}
        self.cur_line_override = new_line
        self.nested_close = True

    def close_fired(self, o):
        """the Deferred returned by close() fires.  Independently of what the broker clients report through their own
        close Deferreds: a broker client's connection that is still open on the client's side at this moment is shown
        to the C20 monitor as network state that must not be after close (bootstrap connections: known finding, they
        have their own rule)"""
        for c in self.net.conns:
            # `_verif_lost`: the connection-lost notification has been (or is being) delivered to the client's protocol;
            # iosim sets `disconnected` only after connectionLost() has returned, and the close Deferred may fire inside it
            if (getattr(c, "boot", None) is None and c not in self.boot_conns.values() and not c.ct.disconnected
                    and not getattr(c, "_verif_lost", False)):
                self.annot("t-net open conn=%d when the close Deferred fired" % c.cid)
        self.obs("closeFired %d" % o)

    def api_close(self):
        o = self.new_op()
        if self.close_log_idx is None:
            self.close_log_idx = len(self.net.log)
        if self.depth > 0:
            self.split_step("close %d" % o)
            try:
                d = self.client.close()
            except AttributeError:
                self.obs("raised %d AttributeError" % o)
                d = None
            if d is not None:
                self.ops[o] = {"d": d, "result": None, "is_close": True}
                d.addBoth(lambda r: self.close_fired(o))
            return o
        with self.step("close %d" % o):
            try:
                d = self.client.close()
            except AttributeError:
                self.obs("raised %d AttributeError" % o)
                d = None
            if d is not None:
                self.ops[o] = {"d": d, "result": None, "is_close": True}
                d.addBoth(lambda r: self.close_fired(o))
        self.settle()
        return o

    def api_reset_topics(self, topics):
        with self.step("rtopics %s" % CC.lst(topics)):
            self.client.reset_topic_metadata(*topics)

    # ---- environment commands
    def settle(self):
        """move bytes; connection-lost notifications reach the client here (their own steps).
        With `hold_closes`, a connection the client has told to close is not pumped (so neither end
        sees it go away) until `notify` releases it."""
        moved = True
        while moved:
            moved = False
            for c in list(self.net.conns):
                if self.hold_closes and (c.ct.disconnecting or c.st.disconnecting) and c.cid not in self.released and not c.ct.disconnected:
                    continue
                try:
                    if c.pump.flush():
                        moved = True
                except Exception as e:
                    # outside any step: ends up in `stray` (reported as a disagreement)
                    self.obs("exc %s" % type(e).__name__)
                    self.nexc += 1
                    moved = self.nexc < 20
        for j, c in self.boot_conns.items():
            if j not in self.boot_gone and (c.closed or c.ct.disconnected):
                self.boot_gone.add(j)
                self.annot("t-bootgone %d" % j)

    def held(self):
        return [c for c in self.net.conns if (c.ct.disconnecting or c.st.disconnecting) and not c.ct.disconnected and c.cid not in self.released]

    def notify(self, conn):
        """deliver the connection-closed notification of a held connection"""
        self.released.add(conn.cid)
        self.settle()

    def advance(self, dt):
        if self.no_jump:
            # time only moves up to the next pending delayed call of the reactor (timers fire at their due time)
            due = [Fraction(c.getTime()).limit_denominator(10**9) for c in self.clock.getDelayedCalls()]
            if due:
                gap = min(due) - Fraction(self.clock.seconds()).limit_denominator(10**9)
                if 0 <= gap < Fraction(dt):
                    dt = gap
        with self.step("advance %s" % rat(Fraction(dt).limit_denominator(10**6))):
            self.clock.advance(float(Fraction(dt).limit_denominator(10**6)))
        self.settle()

    def pending_connects(self):
        return list(self.net.pending)

    def accept(self, p):
        j = getattr(p, "boot", None)
        if j is not None:
            with self.step("bootok %d" % j):
                conn = self._accept(p, j)
                self.last_boot_write = j
        else:
            with self.xstep("x-connok %s" % getattr(p.factory, "b", "?")):
                conn = self._accept(p, None)
        self.settle()
        return conn

    def _install_conn_hook(self):
        """every Conn created for this Sim reports, synchronously, what the client does to its transport"""
        import harness.sim.world as WW

        sim = self
        if getattr(WW.Conn, "_verif_hooked", None) is None:
            orig_init = WW.Conn.__init__

            def init(cself, net, *a, **kw):
                orig_init(cself, net, *a, **kw)
                hook = getattr(net, "conn_created", None)
                if hook is not None:
                    hook(cself)

            WW.Conn.__init__ = init
            WW.Conn._verif_hooked = True

        def created(conn):
            ow, ol = conn.ct.write, conn.ct.loseConnection
            state = {"w": False}

            def write(data):
                if sim.close_log_idx is not None:
                    sim.annot("t-net write conn=%d bytes=%d" % (conn.cid, len(data)))
                j = sim.accepting_boot
                if j is None:
                    j = getattr(conn, "boot", None)
                if j is not None and not state["w"]:
                    state["w"] = True
                    sim.obs("bootWrite %d" % j)
                elif j is None and len(data) >= 12:
                    corr = int.from_bytes(data[8:12], "big", signed=True)
                    for bc in sim.bcs:
                        if bc.proto is conn.client_protocol and corr in bc.k_by_corr:
                            sim.annot("t-wrote %d %d" % (bc.k_by_corr[corr], conn.cid))
                            sim.xbc(bc.b, "%s %d" % ("writeLost" if conn.ct.disconnecting else "write", bc.k_by_corr[corr]))
                return ow(data)

            def lose(*a2, **k2):
                j = getattr(conn, "boot", None)
                if j is not None:
                    sim.obs("bootLose %d" % j)
                else:
                    sim.annot("t-lose %d" % conn.cid)
                    for bc in sim.bcs:
                        if bc.proto is conn.client_protocol:
                            sim.xbc(bc.b, "lose")
                return ol(*a2, **k2)

            conn.ct.write, conn.ct.loseConnection = write, lose
            proto = conn.client_protocol
            ocl = proto.connectionLost

            def lost(*a2, **k2):
                conn._verif_lost = True
                return ocl(*a2, **k2)

            proto.connectionLost = lost

        self.net.conn_created = created
        self.accepting_boot = None

    def _accept(self, p, j):
        if j is not None:
            self.last_boot_write = j
            self.accepting_boot = j
            try:
                conn = p.accept()
            finally:
                self.accepting_boot = None
            conn.boot = j
            self.boot_conns[j] = conn
        else:
            conn = p.accept()
            conn.boot = None
        return conn

    def refuse(self, p):
        j = getattr(p, "boot", None)
        if j is not None:
            with self.step("bootfail %d" % j):
                p.refuse()
        else:
            with self.xstep("x-connfail %s" % getattr(p.factory, "b", "?")):
                p.refuse()
        self.settle()

    def outstanding(self):
        """request frames received by the simulated brokers and not answered yet: (conn, frame, parsed)"""
        out = []
        for c in self.net.conns:
            answered = getattr(c, "answered", set())
            for i, f in enumerate(c.frames):
                if i not in answered and not c.closed:
                    out.append((c, i, f, W.parse_request(f)))
        return out

    def reply(self, conn, idx, desc, body):
        """answer frame #idx of conn with body; desc = model payload tokens (after 'ok')"""
        frame = conn.frames[idx]
        conn.answered = getattr(conn, "answered", set()) | {idx}
        corr = int.from_bytes(frame[4:8], "big", signed=True)
        j = getattr(conn, "boot", None)
        if j is not None:
            live = self.boot_live(j)
            if not live:
                return False
            rq = W.parse_request(frame)
            if rq["name"] == "metadata":
                self.boot_meta_all[j] = not rq["extra"]["topics"]
            with self.step("bootreply %d %s" % (j, desc)):
                conn.respond(frame, body)
                conn.flush()
        else:
            bc = self.bc_of_conn(conn)
            if bc is None:
                return False
            self.reply_desc[(bc.b, corr)] = "ok " + desc
            conn.respond(frame, body)
            conn.flush()
        self.settle()
        return True

    def boot_live(self, j):
        c = self.boot_conns.get(j)
        return c is not None and not c.ct.disconnecting and not c.ct.disconnected and not c.closed

    def bc_of_conn(self, conn):
        for bc in self.bcs:
            if bc.proto is not None and bc.proto is conn.client_protocol:
                return bc
        return None

    def drop(self, conn):
        j = getattr(conn, "boot", None)
        if j is not None and self.boot_live(j):
            with self.step("bootlost %d" % j):
                conn.drop()
                self.released.add(conn.cid)
                conn.flush()
        else:
            self.annot("t-lose %d" % conn.cid)  # the connection is going away (dropped by the broker/network)
            conn.drop()
            self.released.add(conn.cid)
            conn.flush()
        self.settle()

    # ---- model lines
    def model_lines(self):
        lines = [self.cfg_line]
        for st in self.steps:
            lines.append(st["line"])
            lines.append("ndump")
        return lines

    def trace_lines(self):
        """the observed trace for the Lean monitors (t-* lines), followed by nothing"""
        lines = [self.cfg_line]
        for st in self.steps:
            lines.append("t-ev " + st["line"])
            for o in st["obs"]:
                lines.append(o if o.startswith("t-") else "t-exc " + o[4:] if o.startswith("exc ") else "t-ob " + o)
            if st["dump"] is not None:
                lines.append("t-dump " + six(st["dump"]) + " " + pmeta(st["dump"]))
                lines.append("t-timers " + CC.lst("%s@%s" % (nm, rat(Fraction(t).limit_denominator(10**9))) for t, nm in st["timers"]))
        for o in self.stray:
            if o.startswith("exc "):
                lines.append("t-exc " + o[4:])
        if self.close_log_idx is not None:
            for e in self.net.log[self.close_log_idx:]:
                if e[0] == "connect":
                    lines.append("t-net connect %s %s" % (e[1], e[2]))
            if self.net_quiet():
                lines.append("t-quiet")
        return lines


def six(dump):
    d = {l.split(" ", 1)[0]: l.split(" ", 1)[1] for l in dump}
    return " ".join(d[k] for k in ("brokers", "clients", "t2b", "parts", "errs", "groups"))


def pmeta(dump):
    return [l.split(" ", 1)[1] for l in dump if l.startswith("pmeta ")][0]


def model_obs(st):
    """the observations of a step that the model must reproduce (annotations removed)"""
    return [o for o in st["obs"] if not o.startswith("t-")]
