"""Cross-layer (xl) stage, shared part: the REAL Producer over the REAL KafkaClient over real broker
clients over the simulated cluster (harness/sim/cluster.py), driven by a JSON script, observed ONLY at
places that are independent of the code under test:

  * what the brokers RECEIVED (cluster.log: every request frame, parsed strictly by refcodec) and what
    their partition logs hold,
  * what the brokers ANSWERED (the metadata responses: which partitions of a topic the client was told
    of, in which listing order, with which leaders),
  * what the Producer handed to its partitioner (a recording SUBCLASS of the stock partitioner passed as
    `partitioner_class` - the documented customisation point; it delegates to the stock code),
  * what the application saw (how each send Deferred ended, what a fetch decoded).

Script (JSON, also the replay format; every random choice is in it):
  {"xl": "c18" | "c04", "seed": n,
   "cluster": {"brokers": k, "chunked": bool, "connect_delay": seconds a connection attempt takes (default 0),
               "topics": [{"name": "x0", "order": [2,0,3,1], "leaders": [1,2,-1,1], "message_format": null|0|1}],  # listing order; -1 = no leader
               "per_broker_listing": bool (each broker lists partitions in an order of its own), "auto_create": n (default partitions),
               "api": {"table": [[key,min,max]..] | null (pre-0.10 broker), "old_mode": "close"|"ignore", "error": code}},
   "client": {"timeout": ms, "enable_protocol_version_discovery": bool},
   "producer": {Producer kwargs, "partitioner": "rr" | "hashed"},
   "producers": [{Producer kwargs}, ..],   # optional: FURTHER producers sharing the same client (send step: "producer": 1, 2, ..)
   "warm": bool,                       # load the metadata of all topics before the first step
   "steps": [{"at": t, "do": ...}], "until": T, "final_fetch": bool}
steps:  send {sid, topic, key: hex|null, n, size}  refresh {topics}  grow {topic, add, leaders, order}
        reorder {topic, order}  move_leader {topic, partition, new, old}  kill_broker/start_broker {node_id}
        restart_broker / remove_from_metadata / restore_to_metadata {node_id}
        inject {action, api, ...}  clear_faults  hang {nodes}  heal {nodes}  set {broker, attr, value}
        fetch {label, max_wait_time, min_bytes, tag}   # tag: the call asks for max_bytes = 2^20 + tag (identifies its frames)
"""
import collections
import random
import warnings

APIS = {0: "Produce", 1: "Fetch", 3: "Metadata", 18: "ApiVersions"}
CONNECT_TIMEOUT = 30.0


def value_of(sid, i, size=0):
    v = b"s%d.%d" % (sid, i)
    return v + b"." * max(0, size - len(v))


class XLRun(object):
    def __init__(self, script):
        self.script = script
        self.cluster = None
        self.client = None
        self.producer = None
        self.sends = {}  # sid -> dict(topic, key, values, t, n)
        self.outcomes = {}  # sid -> [(t, n, ok, canon)]
        self.picks = []  # {"topic","key","list","result"|"error","n","t"} in the order the partitioner was asked
        self.fetches = []  # {"label", "n", "t", "result": [(topic, partition, error, hw, [(off,key,value)] | "decode-error:..")] | failure}
        self.error = None
        self.api_states = []  # (n, repr of client._api_versions kind) at every send step (coverage only)
        self.producers = []


def _recording(base, run):
    class Recording(base):
        """the stock partitioner; every call is noted with the list it was handed"""

        def partition(self, key, partitions):
            c = run.cluster
            c._seq += 1
            e = {"topic": self.topic, "key": key, "list": list(partitions), "n": c._seq, "t": c.clock.seconds()}
            run.picks.append(e)
            try:
                r = base.partition(self, key, partitions)
            except Exception as ex:  # noqa: BLE001 - the class is the observation
                e["error"] = type(ex).__name__
                raise
            e["result"] = r
            return r

    Recording.__name__ = "Recording" + base.__name__
    return Recording


def build_cluster(spec, seed):
    from harness.sim.cluster import Cluster

    spec = dict(spec)
    rng = random.Random(seed)
    c = Cluster(brokers=spec["brokers"], rng=rng, chunk_rng=random.Random(seed + 1) if spec.get("chunked") else None,
                connect_delay=spec.get("connect_delay", 0))
    if spec.get("auto_create"):
        c.auto_create_topics = True
        c.default_partitions = spec["auto_create"]
    for t in spec["topics"]:
        order, leaders = list(t["order"]), list(t["leaders"])
        nodes = list(c.brokers)
        replicas = [[ld] if ld != -1 else [nodes[i % len(nodes)]] for i, ld in enumerate(leaders)]
        c.add_topic(t["name"], partition_ids=order, leaders=leaders, replicas=replicas, message_format=t.get("message_format"))
    api = spec.get("api") or {}
    if spec.get("per_broker_listing"):
        # every broker lists the partitions of a topic in an order of its own (and keeps to it)
        def hook(b, header, request, resp, _seed=seed):
            if header[0] == 3 and isinstance(resp, dict):
                for t in resp.get("topics", []):
                    random.Random("%d/%d/%s" % (_seed, b.node_id, t["topic"])).shuffle(t["partitions"])
            return resp

        for b in c.brokers.values():
            b.response_hook = hook
    for b in c.brokers.values():
        b.connect_timeout = CONNECT_TIMEOUT
        if "table" in api:
            b.api_versions = None if api["table"] is None else [tuple(e) for e in api["table"]]
            if api["table"] is None:
                b.max_magic = 0  # a pre-0.10 broker knows message format 0 only
        if api.get("old_mode"):
            b.old_broker_mode = api["old_mode"]
        if api.get("error"):
            b.api_versions_error = api["error"]
    return c


def set_listing(cluster, topic, order):
    """the order in which the brokers list the topic's partitions in metadata responses"""
    t = cluster.topics[topic]
    old = t.partitions
    t.partitions = collections.OrderedDict((p, old[p]) for p in order if p in old)
    for p in old:
        if p not in t.partitions:
            t.partitions[p] = old[p]


def grow(cluster, topic, add, leaders, order=None):
    from harness.sim.cluster import Partition

    t = cluster.topics[topic]
    nodes = list(cluster.brokers)
    for i, (pid, ld) in enumerate(zip(add, leaders)):
        if pid not in t.partitions:
            t.partitions[pid] = Partition(topic, pid, ld, [ld] if ld != -1 else [nodes[i % len(nodes)]])
    cluster._admin("grow_topic", topic=topic, added=list(add), leaders=list(leaders))
    if order is not None:
        set_listing(cluster, topic, order)


def run_script(script):
    from harness.sim import fullstack as F
    from harness.sim.cluster import Livelock

    import afkak
    import afkak.common as C
    from afkak.partitioner import HashedPartitioner, RoundRobinPartitioner
    from twisted.python.failure import Failure

    r = XLRun(script)
    cluster = build_cluster(script["cluster"], script["seed"])
    r.cluster = cluster
    steps = sorted(enumerate(script["steps"]), key=lambda x: (x[1]["at"], x[0]))
    saved_rs = RoundRobinPartitioner.randomStart
    RoundRobinPartitioner.randomStart = False
    with warnings.catch_warnings(), F.Determinism(cluster, script["seed"]):
        warnings.simplefilter("ignore")
        try:
            client = F.make_client(cluster, **script.get("client", {}))
            r.client = client
            kw = dict(script["producer"])
            part = kw.pop("partitioner", "rr")
            kw["partitioner_class"] = _recording(HashedPartitioner if part == "hashed" else RoundRobinPartitioner, r)
            producer = afkak.Producer(client, **kw)
            r.producer = producer
            producers = [producer]
            for extra in script.get("producers", []):
                kw2 = dict(extra)
                part2 = kw2.pop("partitioner", part)
                kw2["partitioner_class"] = _recording(HashedPartitioner if part2 == "hashed" else RoundRobinPartitioner, r)
                producers.append(afkak.Producer(client, **kw2))
            r.producers = producers
            if script.get("warm"):
                d = client.load_metadata_for_topics(*[t["name"] for t in script["cluster"]["topics"]])
                d.addErrback(lambda f: None)
                cluster.settle()
            for _i, st in steps:
                if st["at"] > cluster.clock.seconds():
                    cluster.advance(st["at"] - cluster.clock.seconds())
                do = st["do"]
                if do == "send":
                    sid = st["sid"]
                    key = None if st["key"] is None else bytes.fromhex(st["key"])
                    vals = [value_of(sid, i, st.get("size", 0)) for i in range(st["n"])]
                    cluster._seq += 1
                    r.sends[sid] = dict(topic=st["topic"], key=key, values=vals, t=cluster.clock.seconds(), n=cluster._seq, producer=st.get("producer", 0))
                    r.outcomes[sid] = []
                    av = client._api_versions
                    r.api_states.append((cluster._seq, "none" if av is None else "fallback" if av == 0 else "table"))
                    d = producers[st.get("producer", 0)].send_messages(st["topic"], key=key, msgs=vals)

                    def done(res, sid=sid):
                        cluster._seq += 1
                        r.outcomes[sid].append((cluster.clock.seconds(), cluster._seq, not isinstance(res, Failure), F.canon(res)))
                        return None

                    d.addBoth(done)
                elif do == "refresh":
                    d = client.load_metadata_for_topics(*st["topics"])
                    d.addErrback(lambda f: None)
                elif do == "grow":
                    grow(cluster, st["topic"], st["add"], st["leaders"], st.get("order"))
                elif do == "reorder":
                    set_listing(cluster, st["topic"], st["order"])
                elif do == "inject":
                    kw2 = {k: v for k, v in st.items() if k not in ("at", "do")}
                    cluster.inject(kw2.pop("action"), **kw2)
                elif do == "clear_faults":
                    cluster.clear_faults()
                elif do == "hang":
                    for n in st["nodes"]:
                        cluster.brokers[n].silent = True
                elif do == "heal":
                    for n in st["nodes"]:
                        cluster.heal_silence(n)
                elif do == "set":
                    setattr(cluster.brokers[st["broker"]], st["attr"], st["value"])
                elif do in ("move_leader", "kill_broker", "start_broker", "restart_broker", "remove_from_metadata", "restore_to_metadata"):
                    kw2 = {k: v for k, v in st.items() if k not in ("at", "do")}
                    getattr(cluster, do)(**kw2)
                elif do == "fetch":
                    _fetch(r, C, st.get("label", "fetch"), st.get("max_wait_time", 100), st.get("min_bytes", 1), st.get("tag", 0))
                else:
                    raise ValueError(do)
                cluster.settle()
            until = script.get("until", 120.0)
            cluster.run_until(lambda: all(r.outcomes[s] for s in r.outcomes), timeout=max(0.0, until - cluster.clock.seconds()))
            if script.get("final_fetch"):
                # everything works again: faults off, hung brokers healed, dead ones back
                cluster.clear_faults()
                for b in cluster.brokers.values():
                    if b.silent:
                        cluster.heal_silence(b.node_id)
                    if not b.alive:
                        cluster.start_broker(b.node_id)
                    if not b.in_metadata:
                        cluster.restore_to_metadata(b.node_id)
                    b.mode, b.response_delay = "accept", 0
                cluster.settle()
                _fetch(r, C, "final")
                cluster.run_until(lambda: r.fetches[-1]["result"] is not None, timeout=4 * script.get("client", {}).get("timeout", 10000) / 1000.0 + 100)
        except Livelock as e:
            r.error = "livelock: %s" % e
        finally:
            RoundRobinPartitioner.randomStart = saved_rs
    return r


def _fetch(r, C, label, max_wait_time=100, min_bytes=1, tag=0):
    """fetch every partition that has a leader from offset 0 through the real client; decode everything"""
    from twisted.python.failure import Failure

    from harness.sim import fullstack as F

    cluster, client = r.cluster, r.client
    payloads = []
    for t in cluster.topics.values():
        for p in t.partitions.values():
            if p.leader != -1 and cluster.brokers[p.leader].alive:
                payloads.append(C.FetchRequest(t.name, p.id, 0, (1 << 20) + tag))
    cluster._seq += 1
    rec = {"label": label, "n": cluster._seq, "t": cluster.clock.seconds(), "asked": [(p.topic, p.partition) for p in payloads], "result": None,
           "max_wait_time": max_wait_time, "min_bytes": min_bytes, "max_bytes": (1 << 20) + tag}
    r.fetches.append(rec)
    if not payloads:
        rec["result"] = []
        return

    def done(res):
        if isinstance(res, Failure):
            rec["result"] = F.canon(res)
            return None
        out = []
        for x in res:
            try:
                msgs = [(m.offset, m.message.key, m.message.value) for m in x.messages]
            except Exception as e:  # noqa: BLE001 - what the decoder does with the reply is the observation
                msgs = "decode-error: %s: %s" % (type(e).__name__, e)
            out.append((x.topic, x.partition, x.error, x.highwaterMark, msgs))
        rec["result"] = out
        return None

    try:
        d = client.send_fetch_request(payloads, fail_on_error=False, max_wait_time=max_wait_time, min_bytes=min_bytes)
    except Exception as e:  # noqa: BLE001
        rec["result"] = ("raised", type(e).__name__)
        return
    d.addBoth(done)


# --------------------------------------------------------------------------- ground truth helpers


def metadata_views(cluster):
    """{topic: [(n_sent, frozenset(partition ids), [listing order], {pid: leader})]} from every metadata
    response a broker SENT that listed partitions for the topic (what the client may have been told)"""
    out = collections.defaultdict(list)
    for e in cluster.log:
        if e.get("kind") != "request" or e.get("api_key") != 3 or e.get("response") is None:
            continue
        if e.get("fate") not in ("answered", "dropped-mid") or e.get("n_sent") is None:
            continue
        for t in e["response"].get("topics", []):
            if t["partitions"]:
                order = [p["partition"] for p in t["partitions"]]
                out[t["topic"]].append((e["n_sent"], frozenset(order), order, {p["partition"]: p["leader"] for p in t["partitions"]}))
    return out


def produce_frames(cluster):
    """[(entry, version, [(topic, partition, shallow msgs, deep msgs)])] for every Produce request a broker received and
    could parse (the unparseable ones are in cluster.violations)"""
    from harness.sim import refcodec as R

    out = []
    for e in cluster.log:
        if e.get("kind") != "request" or e.get("api_key") != 0 or e.get("request") is None:
            continue
        parts = []
        for t in e["request"].get("topics", []):
            for pd in t["partitions"]:
                shallow = pd.get("messages") or []
                try:
                    deep = R.expand_message_set(shallow)
                except Exception as ex:  # noqa: BLE001
                    deep = "expand-error: %s" % ex
                parts.append((t["topic"], pd["partition"], shallow, deep))
        out.append((e, e["version"], parts))
    return out


def landed(cluster, frames=None):
    """{message value: set of (topic, partition) named by a Produce request that carried it to a broker}"""
    out = collections.defaultdict(set)
    for e, _v, parts in frames if frames is not None else produce_frames(cluster):
        for topic, pid, _sh, deep in parts:
            if isinstance(deep, list):
                for m in deep:
                    out[m["value"]].add((topic, pid))
    return out


def in_logs(cluster):
    """{message value: [(topic, partition, offset, key)]} from the partition logs (acknowledged or not)"""
    out = collections.defaultdict(list)
    for t in cluster.topics.values():
        for p in t.partitions.values():
            for off, key, value, _ts, _magic in p.log.messages():
                out[value].append((t.name, p.id, off, key))
    return out
