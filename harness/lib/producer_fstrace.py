"""Trace validation on the full stack: record what the REAL Producer does at its boundary with the REAL
KafkaClient (the calls it makes on the client and on the client's reactor, and what it gets back), turn
that into the model's event/observation lines, and replay it to `model_producer`.

The Producer is handed a thin recording proxy around the real client.  The proxy changes nothing: the
Producer gets the real client's own Deferreds (an observer callback is added first, and `cancel` is
wrapped on the instance to log the cancellation), the real metadata cache, and timers of the real
(simulated-cluster) reactor.  What the proxy adds is the event stream:

  stimulus from the script ............ `send` / `cancel` / `stop w pout mouts`
  a produce / metadata Deferred fires .. `prodone rid result` / `metadone rid ok|err kind`
  a timer of the producer fires ........ `timer tid` / `tick`
  the real cache differs from what the model last saw (before any of the above): `metaset t err parts`

and the observation stream (`loadmeta`, `produce`, `cancelreq`, `fire`, `settimer`, `canceltimer`,
`resetmeta`, `stoplooper`) - the same line protocol as the scripted harness (producer_drive.RealRun), so
the same diff and the same monitors apply.  A step is closed lazily, at the next stimulus: everything the
Producer does between two stimuli belongs to the earlier one.

Traces that contain something the model's vocabulary cannot express (a result kind outside ClientIface's
closed set, a client Deferred that has already fired when it is returned) are counted and skipped.
"""
from fractions import Fraction

from twisted.internet import defer
from twisted.internet.task import LoopingCall
from twisted.python.failure import Failure

from harness.lib import producer_drive as D
from harness.lib.producer_fakeclient import payload_messages

UNKNOWN_TOPIC = 3


class Unmodelled(Exception):
    pass


def kind_of(exc):
    k = D.kind_of(exc)
    if k.startswith("x:") or k.startswith("k:") or k in ("fp", "ac?"):
        raise Unmodelled("result kind %s (%s)" % (k, type(exc).__name__))
    return k


class TimerHandle(object):
    """what `callLater` returns to the Producer / LoopingCall: the real DelayedCall, cancel logged"""

    def __init__(self, tracer, tid, dc):
        self._tracer, self._tid, self._dc = tracer, tid, dc

    def cancel(self):
        self._tracer.log.append(("canceltimer", self._tid))
        return self._dc.cancel()

    def __getattr__(self, name):
        return getattr(self._dc, name)


class ProxyReactor(object):
    def __init__(self, tracer, real):
        self._tracer, self._real = tracer, real
        self.next_tid = 0

    def seconds(self):
        return self._real.seconds()

    def callLater(self, delay, f, *args, **kw):
        tr = self._tracer
        if isinstance(f, LoopingCall):
            tid = "L"
        else:
            tid = self.next_tid
            self.next_tid += 1
        tr.log.append(("settimer", tid, delay))

        def fired():
            tr.begin("tick" if tid == "L" else "timer %d" % tid)
            f(*args, **kw)
            tr.end()

        return TimerHandle(tr, tid, self._real.callLater(delay, fired))

    def __getattr__(self, name):
        return getattr(self._real, name)


def _produce_request_parts(request):
    """[(topic, partition)] of an encoded Produce request (v0-v2), in wire order; api version"""
    import struct

    ver = struct.unpack(">h", request[2:4])[0]
    i = 8
    (n,) = struct.unpack(">h", request[i:i + 2])
    i += 2 + max(n, 0) + 2 + 4  # client id, acks, timeout
    (nt,) = struct.unpack(">i", request[i:i + 4])
    i += 4
    out = []
    for _ in range(nt):
        (n,) = struct.unpack(">h", request[i:i + 2])
        topic = request[i + 2:i + 2 + n].decode()
        i += 2 + n
        (np_,) = struct.unpack(">i", request[i:i + 4])
        i += 4
        for _ in range(np_):
            part, size = struct.unpack(">ii", request[i:i + 8])
            i += 8 + size
            out.append((topic, part))
    return ver, out


class ClientCall(object):
    """one `send_produce_request` of the REAL client, as seen from both of its sides: the payloads and the result at
    the Producer's boundary; below it the leaders its cache named when it routed, the broker requests it issued
    (node id, partitions on the wire) and what each came to.  Input of the composed model's `sendProduce`
    (`Afkak/ProducerCompose.lean`, driver request `compose-call`)."""

    def __init__(self, rid, payloads, loads):
        self.rid = rid
        self.keys = [(D.topic_index(p.topic), p.partition) for p in payloads]
        self.loads_at_start = loads
        self.leaders = None  # aligned with keys: node id | None (no leader) | "x" (key absent)
        self.reqs = []  # {"node", "parts", "out"}  out: ("ok", [[t, p, err, off]]) | ("fail", kind) | None (pending)
        self.reloaded = False  # a metadata load ran between the call and its first broker request
        self.result = None  # tokens of the result handed to the Producer
        self.odd = None  # why this call cannot be compared


class ProxyClient(object):
    def __init__(self, tracer, real):
        self._tracer, self._real = tracer, real
        self.reactor = ProxyReactor(tracer, real.reactor)
        self.next_rid = 0
        self.pending = {}  # rid -> ("meta"|"produce", args)
        self.calls = []  # ClientCall, in call order
        self.loads = 0
        self._wrap_real()

    # ---- the client's lower side: its broker requests for Produce, its metadata loads
    def _leaders(self, call):
        from afkak.common import TopicAndPartition

        out = []
        for t, p in call.keys:
            b = self._real.topics_to_brokers.get(TopicAndPartition(D.topic_name(t), p), "x")
            out.append(b if b in ("x", None) else b.node_id)
        return out

    def _open_call(self):
        opened = [c for c in self.calls if c.result is None]
        if len(opened) > 1:
            for c in opened:
                c.odd = "two produce calls were open at once"
        return opened[-1] if opened else None

    def _wrap_real(self):
        real = self._real
        orig_mrtb = real._make_request_to_broker
        orig_load = real.load_metadata_for_topics

        def load(*a, **k):
            self.loads += 1
            return orig_load(*a, **k)

        def mrtb(broker, requestId, request, *a, **k):
            d = orig_mrtb(broker, requestId, request, *a, **k)
            try:
                if bytes(request[:2]) == b"\x00\x00":
                    call = self._open_call()
                    if call is not None:
                        if not call.reqs:
                            call.leaders = self._leaders(call)
                            call.reloaded = self.loads != call.loads_at_start
                        ver, parts = _produce_request_parts(bytes(request))
                        # ("corr"/"t"/"t_done": which broker-side log entry this is, when it was issued and when it ended -
                        # coverage measurements and the duplicate monitor of the full-stack stage)
                        entry = {"node": broker.node_id, "parts": [(D.topic_index(t), p) for t, p in parts], "out": None,
                                 "corr": requestId, "t": real.reactor.seconds(), "t_done": None}
                        call.reqs.append(entry)

                        def done(res, entry=entry, ver=ver, call=call):
                            entry["t_done"] = real.reactor.seconds()
                            try:
                                if isinstance(res, Failure):
                                    entry["out"] = ("fail", kind_of(res.value))
                                elif not res:
                                    entry["out"] = ("ok", [])
                                else:
                                    from afkak.kafkacodec import KafkaCodec

                                    entry["out"] = ("ok", [[D.topic_index(r.topic), r.partition, r.error, r.offset]
                                                           for r in KafkaCodec.decode_produce_response(res, api_version=ver)])
                            except Unmodelled as e:
                                call.odd = str(e)
                            except Exception as e:  # noqa: BLE001
                                call.odd = "outcome not decoded: %r" % (e,)
                            return res

                        d.addBoth(done)
            except Exception as e:  # noqa: BLE001  (never disturb the client)
                self._tracer.stats["compose:recorder-error"] += 1
            return d

        real._make_request_to_broker = mrtb
        real.load_metadata_for_topics = load

    @property
    def topic_partitions(self):
        return self._real.topic_partitions

    @property
    def _api_versions(self):
        return self._real._api_versions

    def metadata_error_for_topic(self, topic):
        return self._real.metadata_error_for_topic(topic)

    def reset_topic_metadata(self, *topics):
        self._tracer.log.append(("resetmeta", tuple(sorted(topics))))
        self._tracer.model_reset(topics)
        return self._real.reset_topic_metadata(*topics)

    def _watch(self, kind, args, d):
        tr = self._tracer
        rid = self.next_rid
        self.next_rid += 1
        self.pending[rid] = (kind, args)
        if kind == "meta" and d.called and not isinstance(getattr(d, "result", None), defer.Deferred):
            # (a produce request that is answered at once - acks=0 - is split into two model steps, see `completed`)
            tr.skip("the client returned an already fired Deferred (%s: %r)" % (kind, getattr(d, "result", None)))
        orig_cancel = d.cancel

        def cancel():
            if not d.called:
                tr.log.append(("cancelreq", rid))
            return orig_cancel()

        d.cancel = cancel
        return rid, d

    def load_metadata_for_topics(self, *topics):
        d = self._real.load_metadata_for_topics(*topics)
        tr = self._tracer
        mark = len(tr.log)
        rid, d = self._watch("meta", topics, d)
        tr.log.insert(mark, ("loadmeta", rid, topics))
        d.addBoth(tr.completed, rid, "meta", topics)
        return d

    def send_produce_request(self, payloads=None, acks=1, timeout=1000, fail_on_error=True, callback=None):
        payloads = list(payloads)
        self.calls.append(ClientCall(None, payloads, self.loads))
        self.calls[-1].t0 = self._real.reactor.seconds()
        d = self._real.send_produce_request(payloads=payloads, acks=acks, timeout=timeout,
                                            fail_on_error=fail_on_error, callback=callback)
        tr = self._tracer
        mark = len(tr.log)
        rid, d = self._watch("produce", payloads, d)
        call = self.calls[-1]
        call.rid = rid
        if d.called and call.leaders is None:
            call.leaders = self._leaders(call)
        try:  # coverage only: how many brokers lead the payloads of this request, as the client's cache has it
            from afkak.common import TopicAndPartition

            leaders = set(getattr(self._real.topics_to_brokers.get(TopicAndPartition(pl.topic, pl.partition)), "node_id", None)
                          for pl in payloads)
            if len(leaders) >= 2:
                tr.stats["multibroker-request"] += 1
                tr.multibroker.add(rid)
        except Exception:  # noqa: BLE001
            pass
        tr.log.insert(mark, ("produce", rid, payloads, acks, timeout, fail_on_error))
        if d.called and not isinstance(getattr(d, "result", None), defer.Deferred) and not d.callbacks:
            # answered before it is returned (acks=0: nothing to wait for).  The Producer will handle the answer
            # the moment it attaches its callback: that is where the model's next step (`prodone`) begins.
            names = ("addCallbacks", "addCallback", "addErrback", "addBoth")
            origs = {n: getattr(d, n) for n in names}

            def hook(name):
                def add(*a, **k):
                    if "addBoth" in d.__dict__:
                        for n in names:
                            del d.__dict__[n]
                        tr.completed(d.result, rid, "produce", payloads)
                    return origs[name](*a, **k)
                return add

            for n in names:
                setattr(d, n, hook(n))
        else:
            d.addBoth(tr.completed, rid, "produce", payloads)
        return d


class Tracer(D.RealRun):
    """the recorder; reuses RealRun's encoding of observations, payload segmentation and snapshots"""

    def __init__(self, cfg, real_client, producer_kwargs, topics):
        import afkak.producer as P

        self.cfg = cfg
        self.log = []
        self.client = ProxyClient(self, real_client)
        self.real_client = real_client
        self.topics = list(topics)
        self.sends, self.dmap, self.deferreds, self.fired = {}, {}, {}, {}
        self.settled = set()
        self.steps = []
        self.skipped = None
        self.next_sid = 0
        self.hook_sids = {}
        self.tx_after_stop = None
        self._stop_returned = False
        self.sent_payloads = []
        self.success_never_sent = None
        self.moved = {}  # step index -> sid whose own firing is observed last (see producer_drive.diff)
        self._override = self._cur_sid = self._cur_line = None  # (RealRun's split of synchronous answers: not used here)
        self.flat_lines = {}
        self.sync_count = 0
        import collections

        self.stats = collections.Counter()  # coverage counters for the evidence histogram
        self.multibroker = set()  # rids of produce requests whose payloads are led by >= 2 brokers
        self.model_meta = {}  # topic -> (err, parts|None) as the model's cache has it; absent = unknown
        self.pending_line = None
        self.pending_sid = None
        self.cur_line = self.cur_sid = None
        self.depth = 0
        self.in_stop = False
        self.stop_outs = {}
        self.stop_wiped = False
        orig_wipe = real_client.reset_all_metadata

        def wipe():
            if self.in_stop:
                self.stop_wiped = True
            return orig_wipe()

        real_client.reset_all_metadata = wipe
        self.producer = P.Producer(self.client, **producer_kwargs)
        self.init_obs = self._drain()

    def skip(self, why):
        if self.skipped is None:
            self.skipped = why

    # ---- the model's view of the metadata cache
    def real_meta(self, topic):
        c = self.real_client
        parts = c.topic_partitions.get(topic)
        return (c.metadata_error_for_topic(topic), None if parts is None else list(parts))

    def model_reset(self, topics):
        for t in topics:
            self.model_meta.pop(t, None)

    def sync_meta(self):
        for t in self.topics:
            real = self.real_meta(t)
            if real != self.model_meta.get(t, (UNKNOWN_TOPIC, None)):
                self.model_meta[t] = real
                self.steps.append((D.event_line(["metaset", D.topic_index(t), real[0], real[1]]), [], self.snapshot()))

    def snapshot(self):
        # inside `send_messages` (a step split there) the Deferred being created is not registered yet
        if self.cur_sid is not None:
            for d in self.producer._outstanding:
                self.dmap.setdefault(id(d), self.cur_sid)
        return D.RealRun.snapshot(self)

    # ---- steps
    def flush(self):
        if self.pending_line is not None:
            line, sid = self.pending_line, self.pending_sid
            self.pending_line = self.pending_sid = None
            try:
                if sid is not None and not line.startswith("send "):
                    self.moved[len(self.steps)] = sid
                self._push(line, move_fire_of=sid)
            except Unmodelled as e:
                self.skip(str(e))
                del self.log[:]

    def begin(self, line, sid=None):
        """a stimulus is about to enter the Producer"""
        if self.depth == 0:
            self.flush()
            try:
                self.sync_meta()
            except Exception as e:  # noqa: BLE001
                self.skip("cache read failed: %r" % (e,))
            self.cur_line, self.cur_sid = line, sid
        else:
            self.skip("a stimulus arrived while the Producer was handling another one")
        self.depth += 1

    def end(self):
        self.depth -= 1
        if self.depth == 0:
            self.pending_line, self.pending_sid = self.cur_line, self.cur_sid

    def split(self, line):
        """the client answered a produce request before returning it (acks=0: nothing to wait for): what the
        Producer has done so far is one model step (it ends with the produce request), what it does from here
        on - handling the answer - is the next one"""
        self.pending_line, self.pending_sid = self.cur_line, self.cur_sid
        self.flush()
        # (still inside `send_messages` of cur_sid, if this stimulus is a send: its own firing is seen last)
        self.cur_line = line

    def finish(self):
        self.flush()

    # ---- results of the client
    def result_tokens(self, kind, args, result):
        import afkak.common as C

        if kind == "meta":
            if isinstance(result, Failure):
                return ["err", kind_of(result.value)]
            return ["ok"]
        if not isinstance(result, Failure):
            if result is None:
                return ["none"]
            if not isinstance(result, (list, tuple)) or not all(isinstance(r, C.ProduceResponse) for r in result):
                raise Unmodelled("produce result %r" % (result,))
            return ["resp", [[D.topic_index(r.topic), r.partition, r.error, r.offset] for r in result]]
        e = result.value
        if isinstance(e, C.FailedPayloadsError):
            rs, fps = e.args[0], e.args[1]
            out = []
            for (p, f) in fps:
                wrapped = isinstance(f, Failure)
                out.append([D.topic_index(p.topic), p.partition, kind_of(f.value if wrapped else f), wrapped])
            return ["fail", [[D.topic_index(r.topic), r.partition, r.error, r.offset] for r in rs], out]
        return ["err", kind_of(e)]

    def completed(self, result, rid, kind, args):
        """first callback on every Deferred the client hands to the Producer"""
        try:
            return self._completed(result, rid, kind, args)
        except Exception as e:  # noqa: BLE001  (never disturb the Producer)
            self.skip("tracer error: %r" % (e,))
            return result

    def _completed(self, result, rid, kind, args):
        try:
            toks = self.result_tokens(kind, args, result)
        except Unmodelled as e:
            self.skip(str(e))
            toks = ["ok"] if kind == "meta" else ["none"]
        if kind == "produce":
            for call in self.client.calls:
                if call.rid == rid and call.result is None:
                    call.result = toks
                    if call.leaders is None:
                        call.leaders = self.client._leaders(call)
        if kind == "produce" and rid in self.multibroker and toks[0] == "fail":
            self.stats["multibroker-request-failed-" + ("partly" if len(toks[2]) < len(args) else "wholly")] += 1
            first = (D.topic_index(args[0].topic), args[0].partition)
            if toks[1] and first in [(f[0], f[1]) for f in toks[2]]:
                self.stats["multibroker-request-first-broker-failed-others-answered"] += 1
        if self.in_stop:
            self.stop_outs[rid] = (kind, toks)
            return result
        line = D.event_line(["metadone" if kind == "meta" else "prodone", rid, toks])
        if self.depth > 0:
            if kind == "produce":
                self.split(line)
            return result
        self.begin(line)
        # the Producer's own callbacks run right after this one, inside the same firing
        self.end()
        return result

    # ---- stimuli from the script
    def send(self, sid, topic, key, sizes, values):
        self.begin(D.event_line(["send", sid, D.topic_index(topic), None if key is None else key.hex(), sizes]), sid)
        self.sends[sid] = (D.topic_index(topic), key, values)
        d = self.producer.send_messages(topic, key=key, msgs=values)
        self.dmap[id(d)] = sid
        self.deferreds[sid] = d
        d.addCallbacks(self._fire_cb, self._fire_cb, callbackArgs=(sid, True), errbackArgs=(sid, False))
        self.end()
        return d

    def cancel(self, sid):
        self.begin("cancel %d" % sid)
        self.deferreds[sid].cancel()
        self.end()

    def stop(self):
        self.begin("stop ?")
        self.in_stop, self.stop_outs, self.stop_wiped = True, {}, False
        try:
            self.producer.stop()
        finally:
            self.in_stop = False
        pout, mouts = "-", []
        for rid, (kind, toks) in sorted(self.stop_outs.items()):
            if kind == "meta":
                mouts.append("%d:%s" % (rid, "ok" if toks[0] == "ok" else toks[1]))
            else:
                pout = "%d:%s" % (rid, D.result_str(toks).replace(" ", "~"))
        if self.stop_wiped:
            self.model_meta.clear()
        self.cur_line = "stop %d %s %s" % (1 if self.stop_wiped else 0, pout, ",".join(mouts) or "-")
        self.end()

    def _fire_cb(self, result, sid, ok):
        try:
            D.RealRun._fire_cb(self, result, sid, ok)
        except Unmodelled as e:
            self.skip(str(e))
        return result  # transparent: the script's own callback (ground-truth outcomes) comes next


def cfg_of(prod):
    """the scripted harness' cfg record for a full-stack script's Producer kwargs"""
    def fr(x):
        return D.fstr(Fraction(x))

    return {
        "acks": prod["req_acks"], "max_attempts": prod["max_req_attempts"], "retry_interval": fr(prod["retry_interval"]),
        "batch_send": bool(prod["batch_send"]), "n": prod["batch_every_n"], "b": prod["batch_every_b"],
        "t": None if prod["batch_every_t"] is None else fr(prod["batch_every_t"]),
        "partitioner": prod.get("partitioner", "rr"), "codec": prod.get("codec") or 0,
    }
