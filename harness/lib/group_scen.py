"""Scenario generation, execution and comparison for the group component (C16, C17).

A scenario is `{"cfg": [initial, retry, fatal, heartbeat ms], "events": [event text…]}`.  Scenarios are
generated ON-LINE against the real ConsumerGroup in a `GroupWorld` (the generator only offers what the
real object has enabled: replies to pending requests, due timers, consumers that exist), every choice
coming from the given rng; the same event list is then fed to the Lean model and to the Lean monitors.
"""
from fractions import Fraction

from harness.lib.group_fakeclient import GroupWorld, canon_model_st, show_frac

DEFAULT_CFG = (1000, 100, 10000, 5000)
# With non-dyadic values (the source's default 100 ms) Twisted's LoopingCall can see `runningFor % interval`
# one ulp below the interval and schedule a tick "now".  The model takes what `_scheduleFrom` computed as an
# external answer (`fire <id> <delay>`), so such scenarios are followed exactly (counted as `float_artefact`).
# an optional 5th element 1: when the group cancels `_load_topic_partitions` the client call is sleeping before
# a retry, so the cancellation surfaces as CancelledError instead of a KafkaError (model: Cfg.partsCancelSleeping)
CFGS = [DEFAULT_CFG, DEFAULT_CFG, DEFAULT_CFG, (1000, 125, 10000, 5000), (500, 50, 2000, 1000), (1000, 100, 10000, 300), (3000, 0, 7000, 2500), (100, 100, 100, 5000),
        DEFAULT_CFG + (1,), (1000, 125, 10000, 5000, 1)]


def cfg_words(cfg):
    return " ".join("%d" % x for x in cfg)

ERR_KINDS = [
    "rebalanceInProgress", "notCoordinator", "coordinatorNotAvailable", "coordinatorLoadInProgress", "illegalGeneration",
    "unknownMemberId", "inconsistentGroupProtocol", "invalidGroupId", "requestTimedOut", "invalidSessionTimeout",
    "groupAuthorizationFailed", "unknownError", "kafkaUnavailable", "cancelled", "nonKafka",
]
# errors weighted towards what a coordinator really answers
COMMON_ERRS = ["rebalanceInProgress", "notCoordinator", "coordinatorNotAvailable", "illegalGeneration", "unknownMemberId", "requestTimedOut", "kafkaUnavailable"]

REPLY_EVENT = {"coord": "coordDone", "meta": "metaDone", "join": "joinDone", "parts": "partsDone", "sync": "syncDone", "hb": "hbDone", "leave": "leaveDone"}


class GenState(object):
    """Broker-side facts the generator keeps so that histories look like rebalances."""

    def __init__(self, rng):
        self.gen = rng.randrange(1, 5)
        self.next_member = 1
        # Kafka's contract: a coordinator that has forgotten a member answers a JoinGroup quoting that
        # (non-empty) member id with UnknownMemberId.  `known` = member ids the coordinator remembers.
        self.known = set()
        # environment habits of this scenario: a `stop()` before the first `start()` (state left over from a
        # failed call), and a coordinator that answers heartbeats late (so that a heartbeat reply can arrive
        # after the member has moved on: rejoined, changed generation, stopped)
        self.pre_stop = rng.random() < 0.1
        # API calls on a member that has stopped for good (RestopError / RestartError are observations)
        self.post_calls = rng.choice([0, 0, 1, 2, 3])
        self.hb_release = rng.choice([1.0, 1.0, 0.15, 0.05])

    def forget(self):
        self.known.clear()

    def join_ok(self, rng, world):
        self.gen += rng.choice([1, 1, 1, 2])
        cur = world.join_member
        if cur:
            if cur not in self.known:
                return "joinDone err:unknownMemberId"
            m = int(cur[1:])
        else:
            m = self.next_member
            self.next_member += 1
        self.known.add("m%d" % m)
        leader = rng.random() < 0.5
        n = rng.randrange(1, 4) if leader else 0
        return "joinDone ok %d %d %d %d" % (m, self.gen, 1 if leader else 0, n)

    def sync_ok(self, rng):
        mode = rng.randrange(6)
        if mode == 0:
            return "syncDone ok -"
        topics = [1] if mode in (1, 2) else ([2] if mode == 3 else [1, 2])
        parts = []
        for t in topics:
            ps = sorted(rng.sample(range(4), rng.randrange(1, 4)))
            parts.append("%d:%s" % (t, ",".join(map(str, ps))))
        return "syncDone ok " + ";".join(parts)


def pick_err(rng, p_common=0.6):
    return rng.choice(COMMON_ERRS) if rng.random() < p_common else rng.choice(ERR_KINDS)


def reply(rng, gs, world, fam, p_ok):
    ev = REPLY_EVENT[fam]
    r = _reply(rng, gs, world, fam, p_ok)
    if r.endswith("err:unknownMemberId") or r.endswith("err:invalidGroupId"):
        gs.forget()
    return r


def _reply(rng, gs, world, fam, p_ok):
    ev = REPLY_EVENT[fam]
    if rng.random() < p_ok:
        if fam == "join":
            return gs.join_ok(rng, world)
        if fam == "sync":
            return gs.sync_ok(rng)
        if fam == "coord" and rng.random() < 0.07:
            return "coordDone none"
        return ev + " ok"
    return "%s err:%s" % (ev, pick_err(rng))


def choose(rng, gs, world, p_ok, p_stop, p_cerr):
    """Next event(s) for the world's current state, or None when nothing is enabled."""
    g = world.group
    e = world.enabled()
    if g._start_d is None and not g._stopping:
        if gs.pre_stop:
            gs.pre_stop = False
            return ["stop"]
        return ["start"]
    acts = []
    for fam in REPLY_EVENT:
        if e.get(fam):
            if fam == "hb" and rng.random() >= gs.hb_release:
                continue  # the heartbeat reply is late
            acts.append(("reply", fam))
    for cid in e["down"]:
        acts.append(("down", cid))
    if e["timer"] is not None:
        acts.append(("timer", e["timer"]))
        if rng.random() < 0.3:
            acts.append(("timer", e["timer"]))
    r = rng.random()
    if r < p_stop:
        return ["stop"]
    if r < p_stop + p_cerr:
        if e["cerr"]:
            k = pick_err(rng, 0.5)
            if k in ("unknownMemberId", "invalidGroupId"):
                gs.forget()
            return ["consumerErr %d %s" % (rng.choice(e["cerr"]), k)]
    elif r < p_stop + p_cerr + 0.02:
        return ["start"]  # RestartError, or a restart after stop
    elif r < p_stop + p_cerr + 0.035 and e["quirk"]:
        return ["consumerQuirk %d %s" % (rng.choice(e["quirk"]), rng.choice(["raises", "fails"]))]
    if not acts:
        if g._start_d is None and g._stopping and gs.post_calls > 0:
            gs.post_calls -= 1
            return [rng.choice(["start", "stop"])]
        return None
    a = rng.choice(acts)
    if a[0] == "reply":
        return [reply(rng, gs, world, a[1], p_ok)]
    if a[0] == "down":
        return ["consumerDown %d %s" % (a[1], "ok" if rng.random() < 0.8 else "err")]
    tid, due = a[1]
    dt = due - world.now
    out = []
    if dt > 0:
        if rng.random() < 0.15:
            return ["advance %s" % show_frac(dt * Fraction(rng.randrange(1, 4), 4))]  # part of the way only
        extra = rng.choice([0, 0, 0, 0, Fraction(1, 2), 7, 12]) if rng.random() < 0.2 else 0
        out.append("advance %s" % show_frac(dt + extra))
    out.append("fire %d" % tid)
    return out


def run_step(world, ev):
    obs = world.apply(ev)
    return {"ev": world.last_event, "obs": obs, "snap": world.snap(), "st": world.st()}


def generate(rng, max_len, cfg=None, p_ok=None, p_stop=None, p_cerr=None, prefix=None):
    """Generate and execute one scenario on the real objects. -> (scenario, impl steps)"""
    cfg = cfg or rng.choice(CFGS)
    p_ok = rng.choice([0.9, 0.75, 0.6, 0.4]) if p_ok is None else p_ok
    p_stop = rng.choice([0.0, 0.02, 0.05]) if p_stop is None else p_stop
    p_cerr = rng.choice([0.0, 0.03, 0.08]) if p_cerr is None else p_cerr
    world = GroupWorld(cfg)
    gs = GenState(rng)
    steps = []
    artefact = False
    try:
        for ev in prefix or []:
            steps.append(run_step(world, ev))
        while len(steps) < max_len:
            evs = choose(rng, gs, world, p_ok, p_stop, p_cerr)
            if evs is None:
                break
            for ev in evs:
                st = run_step(world, ev)
                if cfg[3] != 0 and any(o.startswith("setTimer ") and o.endswith(" hb 0") for o in st["obs"]):
                    artefact = True  # LoopingCall float artefact: the model follows it (external `hbNext`)
                steps.append(st)
    finally:
        world.close()
    return {"cfg": list(cfg), "events": [s["ev"] for s in steps], "float_artefact": artefact}, steps


def run_impl(scn):
    """Execute a stored scenario on the real objects; stops at the first event that is not enabled."""
    world = GroupWorld(tuple(scn["cfg"]))
    steps = []
    try:
        for ev in scn["events"]:
            try:
                steps.append(run_step(world, ev))
            except KeyError as e:
                steps.append({"ev": ev, "obs": ["not-enabled %s" % e], "snap": world.snap(), "st": world.st()})
                break
    finally:
        world.close()
    return steps


def model_lines(scn):
    return ["reset " + cfg_words(scn["cfg"])] + ["ev " + e for e in scn["events"]]


def monitor_obs(steps):
    """Per step, the observations as the monitors see them.  A delayed call of a kind the model does not have
    (`setTimer <id> other …`: the implementation's private business, already reported as a model/implementation
    disagreement) is not part of the monitors' alphabet; what the implementation DOES when it fires is."""
    other = set()
    out = []
    for s in steps:
        obs = []
        for o in s["obs"]:
            w = o.split()
            if len(w) >= 3 and w[0] == "setTimer" and w[2] == "other":
                other.add(w[1])
                continue
            if len(w) == 2 and w[0] == "cancelTimer" and w[1] in other:
                continue
            obs.append(o)
        out.append(obs)
    return out


def monitor_lines(scn, steps, pid):
    out = ["mon-reset " + cfg_words(scn["cfg"])]
    for s, mobs in zip(steps, monitor_obs(steps)):
        out.append("mon-ev " + s["ev"])
        for o in mobs:
            out.append("mon-ob " + o)
        out.append("mon-" + s["snap"])
    out.append("mon-end " + pid)
    return out


def split_model_answer(ans):
    """answer lines of one `ev` request -> (obs, snap, st)"""
    if len(ans) < 2 or not ans[-2].startswith("snap ") or not ans[-1].startswith("st "):
        return ans, None, None
    return ans[:-2], ans[-2], canon_model_st(ans[-1])


def compare(scn, steps, answers):
    """answers: model answers for model_lines(scn)[: 1 + len(steps)]. -> None or a disagreement dict."""
    for i, s in enumerate(steps):
        obs, snap, st = split_model_answer(answers[1 + i])
        if obs != s["obs"] or snap != s["snap"] or st != s["st"]:
            return {
                "component": "group", "step": i, "event": s["ev"],
                "scenario": {"cfg": scn["cfg"], "events": scn["events"][: i + 1]},
                "impl": {"obs": s["obs"], "snap": s["snap"], "st": s["st"]},
                "model": {"obs": obs, "snap": snap, "st": st},
            }
    return None


def check_scenarios(ctx, scns_steps, pid):
    """Run the model and the monitors on a batch of executed scenarios.
    -> list of (scenario, steps, disagreement|None, failing monitor names)"""
    lines, spans = [], []
    for scn, steps in scns_steps:
        ml = model_lines(scn)[: 1 + len(steps)]
        mo = monitor_lines(scn, steps, pid)
        spans.append((len(lines), len(ml), len(mo)))
        lines += ml + mo
    answers = ctx.model("group", lines) if lines else []
    out = []
    for (scn, steps), (a, nm, no) in zip(scns_steps, spans):
        dis = compare(scn, steps, answers[a : a + nm])
        mon = answers[a + nm : a + nm + no]
        bad = [i for i, x in enumerate(mon[:-1]) if x != ["ok"]]
        verdict = mon[-1]
        if bad:
            failing = ["monitor-input-rejected:" + monitor_lines(scn, steps, pid)[bad[0]]]
        elif verdict == ["ok"]:
            failing = []
        else:
            failing = verdict[0].split()[1:] if verdict and verdict[0].startswith("fail") else ["monitor-error"]
        out.append((scn, steps, dis, failing))
    return out


def ddmin_events(scn, still_fails):
    """Shrink `scn['events']`: drop events while `still_fails(scenario)` stays true (one-at-a-time ddmin)."""
    events = list(scn["events"])
    n = 2
    while len(events) >= 2:
        chunk = max(1, len(events) // n)
        reduced = False
        for i in range(0, len(events), chunk):
            cand = events[:i] + events[i + chunk :]
            if cand and still_fails({"cfg": scn["cfg"], "events": cand}):
                events, n, reduced = cand, max(n - 1, 2), True
                break
        if not reduced:
            if chunk == 1:
                break
            n = min(len(events), n * 2)
    return {"cfg": scn["cfg"], "events": events}
