"""Shared body of the four consumer checks (C02, C03, C13, C14): corpus, scripted-environment
correspondence (random + bounded-exhaustive), monitors on implementation traces, search, replay."""
import glob
import hashlib
import json
import multiprocessing
import os
import random
import time

from harness import core
from harness.lib import consumer_corr as CC
from harness.lib import consumer_gen as G

CORPUS = os.path.join(core.VERIF, "corpus", "consumer")

RULES = {
    "C02": "non-trivial = the processor was invoked at least twice and a fetch reply arrived while a block was being processed, or a reply carried offsets below the fetch position / gaps",
    "C03": "non-trivial = at least one commit request was issued after a processor result (success, failure or pending) and a commit reply/error/retry or a stop/shutdown followed",
    "C13": "non-trivial = stop or shutdown was called while a request, a processor result, a commit or a timer was outstanding (incl. from inside the processor)",
    "C14": "non-trivial = a fetch/offset request failed at least twice in a row, or an out-of-range / too-small answer arrived",
}

# generator profiles: (weight, kwargs for profile())
PROFILES = {
    "C02": [("calm", 5), ("faithful", 5), ("storm", 1), ("errors", 1), ("lifecycle", 2), ("fair", 3)],
    "C03": [("commits", 6), ("calm", 2), ("storm", 2), ("faithful", 1), ("lifecycle", 4)],
    "C13": [("storm", 6), ("commits", 3), ("calm", 1), ("errors", 1), ("lifecycle", 5)],
    "C14": [("errors", 6), ("faithful", 4), ("calm", 1), ("storm", 1), ("lifecycle", 4), ("fair", 2)],
}


def tune(gen, profile, rng):
    """Bias a `Gen` (its cfg/script were drawn already) towards what a profile is about."""
    cfg = gen.cfg
    gen.api_scale = {"calm": 0.15, "faithful": 0.15, "commits": 0.5, "storm": 1.6, "errors": 0.2}[profile]
    gen.err_scale = {"calm": 0.4, "faithful": 0.5, "commits": 0.6, "storm": 0.8, "errors": 2.2}[profile]
    gen.commit_scale = {"calm": 0.5, "faithful": 0.3, "commits": 3.0, "storm": 1.0, "errors": 0.3}[profile]
    if profile == "commits":
        cfg["group"] = True
        cfg["autoN"] = rng.choice([0, 1, 2, 3])
        cfg["autoMs"] = rng.choice([0, 250, 500])
    return gen


def pick_profile(pid, rng):
    ps = PROFILES[pid]
    x = rng.random() * sum(w for _, w in ps)
    for name, w in ps:
        x -= w
        if x <= 0:
            return name
    return ps[-1][0]


def gen_one(pid, rng, thorough):
    profile = pick_profile(pid, rng)
    if profile == "fair":
        g = G.FairGen(rng, 400, faithful=True, reentrant=False)
        sc, impl, run = g.generate()
        sc["profile"] = profile
        return sc, impl, run
    steps = rng.choice([8, 15, 30, 50] if not thorough else [10, 25, 50, 90])
    cls = G.MacroGen if (profile == "lifecycle" or rng.random() < 0.12) else G.Gen
    g = cls(rng, steps, faithful=(profile == "faithful" or rng.random() < 0.15), reentrant=(profile in ("storm", "commits") or rng.random() < 0.3))
    tune(g, "commits" if profile == "lifecycle" else profile, rng)
    if profile == "lifecycle" and rng.random() < 0.5:
        g.script = [dict(e, res=("ok" if e["res"].startswith(("err", "failed")) else e["res"])) for e in g.script]
    sc, impl, run = g.generate()
    sc["profile"] = profile
    return sc, impl, run


def classify(pid, sc, impl):
    """Is the scenario non-trivial for property `pid` (rule in RULES)?"""
    flat = [(e, o) for e, obs in zip(sc["events"], impl) for o in obs]
    procs = sum(1 for _, o in flat if o.startswith("proc "))
    if pid == "C02":
        parked = any(e.startswith("fetchDone") and " ok " in e and obs == [obs[-1]] and obs[-1].startswith("probe") for e, obs in zip(sc["events"], impl))
        below = False
        last_fetch = None
        for e, obs in zip(sc["events"], impl):
            for o in obs:
                if o.startswith("fetch "):
                    last_fetch = int(o.split()[2])
            if e.startswith("fetchDone") and " ok " in e and last_fetch is not None:
                ms = e.split()[3]
                offs = [int(x.split(":")[0]) for x in ms.split(",")] if ms != "-" else []
                if any(o < last_fetch for o in offs) or any(b - a > 1 for a, b in zip(offs, offs[1:])):
                    below = True
        return procs >= 2 and (parked or below)
    if pid == "C03":
        creq = [i for i, (e, obs) in enumerate(zip(sc["events"], impl)) if any(o.startswith("commitReq") for o in obs)]
        if not creq:
            return False
        later = sc["events"][creq[0] + 1:]
        return procs >= 1 and any(e.startswith(("commitDone", "commitRetryFire", "stop", "shutdown")) for e in later)
    if pid == "C13":
        busy = False
        for e, obs in zip(sc["events"], impl):
            stops = e in ("stop", "shutdown") or any(o in ("act stop", "act shutdown") for o in obs)
            if stops and any(o.startswith(("cancelReq", "procCancel", "cancelTimer")) for o in obs):
                busy = True
        return busy
    if pid == "C14":
        errs = 0
        best = 0
        special = False
        for e in sc["events"]:
            w = e.split()
            if w[0] in ("fetchDone", "offsetDone", "offsetFetchDone"):
                if w[2] == "err":
                    errs += 1
                    best = max(best, errs)
                    if w[3].startswith("outOfRange"):
                        special = True
                else:
                    errs = 0
                    if w[0] == "fetchDone" and w[4] == "small":
                        special = True
        return best >= 2 or special
    return False


def shrink(sc, still_fails):
    """ddmin over the event list."""
    evs = list(sc["events"])
    n = 2
    while len(evs) >= 2:
        chunk = max(1, len(evs) // n)
        reduced = False
        for i in range(0, len(evs), chunk):
            cand = evs[:i] + evs[i + chunk:]
            if cand and still_fails(dict(sc, events=cand)):
                evs = cand
                n = max(n - 1, 2)
                reduced = True
                break
        if not reduced:
            if chunk == 1:
                break
            n = min(n * 2, len(evs))
    return dict(sc, events=evs)


def disagreement(sc):
    impl = CC.run_impl(sc)
    model = core.run_model("consumer", CC.model_lines(sc))
    return CC.diff(sc, impl, model), impl, model


def extra_monitors(sc, names):
    """Monitors that need the partition log of a faithful scenario."""
    if sc.get("log") is None or not any(n.startswith("c02-") for n in names):
        return []
    ex = [("c02-nogap", "mon-nogap " + sc["log"])]
    if sc.get("fair") and sc.get("complete_expected"):
        ex.append(("c02-complete", "mon-complete " + sc["log"]))
    return ex


def monitor_verdicts(scs, names):
    """[(sc, impl)] -> list (per scenario) of failing monitor names."""
    lines, spans = [], []
    for sc, impl in scs:
        ls = CC.monitor_lines(sc, impl, names) + [l for _, l in extra_monitors(sc, names)]
        spans.append(len(ls))
        lines += ls
    out = core.run_model("consumer", lines) if lines else []
    for l, a in zip(lines, out):
        if l.startswith("tr ") and a:
            raise core.Undecided("the driver could not parse a recorded implementation observation: %r -> %r" % (l, a))
    res, pos = [], 0
    for (sc, impl), n in zip(scs, spans):
        all_names = list(names) + [nm for nm, _ in extra_monitors(sc, names)]
        for nm, _ in extra_monitors(sc, names):
            EXTRA_EVALS[nm] = EXTRA_EVALS.get(nm, 0) + 1
        ans = out[pos + n - len(all_names): pos + n]
        pos += n
        bad = [nm for nm, a in zip(all_names, ans) if a != ["ok"]]
        if "c13-quiescent" in names and "c13-quiescent" not in bad and CC.unknown_timers_left(impl):
            bad.append("c13-quiescent")  # a timer the model has no name for is still armed after stop()
        res.append(bad)
    return res


TAGS = {}
EXTRA_EVALS = {}


def failure_tags(name, sc, impl, k):
    """Tags identifying the specific history a monitor failure is about (matched against known_findings.json)."""
    tags = [name]
    if name == "c13-shutdown-inproc":
        # the monitor judges exactly one history: shutdown() called from inside the processor, the Deferred that
        # processor call returned is cancelled by the shutdown
        tags.append("F26-shutdown-inside-processor-cancels-its-deferred")
    return tags


def check_batch(pid, scs, res, names, do_count=True):
    """Correspondence + monitors for a batch of (scenario, impl observations)."""
    lines, spans = [], []
    for sc, impl in scs:
        ls = CC.model_lines(sc)
        spans.append(len(ls))
        lines += ls
    out = core.run_model("consumer", lines) if lines else []
    pos = 0
    for (sc, impl), n in zip(scs, spans):
        model = out[pos:pos + n]
        pos += n
        d = CC.diff(sc, impl, model)
        res.evaluations += 1
        res.traces_validated += 1
        if do_count:
            res.count("profile=" + sc.get("profile", "corpus"))
            for e, obs in zip(sc["events"], impl):
                res.count("ev:" + e.split()[0] + (":rejected" if obs == ["bad-op"] else ""))
                for o in obs:
                    w = o.split()
                    if w[0] in ("startFired", "shutdownFired") and len(w) > 2:
                        res.count("ob:%s-%s" % (w[0], w[1]))
                        if w[1] == "err":
                            res.count("errkind:" + w[2].split(":")[1] if w[2].startswith("ext:") else "errkind:" + w[2])
                    elif w[0] != "probe":
                        res.count("ob:" + w[0])
        if classify(pid, sc, impl):
            res.nontrivial([sc["cfg"], sc.get("script"), sc["events"]])
        res.sample({"cfg": sc["cfg"], "script": sc.get("script", [])[:4], "events": sc["events"][:10], "impl": impl[:10]}, limit=2)
        if d is not None:
            res.count("disagreements_seen")
            if len(res.disagreements) < 3:  # shrink and report the first few; the rest are only counted
                small = shrink(sc, lambda c: disagreement(c)[0] is not None)
                dd, impl2, model2 = disagreement(small)
                i = dd[0] if dd else -1
                res.disagreements.append({"component": "consumer", "scenario": small, "event": small["events"][i] if dd and i >= 0 else None,
                                          "impl": dd[1] if dd else None, "model": dd[2] if dd else None})
    verdicts = monitor_verdicts(scs, names)
    for (sc, impl), bad in zip(scs, verdicts):
        for name in bad:
            res.count("monitor_failures_seen:" + name)
            if sum(1 for f in res.monitor_failures if f["monitor"] == name) >= 3:
                continue
            if name in ("c02-nogap", "c02-complete") or (name == "c13-quiescent" and CC.unknown_timers_left(impl)):
                k = None
            else:
                k = CC.first_failing_prefix(core.run_model, sc, impl, name)
            res.monitor_failures.append({
                "what": "monitor %s rejects the implementation trace%s" % (name, "" if k is None else " at event %d (%s)" % (k, sc["events"][k - 1])),
                "scenario": dict(sc, events=sc["events"][:k] if k else sc["events"]),
                "impl": impl[:k] if k else impl,
                "monitor": name,
                "tags": failure_tags(name, sc, impl, k),
            })


def probe_parked_raising_reply(res):
    """Directed replay of the recorded finding `parked-raising-reply-stalls-consumer` (known_findings.json) on the real
    Consumer: a fetch reply whose iteration raises, parked behind a pending processor result, leaves the consumer with
    nothing outstanding, nothing scheduled and start()'s Deferred unfired.  Present -> a monitor failure carrying that
    tag (KNOWN-FINDING line); repaired -> nothing.  Any OTHER stall is still for the liveness monitors to report."""
    p = os.path.join(CORPUS, "p02-parked-raising-reply-stalls.json")
    if not os.path.exists(p):
        return
    sc = json.load(open(p))
    sc = dict(sc, events=sc["events"] + ["retryFire"], profile="corpus:known-finding-probe")
    impl = CC.run_impl(sc)
    res.count("known-finding-probe:parked-raising-reply")
    i = sc["events"].index("procDone ok")
    after = [o for obs in impl[i:] for o in obs]
    fired = any(o.startswith("startFired") for obs in impl for o in obs)
    active = any(o.split()[0] in ("fetch", "setTimer", "offsets", "offsetFetch") for o in after)
    if not fired and not active and impl[-1] == ["bad-op"]:
        res.monitor_failures.append({
            "what": "after a parked fetch reply whose iteration raised, the consumer has no request outstanding, no timer "
                    "scheduled and start()'s Deferred has not fired (the consumer is stuck for good)",
            "scenario": sc, "impl": impl, "monitor": "c02-stall-probe",
            "tags": ["c02-stall-probe", "parked-raising-reply-stalls-consumer"],
        })


def load_corpus():
    out = []
    for p in sorted(glob.glob(os.path.join(CORPUS, "*.json"))):
        sc = json.load(open(p))
        sc["profile"] = "corpus:" + os.path.basename(p)
        out.append(sc)
    return out


def _worker(args):
    pid, seed, n, thorough = args
    rng = random.Random(seed)
    out = []
    for _ in range(n):
        sc, impl, _run = gen_one(pid, rng, thorough)
        out.append((sc, impl))
    return out


def _worker_checked(args):
    """Generate AND check a shard in a worker process; returns what `merge` needs (picklable)."""
    pid, seed, n, thorough = args
    EXTRA_EVALS.clear()  # pool workers are reused across shards
    r = core.Result()
    scs = _worker((pid, seed, n, thorough))
    names = CC.MONITORS[pid]
    for i in range(0, len(scs), 2000):
        check_batch(pid, scs[i:i + 2000], r, names)
    return {"evaluations": r.evaluations, "distinct": list(r.distinct), "samples": r.samples, "hist": r.hist, "traces": r.traces_validated,
            "disagreements": r.disagreements, "monitor_failures": r.monitor_failures, "extra_evals": dict(EXTRA_EVALS)}


def merge(res, part):
    res.evaluations += part["evaluations"]
    res.distinct.update(part["distinct"])
    for smp in part["samples"]:
        res.sample(smp, limit=2)
    for k, v in part["hist"].items():
        res.count(k, v)
    res.traces_validated += part["traces"]
    res.disagreements.extend(part["disagreements"][: max(0, 3 - len(res.disagreements))])
    for f in part["monitor_failures"]:
        if sum(1 for g in res.monitor_failures if g["monitor"] == f["monitor"]) < 3:
            res.monitor_failures.append(f)
    for k, v in part.get("extra_evals", {}).items():
        EXTRA_EVALS[k] = EXTRA_EVALS.get(k, 0) + v


def generate_many(ctx, pid, n, thorough):
    """n scenarios with their implementation traces (quick tier: in this process)."""
    base = ctx.rng.randrange(1 << 30)
    return _worker((pid, base, n, thorough))


def run_random_parallel(ctx, res, pid, n):
    """Thorough tier: shards generated AND checked in up to 16 worker processes."""
    base = ctx.rng.randrange(1 << 30)
    workers = min(16, os.cpu_count() or 4)
    shards = workers * 4
    per = (n + shards - 1) // shards
    with multiprocessing.get_context("fork").Pool(workers) as pool:
        for part in pool.imap_unordered(_worker_checked, [(pid, base + 7919 * (i + 1), per, True) for i in range(shards)]):
            merge(res, part)


def run(ctx, res, pid):
    names = CC.MONITORS[pid]
    thorough = ctx.tier == "thorough"
    res.rule = ("scripted environment: the real Consumer over a fake client (any ClientIface result at any time, the real client's cancel outcomes) "
                "and a step-wise clock (second stage: the real Consumer over the real KafkaClient over harness/sim/cluster.py, delivered stream and broker-side "
                "requests checked against the simulated partition log and offset store, incl. coordinator errors 14/15/16 on OffsetFetch/OffsetCommit; third stage: "
                "application behaviour beyond the model - restart from inside the processor, processor Deferreds that outlive their cancellation - Lean monitors on the implementation trace only); scenarios generated adaptively from ctx.rng in profiles %s (calm/faithful: a broker-like log with gaps, sizes around the "
                "buffer sizes and 1 MiB; commits; storm: stop/shutdown/re-entrant calls everywhere; errors), plus the corpus%s; %s; distinct = by content hash."
                % ([p for p, _ in PROFILES[pid]], " and bounded-exhaustive enumeration" if thorough else "", RULES[pid]))
    # 1. corpus first
    corpus = load_corpus()
    scs = [(sc, CC.run_impl(sc)) for sc in corpus]
    check_batch(pid, scs, res, names)
    res.extra["corpus_scenarios"] = len(corpus)
    if pid == "C02":
        probe_parked_raising_reply(res)
    # 2. random scenarios
    t0 = time.time()
    if thorough:
        run_random_parallel(ctx, res, pid, {"C02": 120000}.get(pid, 200000))
    else:
        scs = generate_many(ctx, pid, {"C02": 7000}.get(pid, 12000), False)
        for i in range(0, len(scs), 2000):
            check_batch(pid, scs[i:i + 2000], res, names)
    res.extra["random_stage_s"] = round(time.time() - t0, 1)
    # 3. bounded-exhaustive (thorough)
    if thorough:
        from harness.lib import consumer_enum

        consumer_enum.run(ctx, res, pid, names)
    # 4. full stack: the real Consumer over the real KafkaClient over the simulated cluster
    from harness.lib import consumer_fullstack

    consumer_fullstack.run_stage(ctx, res, pid, ctx.scale(150, 4000))
    if pid in ("C03", "C13"):
        # the group coordinator hangs with a commit in flight and dies, the commit is retried at the broker that took the
        # group over, the old broker returns as coordinator: the stored offset is the one the consumer was told
        consumer_fullstack.run_stage(ctx, res, pid, ctx.scale(40 if pid == "C03" else 15, 800), gen=consumer_fullstack.gen_outage_spec, label="fullstack-outage")
    if pid in ("C02", "C14"):
        # messages larger than the fetch buffer through the REAL client: the buffer grows, everything is delivered
        consumer_fullstack.growth_stage(ctx, res, pid, ctx.scale(25, 600), mine=("C02", "C14") if pid == "C02" else ("C14",))
    # 5. beyond the model's environment (restart from inside the processor, processor Deferreds that outlive their
    #    cancellation): Lean monitors on the implementation's trace only
    from harness.lib import consumer_ext

    if consumer_ext.MONITORS.get(pid):
        consumer_ext.run_stage(ctx, res, pid, ctx.scale(3000, 60000))
    res.extra["error_kinds_hit"] = sorted(k for k in res.hist if k.startswith("errkind:"))
    res.extra["log_monitors_evaluated"] = dict(EXTRA_EVALS)


def search(ctx, res, broken, pid):
    """A proof or the correspondence broke: look for an input on which the PROPERTY fails on the implementation."""
    r2 = core.Result()
    names = CC.MONITORS[pid]
    seeds = []
    for b in broken:
        if b["kind"] == "correspondence" and isinstance(b["what"], dict) and b["what"].get("scenario"):
            seeds.append(b["what"]["scenario"])
    # a) around the shrunk disagreeing scenarios: extend them with random continuations
    rng = ctx.rng
    scs = []
    for sc in seeds[:5]:
        for _ in range(ctx.scale(60, 600)):
            g = G.Gen(rng, len(sc["events"]) + rng.choice([3, 8, 20]), faithful=False, cfg=dict(sc["cfg"]), script=list(sc.get("script", [])))
            tune(g, "storm", rng)
            g.prefix = list(sc["events"])
            s2, impl, _ = g.generate()
            scs.append((s2, impl))
    # b) fresh seeds, every profile of this property
    scs += _worker((pid, rng.randrange(1 << 30), ctx.scale(3000, 30000), ctx.tier == "thorough"))
    for i in range(0, len(scs), 2000):
        check_batch(pid, scs[i:i + 2000], r2, names, do_count=False)
    res.extra["search_scenarios"] = len(scs)
    return r2.monitor_failures[:3]


def replay(ctx, data, pid):
    f = data.get("failure") or {}
    sc = f.get("scenario")
    if isinstance(sc, dict) and "fullstack_spec" in sc:
        from harness.lib import consumer_fullstack

        out, probs, verdicts = consumer_fullstack.replay_spec(sc["fullstack_spec"])
        print("full-stack replay:", json.dumps(sc["fullstack_spec"]))
        print("partition log:", out["truth"][:30])
        print("delivered:", [(e["offsets"]) for e in out["events"] if e["kind"] == "proc"][:40])
        print("problems:", probs)
        print("lean monitors:", verdicts)
        mine = [p for p in probs if p[0] == pid] + [k for k, v in verdicts.items() if v != ["ok"] and k[:3].upper() == pid]
        if mine:
            print("VIOLATION property=%s replay=(this file)" % pid)
            return 1
        return 0
    if isinstance(sc, dict) and sc.get("profile") == "beyond-model":
        from harness.lib import consumer_ext

        print("replay (beyond the model: monitors on the implementation trace only) cfg:", json.dumps(sc["cfg"]))
        print("script:", json.dumps(sc.get("script", [])[:12]))
        if consumer_ext.replay(pid, sc):
            print("VIOLATION property=%s replay=(this file)" % pid)
            return 1
        return 0
    if sc is None:
        for b in data.get("no_longer_checks", []):
            if isinstance(b.get("what"), dict) and b["what"].get("scenario"):
                sc = b["what"]["scenario"]
                break
    if sc is None:
        print("replay: nothing to replay in this file (a proof obligation broke: rebuild AfkakProps.%s)" % pid)
        print(json.dumps(data.get("no_longer_checks"), indent=1)[:2000])
        return 0
    impl = CC.run_impl(sc)
    model = core.run_model("consumer", CC.model_lines(sc))
    print("replay scenario cfg:", json.dumps(sc["cfg"]))
    print("script:", json.dumps(sc.get("script", [])[:12]))
    for i, ev in enumerate(sc["events"]):
        print("  %-36s impl  %s" % (ev, impl[i]))
        print("  %-36s model %s" % ("", model[2 + i]))
    d = CC.diff(sc, impl, model)
    print("correspondence:", "agree" if d is None else "DISAGREE at event %d" % d[0])
    bad = monitor_verdicts([(sc, impl)], CC.MONITORS[pid])[0]
    print("monitors on the implementation trace:", "all ok" if not bad else "FAIL " + ",".join(bad))
    if bad:
        print("VIOLATION property=%s replay=(this file)" % pid)
        return 1
    return 1 if d is not None else 0
