"""C15, second sentence, across the REAL SyncGroup wire path (stage `syncwire` of harness/props/c15.py).

real `_ConsumerProtocol.generate_assignments`
  -> real `KafkaCodec.encode_sync_group_request` (the leader's `_SyncGroupRequest` carrying every member's bytes)
  -> reference broker (`harness/sim/refcodec.py`, written from the Kafka protocol guide, not from afkak): strictly
     parse the request bytes, answer each listed member with the FIRST entry that names it, in a SyncGroup v0
     response that echoes the correlation id of that member's own request
  -> real `KafkaCodec.decode_sync_group_response` -> real `_ConsumerProtocol.decode_assignment`.

Compared with the model (`syncwire` request of `lean/Driver/Assign.lean` = `Afkak/AssignSync.lean`: the assign
model composed with the wire model's `encodeSyncGroupRequest` / `decodeSyncGroupResponse` and a broker that parses
the frame with the grammar `Afkak.Wire.Spec`): the request frame byte for byte and what every member ends up with.
The theorem about exactly this composition is `C15_sync_group_wire_decodes_own` / `C15_end_to_end_sync_group_wire`.
Uses from harness/props/c15.py (keep their shapes): gen_assign(rng) -> ({"members": [(id, subs)], "tp": [(topic, ps)], ...}, tags),
impl_members, impl_round_robin, exc_line, hx, tstr, tmap, tmembers, tobs, MON_NAMES.
Monitors on the implementation: every listed member decodes, from ITS response, exactly the map the real
`_round_robin_assignment` gave it (Lean predicate `decodesOwn`), and the C15 monitors on what the members decoded.
"""
import json
import random

from harness.sim import refcodec

SYNC_GROUP = 14

CLIENT_IDS = [b"afkak-client", b"", b"c", b"\xc3\xa9-client", b"x" * 40]
GROUPS = ["g", "group-1", "grüppe", "", "a.b_c-d"]


def _exc(e):
    n = type(e).__name__
    return "error " + ("struct.error" if n == "error" else n)


def _scenario(c15, rng):
    sc, tags = c15.gen_assign(rng)
    members = sc["members"]
    sc = {
        "kind": "syncwire",
        "members": members,
        "tp": sc["tp"],
        "client_id": rng.choice(CLIENT_IDS).hex(),
        "corr": rng.choice([0, 1, 7, 2**31 - 1, -1, -(2**31), 2**31, rng.randrange(1, 2**31), rng.randrange(1, 2**31)]),
        "group": rng.choice(GROUPS),
        "generation": rng.choice([0, 1, 2, 17, 2**31 - 1, -1, rng.randrange(0, 1000)]),
        "leader": rng.choice(members)[0] if members else "",
        "corrbase": rng.choice([0, 1, 1000, 2**31 - 200, -(2**31), 2**31 - 3, rng.randrange(0, 2**30), rng.randrange(0, 2**30), rng.randrange(0, 2**30)]),
    }
    return sc, tags


def drive(proto, c15, sc):
    """Run the real path.  -> (first line, [(member id, decoded map | None, detail)] or None, assigned or None)"""
    from afkak.common import _SyncGroupRequest
    from afkak.kafkacodec import KafkaCodec

    members, tp = sc["members"], sc["tp"]
    _rr, assigned = c15.impl_round_robin(proto, members, tp)
    try:
        out = proto.generate_assignments(c15.impl_members(proto, members), dict((t, list(ps)) for t, ps in tp))
    except Exception as e:  # noqa: BLE001 - every exception class is an observation
        return c15.exc_line(e), None, assigned
    try:
        frame = KafkaCodec.encode_sync_group_request(
            bytes.fromhex(sc["client_id"]), sc["corr"], _SyncGroupRequest(sc["group"], sc["generation"], sc["leader"], out)
        )
    except Exception as e:  # noqa: BLE001
        return _exc(e), None, assigned
    frame = bytes(frame)
    # ---- the broker: strict parse of the request bytes, nothing trusted from the Python objects
    header, body = refcodec.parse_request(frame)
    assert header[0] == SYNC_GROUP and header[1] == 0, header
    via = []
    for mid, _subs in members:
        entry = next((e for e in body["group_assignment"] if e["member_id"] == mid), None)
        if entry is None:
            via.append((mid, None, "no entry for this member in the request"))
            continue
        resp = refcodec.encode_response(SYNC_GROUP, 0, sc["corrbase"] + len(mid), {"error_code": 0, "assignment": entry["assignment"]})
        try:
            r = KafkaCodec.decode_sync_group_response(resp)
            if r.error != 0:
                via.append((mid, None, "error code %r" % (r.error,)))
                continue
            d = proto.decode_assignment(r.member_assignment)
            via.append((mid, [(str(t), [int(p) for p in ps]) for t, ps in d.items()], ""))
        except Exception as e:  # noqa: BLE001
            via.append((mid, None, c15.exc_line(e)))
    return "frame " + c15.hx(frame), via, assigned


def request_line(c15, sc):
    return "syncwire %s %d %s %d %s %s %s %d" % (
        c15.hx(bytes.fromhex(sc["client_id"])),
        sc["corr"],
        c15.hx(sc["group"].encode("utf-8")),
        sc["generation"],
        c15.hx(sc["leader"].encode("utf-8")),
        c15.tmembers(sc["members"]),
        c15.tmap(sc["tp"]),
        sc["corrbase"],
    )


def impl_lines(c15, first, via):
    if via is None:
        return [first]
    return [first] + ["via %s%s" % (c15.tstr(i), (">" + c15.tmap(a)) if a is not None else " none") for i, a, _ in via]


def corr_in_range(sc):
    return all(-(2**31) <= sc["corrbase"] + len(i) < 2**31 for i, _ in sc["members"])


def run_stage(ctx, res, n=None):
    """Called once from c15.run().  Everything derives from ctx.rng."""
    from harness.props import c15

    rng = random.Random(ctx.rng.getrandbits(64))
    n = n if n is not None else ctx.scale(1500, 20000)
    run_list(ctx, res, [_scenario(c15, rng)[0] for _ in range(n)])


def run_list(ctx, res, scs):
    from afkak._group import _ConsumerProtocol

    from harness.props import c15

    proto = _ConsumerProtocol()
    lines, impl, mon_lines, mon_meta = [], [], [], []
    for sc in scs:
        res.evaluations += 1
        if not corr_in_range(sc):
            # a correlation id no response can echo: outside the theorem's hypothesis, and the reference
            # broker refuses to write it; counted, not driven
            res.count("syncwire_member_corr_out_of_int32")
            continue
        try:
            first, via, assigned = drive(proto, c15, sc)
        except refcodec.CodecError as e:
            # the real encoder wrote a frame the protocol grammar does not accept: C04's subject, and the
            # members get nothing
            res.monitor_failures.append({"what": "the leader's SyncGroup request is not a well-formed request: %s" % e, "scenario": sc, "tags": ["syncwire-request-malformed"]})
            continue
        lines.append(request_line(c15, sc))
        impl.append((sc, impl_lines(c15, first, via)))
        res.count("syncwire_outcome=" + (first.split(" ")[0] if first.startswith(("frame", "need")) else first))
        if via is None:
            continue
        res.count("syncwire_members=%d" % len(via))
        if len({i for i, _ in sc["members"]}) < len(sc["members"]):
            res.count("syncwire_member_listed_twice")
        obs = []
        for mid, dec, detail in via:
            if dec is None:
                res.monitor_failures.append({"what": "member %r gets no assignment out of its SyncGroup response (%s)" % (mid, detail), "scenario": sc, "tags": ["syncwire-decode-own-raises"]})
                continue
            obs.append((mid, dec))
            if assigned is not None:
                mon_lines.append("mon-own %s %s" % (c15.tmap(assigned.get(mid, [])), c15.tmap(dec)))
                mon_meta.append(("own", sc, mid))
        if len(obs) == len(via):
            mon_lines.append("mon %s %s %s" % (c15.tmembers(sc["members"]), c15.tmap(sc["tp"]), c15.tobs(obs)))
            mon_meta.append(("mon", sc, None))
            if len(via) >= 2 and sum(len(ps) for _, a in obs for _, ps in a) >= 2:
                res.nontrivial(["syncwire", sc["members"], sc["tp"], sc["client_id"], sc["corr"], sc["group"], sc["generation"], sc["leader"]])
    if not lines:
        return
    got = ctx.model("assign", lines + mon_lines)
    for (sc, exp), line, g in zip(impl, lines, got):
        if list(g) != exp:
            res.disagreements.append({"component": "assign", "request": line[:4000], "impl": " / ".join(exp)[:4000], "model": " / ".join(g)[:4000], "scenario": sc})
    for (kind, sc, mid), line, g in zip(mon_meta, mon_lines, got[len(lines):]):
        g1 = g[0] if g else ""
        if kind == "own":
            if g1 != "ok":
                res.monitor_failures.append({"what": "over the SyncGroup wire path member %r decodes something else than it was assigned" % (mid,), "scenario": sc, "tags": ["syncwire-decodes-own"]})
            continue
        res.traces_validated += 1
        fields = dict(f.split("=") for f in g1.split()) if g1 and g1 != "bad-op" else {}
        if not fields:
            res.disagreements.append({"component": "assign", "request": line[:4000], "impl": "(monitor request)", "model": g1, "scenario": sc})
            continue
        if fields["wf"] != "yes":
            continue
        res.count("syncwire_monitored")
        for k, (text, tag) in c15.MON_NAMES.items():
            if fields[k] != "ok":
                res.monitor_failures.append({"what": "over the SyncGroup wire path: " + text, "scenario": sc, "tags": ["syncwire-" + tag]})


def replay_one(ctx, sc):
    """For c15.replay(): one stored syncwire scenario on the current tree; both streams, then the verdict."""
    from afkak._group import _ConsumerProtocol

    from harness.core import Result
    from harness.props import c15

    print("replay scenario:", json.dumps(sc))
    line = request_line(c15, sc)
    print("  request:", line[:1200])
    try:
        first, via, _ = drive(_ConsumerProtocol(), c15, sc)
        print("    implementation:", " / ".join(impl_lines(c15, first, via))[:2000])
        for mid, dec, detail in via or []:
            if dec is None:
                print("    member %r: %s" % (mid, detail))
    except refcodec.CodecError as e:
        print("    implementation: the reference broker cannot parse the request:", e)
    print("    model:         ", " / ".join(ctx.model("assign", [line])[0])[:2000])
    r = Result()
    run_list(ctx, r, [sc])
    for d in r.disagreements:
        print("  DISAGREEMENT impl:", d["impl"][:600], "| model:", d["model"][:600])
    for f in r.monitor_failures:
        print("  MONITOR FAILS:", f["what"], f["tags"])
    if r.monitor_failures:
        print("VIOLATION property=C15 replay=(this file)")
        return 1
    if r.disagreements:
        print("model and implementation disagree on this scenario; no monitor fails")
        return 1
    print("model and implementation agree; all monitors ok")
    return 0
