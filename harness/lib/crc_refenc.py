"""Independent reference encoder for C12 (written from the Kafka protocol guide, not from afkak):
CRC-32 (own table implementation), Message v0/v1, message sets (plain and gzip wrappers), and one
small encoder per response type.  Every encoder records where its count and length fields are, so
that the hostile-stream generator can overwrite exactly those.

Nothing here imports afkak.
"""
import gzip
import io
import struct

# ---------------------------------------------------------------- CRC-32 (reflected, 0xEDB88320)
_TABLE = []
for _i in range(256):
    _c = _i
    for _ in range(8):
        _c = (_c >> 1) ^ (0xEDB88320 if _c & 1 else 0)
    _TABLE.append(_c)


def crc32(data):
    c = 0xFFFFFFFF
    for b in data:
        c = _TABLE[(c ^ b) & 0xFF] ^ (c >> 8)
    return c ^ 0xFFFFFFFF


# ---------------------------------------------------------------- messages
def enc_bytes(b):
    return struct.pack(">i", -1) if b is None else struct.pack(">i", len(b)) + b


def enc_message(magic, attrs, key, value, ts=None):
    """Crc MagicByte Attributes [Timestamp] Key Value; ts is required iff magic == 1."""
    body = struct.pack(">BB", magic, attrs)
    if magic == 1:
        body += struct.pack(">q", ts)
    body += enc_bytes(key) + enc_bytes(value)
    return struct.pack(">I", crc32(body)) + body


def enc_entry(offset, msg):
    return struct.pack(">qi", offset, len(msg)) + msg


def enc_set(entries):
    """entries: list of (offset, message bytes)"""
    return b"".join(enc_entry(o, m) for o, m in entries)


def gzip_bytes(payload):
    buf = io.BytesIO()
    with gzip.GzipFile(fileobj=buf, mode="w", mtime=0) as f:
        f.write(payload)
    return buf.getvalue()


# ---------------------------------------------------------------- responses
class W:
    """Byte writer that remembers the positions of count / length fields: (offset, width)."""

    def __init__(self):
        self.b = bytearray()
        self.counts = []

    def i8(self, v):
        self.b += struct.pack(">b", v)

    def i16(self, v):
        self.b += struct.pack(">h", v)

    def i32(self, v):
        self.b += struct.pack(">i", v)

    def i64(self, v):
        self.b += struct.pack(">q", v)

    def count(self, n):
        self.counts.append((len(self.b), 4))
        self.i32(n)

    def string(self, s):
        """int16 length + bytes; None = -1"""
        self.counts.append((len(self.b), 2))
        if s is None:
            self.i16(-1)
        else:
            self.i16(len(s))
            self.b += s

    def bytes_(self, s):
        self.counts.append((len(self.b), 4))
        if s is None:
            self.i32(-1)
        else:
            self.i32(len(s))
            self.b += s

    def array(self, items, f):
        self.count(len(items))
        for it in items:
            f(it)

    def done(self):
        return bytes(self.b), list(self.counts)


def enc_api_versions(corr, error, versions):
    w = W()
    w.i32(corr); w.i16(error)
    w.array(versions, lambda v: (w.i16(v[0]), w.i16(v[1]), w.i16(v[2])))
    return w.done()


def enc_produce(corr, topics, version=0, throttle=0):
    """topics: [(name, [(partition, error, offset[, log_append_time])])]"""
    w = W()
    w.i32(corr)

    def part(p):
        w.i32(p[0]); w.i16(p[1]); w.i64(p[2])
        if version >= 1:
            w.i64(p[3] if len(p) > 3 else -1)

    w.array(topics, lambda t: (w.string(t[0]), w.array(t[1], part)))
    if version >= 1:
        w.i32(throttle)
    return w.done()


def enc_fetch(corr, topics, version=0, throttle=0):
    """topics: [(name, [(partition, error, highwater, message_set_bytes_or_None)])]"""
    w = W()
    w.i32(corr)
    if version >= 2:
        w.i32(throttle)

    def part(p):
        w.i32(p[0]); w.i16(p[1]); w.i64(p[2]); w.bytes_(p[3])

    w.array(topics, lambda t: (w.string(t[0]), w.array(t[1], part)))
    return w.done()


def enc_offset(corr, topics):
    """topics: [(name, [(partition, error, [offsets])])]"""
    w = W()
    w.i32(corr)

    def part(p):
        w.i32(p[0]); w.i16(p[1]); w.array(p[2], w.i64)

    w.array(topics, lambda t: (w.string(t[0]), w.array(t[1], part)))
    return w.done()


def enc_metadata(corr, brokers, topics):
    """brokers: [(node, host, port)]; topics: [(error, name, [(perr, partition, leader, [replicas], [isr])])]"""
    w = W()
    w.i32(corr)
    w.array(brokers, lambda b: (w.i32(b[0]), w.string(b[1]), w.i32(b[2])))

    def part(p):
        w.i16(p[0]); w.i32(p[1]); w.i32(p[2]); w.array(p[3], w.i32); w.array(p[4], w.i32)

    w.array(topics, lambda t: (w.i16(t[0]), w.string(t[1]), w.array(t[2], part)))
    return w.done()


def enc_consumermetadata(corr, error, node, host, port):
    w = W()
    w.i32(corr); w.i16(error); w.i32(node); w.string(host); w.i32(port)
    return w.done()


def enc_offset_commit(corr, topics):
    """topics: [(name, [(partition, error)])]"""
    w = W()
    w.i32(corr)
    w.array(topics, lambda t: (w.string(t[0]), w.array(t[1], lambda p: (w.i32(p[0]), w.i16(p[1])))))
    return w.done()


def enc_offset_fetch(corr, topics):
    """topics: [(name, [(partition, offset, metadata, error)])]"""
    w = W()
    w.i32(corr)

    def part(p):
        w.i32(p[0]); w.i64(p[1]); w.string(p[2]); w.i16(p[3])

    w.array(topics, lambda t: (w.string(t[0]), w.array(t[1], part)))
    return w.done()


def enc_join_group_protocol_metadata(version, subscriptions, user_data):
    w = W()
    w.i16(version)
    w.array(subscriptions, w.string)
    w.bytes_(user_data)
    return w.done()


def enc_join_group(corr, error, generation, protocol, leader, member, members):
    w = W()
    w.i32(corr); w.i16(error); w.i32(generation)
    w.string(protocol); w.string(leader); w.string(member)
    w.array(members, lambda m: (w.string(m[0]), w.bytes_(m[1])))
    return w.done()


def enc_error_only(corr, error):
    w = W()
    w.i32(corr); w.i16(error)
    return w.done()


def enc_sync_group(corr, error, assignment):
    w = W()
    w.i32(corr); w.i16(error); w.bytes_(assignment)
    return w.done()


def enc_sync_group_member_assignment(version, assignments, user_data):
    """assignments: [(topic, [partitions])]"""
    w = W()
    w.i16(version)
    w.array(assignments, lambda a: (w.string(a[0]), w.array(a[1], w.i32)))
    w.bytes_(user_data)
    return w.done()
