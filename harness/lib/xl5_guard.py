"""Stage guard shared by the C04 / C12 / C15 / C18 checks.

A stage of a check drives the real objects through interfaces the unchanged code offers (a method that
returns a Deferred, an attribute, a module-level function).  When a changed implementation no longer
behaves like that, the DRIVER may trip over it (`'int' object has no attribute 'addCallbacks'`) with no
afkak frame on the stack - harness/core.py then calls the run undecided (exit 2).  That is the wrong
verdict: what happened is that the implementation stopped corresponding to what the model (and the
driver written for the unchanged code) expects.  `guarded` turns such an exception into a
correspondence disagreement that carries the stage name and the traceback, lets the remaining stages run
(so that one of them can produce the failing input), and leaves the verdict to core: exit 1, with a
replay when a monitor fails, `no-failing-input-found` otherwise.

On the unchanged tree every stage runs to its end, so a crash there still breaks the check (exit 1,
visible in the first line of the replay file) - it is never swallowed.
"""
import subprocess
import traceback


def guarded(res, stage, fn, *args, **kw):
    """run fn(*args, **kw); an exception becomes a disagreement of `stage`.  -> (ok, value)"""
    from harness.core import Undecided

    try:
        return True, fn(*args, **kw)
    except (Undecided, subprocess.TimeoutExpired, KeyboardInterrupt, MemoryError):
        raise
    except Exception as e:  # noqa: BLE001 - see the module docstring
        res.disagreements.append({
            "component": stage,
            "kind": "stage aborted: the implementation no longer behaves as the driver (written for the model's "
                    "interface) expects",
            "exception": "%s: %s" % (type(e).__name__, e),
            "traceback": traceback.format_exception(type(e), e, e.__traceback__)[-10:],
        })
        res.count("stage-aborted:" + stage)
        return False, None
