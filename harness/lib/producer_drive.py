"""Drive the REAL `afkak.producer.Producer` over the fake client with a list of scenario events and
record, per (sub-)step, the model input line, the observation lines and a snapshot of the producer's
bookkeeping - in the line protocol of `lean/Driver/Producer.lean`.

Scenario = {"cfg": {...}, "events": [[op, ...], ...]}   (JSON; this is also the replay format)

cfg: acks, max_attempts, retry_interval ("p/q"), batch_send, n, b, t ("p/q" | None), partitioner
     ("rr" | "hashed"), codec (0 | 1), api_versions (0 | 1)
events:
  ["send", sid, topic, key_hex | None, [size | None, ...]]
  ["sendh", sid, topic, key_hex | None, [size | None, ...], hook]   a send whose Deferred gets a callback that calls
        back into the Producer (re-entrancy): hook = [["s", topic, key, sizes] | ["c", sid] | ["x"], ...]
        (send_messages / cancel of send `sid` / stop(); the ids of sends made by hooks are the next free ones)
  ["cancel", sid]
  ["advance", "p/q"]
  ["metaset", topic, errno, [partition, ...] | None]
  ["metareset", [topic, ...]]
  ["metawipe"]
  ["metadone", rid, ["ok"] | ["err", kind]]
  ["prodone", rid, result]       result: ["resp", [[topic, part, err, off], ...]] | ["none"]
                                       | ["fail", [[topic, part, err, off], ...], [[topic, part, kind, wrapped], ...]]
                                       | ["err", kind]
  ["sendraw", topic, key, msgs, variant]   `send_messages` with arguments as Python hands them over (any object in any
                                 position; Afkak/ProducerArgs.lean).  topic: "s<len>:<idx>" a str of that length | "o" not a
                                 str; key: "N" | "b<hex>" | "o"; msgs: "F" falsy | "U" truthy without len() | "S<e,e,..>"
                                 sized, elements "n" None, "<size>" bytes, "o" anything else; variant picks the concrete
                                 objects.  Refused by the validation: observation `refused <kind>`, nothing else changes;
                                 accepted: the `send` event with the next send id.
  ["syncclear"]                  harness directive: withdraw the synchronous answers not consumed yet
  ["syncnext", mode]             harness directive, not a model event: the client answers the NEXT produce request
                                 synchronously (the Deferred it returns has already fired).  mode: "none" | "empty" |
                                 "allok" | "allerr:<errno>" | "allfail:<kind>" | "err:<kind>".  On the model's side
                                 the step in which the request is made is followed by `prodone rid <that result>`.
  ["stop", wipe, {"<rid>": outcome}]   outcome for a pending metadata load: ["ok"] | ["err", kind];
                                       for the pending produce: a result as above; absent: stays pending
kinds: "b<errno>" BrokerResponseError subclass; "lu" LeaderUnavailableError; "pu" PartitionUnavailableError;
       "ua" KafkaUnavailableError; "cc" ClientError; "tc" twisted CancelledError; "ac0"/"ac1"/"acn" afkak
       CancelledError(request_sent=False/True/None); "nr" NoResponseError; "o<n>" OTHER[n] (not a KafkaError)
"""
import warnings
from fractions import Fraction

from twisted.internet import defer

from harness.lib.producer_fakeclient import FakeClient, payload_messages

OTHER = ["KeyError", "RuntimeError", "ZeroDivisionError", "TypeError", "ValueError", "AttributeError", "IndexError"]
OTHER_EXC = [KeyError, RuntimeError, ZeroDivisionError, TypeError, ValueError, AttributeError, IndexError]


def frac(s):
    return Fraction(s)


def fstr(fr):
    fr = Fraction(fr)
    return "%d/%d" % (fr.numerator, fr.denominator)


def topic_name(i):
    return "t%d" % i


def topic_index(name):
    return int(name[1:])


def msg_value(sid, i, size):
    if size is None:
        return None
    prefix = b"%d:%d|" % (sid, i)
    body = prefix + bytes((sid * 7 + i * 13 + k) % 251 for k in range(max(0, size - len(prefix))))
    return body[:size]


def make_exc(kind):
    import afkak.common as C

    if kind.startswith("b"):
        code = int(kind[1:])
        cls = C.BrokerResponseError.errnos.get(code)
        if cls is None:
            e = C.BrokerResponseError("verif")
            e.errno = code
            return e
        return cls("verif")
    if kind == "lu":
        return C.LeaderUnavailableError("verif")
    if kind == "pu":
        return C.PartitionUnavailableError("verif")
    if kind == "ua":
        return C.KafkaUnavailableError("verif")
    if kind == "cc":
        return C.ClientError("verif")
    if kind == "tc":
        return defer.CancelledError()
    if kind in ("ac0", "ac1", "acn"):
        return C.CancelledError(request_sent={"ac0": False, "ac1": True, "acn": None}[kind])
    if kind == "nr":
        return C.NoResponseError()
    if kind.startswith("o"):
        return OTHER_EXC[int(kind[1:])]("verif")
    raise ValueError(kind)


def kind_of(exc):
    import afkak.common as C

    if isinstance(exc, C.FailedPayloadsError):
        return "fp"
    if isinstance(exc, C.BrokerResponseError):
        return "b%d" % exc.errno
    if isinstance(exc, C.LeaderUnavailableError):
        return "lu"
    if isinstance(exc, C.PartitionUnavailableError):
        return "pu"
    if isinstance(exc, C.KafkaUnavailableError):
        return "ua"
    if isinstance(exc, C.CancelledError):
        return {False: "ac0", True: "ac1", None: "acn"}.get(exc.request_sent, "ac?")
    if isinstance(exc, C.NoResponseError):
        return "nr"
    if isinstance(exc, C.ClientError):
        return "cc"
    if isinstance(exc, defer.CancelledError):
        return "tc"
    if isinstance(exc, C.KafkaError):
        return "k:" + type(exc).__name__
    n = type(exc).__name__
    return "o%d" % OTHER.index(n) if n in OTHER else "x:" + n


def resp_str(r):
    return "%d/%d:%d:%d" % (r[0], r[1], r[2], r[3])


def result_str(res):
    """scenario result -> model token(s)"""
    if res[0] == "resp":
        return "resp " + (";".join(resp_str(r) for r in res[1]) or "-")
    if res[0] == "none":
        return "none"
    if res[0] == "err":
        return "err " + res[1]
    if res[0] == "fail":
        return "fail %s %s" % (
            ";".join(resp_str(r) for r in res[1]) or "-",
            ";".join("%d/%d:%s:%s" % (f[0], f[1], f[2], "w" if f[3] else "u") for f in res[2]) or "-",
        )
    raise ValueError(res)


def mres_str(res):
    return "ok" if res[0] == "ok" else "err " + res[1]


def cfg_line(cfg):
    return "init %d %d %s %d %d %d %s %s" % (
        cfg["acks"], cfg["max_attempts"], cfg["retry_interval"], 1 if cfg["batch_send"] else 0,
        cfg["n"], cfg["b"], cfg["t"] if cfg["t"] is not None else "-", cfg["partitioner"])


def hook_str(hook):
    out = []
    for a in hook:
        if a[0] == "s":
            k = "N" if a[2] is None else (a[2] or "-")
            out.append("s@%d@%s@%s" % (a[1], k, ",".join("n" if x is None else str(x) for x in a[3]) or "-"))
        elif a[0] == "c":
            out.append("c@%d" % a[1])
        elif a[0] == "x":
            out.append("x@0@-@-")
        else:
            raise ValueError(a)
    return "|".join(out) or "-"


def raw_objects(ev, sid):
    """the Python objects of a `sendraw` event -> (topic, key, msgs)"""
    _, topic, key, msgs, variant = ev
    v = variant
    if topic == "o":
        t = [b"t0", 7, None, ("t0",)][v % 4]
    else:
        n, idx = topic[1:].split(":")
        t = topic_name(int(idx)) if int(n) == 2 else "t" * int(n)
    if key == "N":
        k = None
    elif key == "o":
        k = ["k", 5, bytearray(b"k"), (b"k",)][v % 4]
    else:
        k = b"" if key[1:] == "-" else bytes.fromhex(key[1:])
    if msgs == "F":
        m = [None, [], (), "", b"", 0][v % 6]
    elif msgs == "U":
        m = [5, (x for x in [b"a"]), object(), 2.5][v % 4]
    else:
        elems = [] if msgs[1:] in ("", "-") else msgs[1:].split(",")
        others = ["x", 7, bytearray(b"x"), 1.5]
        if elems and all(e == "o" for e in elems) and v % 3 == 0:
            m = "x" * len(elems)  # a str OBJECT as msgs: sized, every element a str
        elif elems and all(e == "o" for e in elems) and v % 3 == 1:
            m = b"\x01" * len(elems)  # a bytes OBJECT as msgs: sized, iterates to ints
        else:
            vals = [None if e == "n" else others[(v + i) % 4] if e == "o" else msg_value(sid, i, int(e)) for i, e in enumerate(elems)]
            m = tuple(vals) if v % 2 else vals
    return t, k, m


def event_line(ev):
    op = ev[0]
    if op == "sendraw":
        return "sendraw %s %s %s" % (ev[1], ev[2], ev[3])
    if op == "send":
        _, sid, topic, key, msgs = ev
        k = "N" if key is None else (key or "-")
        m = ",".join("n" if s is None else str(s) for s in msgs) or "-"
        return "send %d %d %s %s" % (sid, topic, k, m)
    if op == "sendh":
        _, sid, topic, key, msgs, hook = ev
        k = "N" if key is None else (key or "-")
        m = ",".join("n" if s is None else str(s) for s in msgs) or "-"
        return "sendh %d %d %s %s %s" % (sid, topic, k, m, hook_str(hook))
    if op == "cancel":
        return "cancel %d" % ev[1]
    if op == "advance":
        return "advance %s" % ev[1]
    if op == "metaset":
        parts = "K" if ev[3] is None else (",".join(str(p) for p in ev[3]) or "-")
        return "metaset %d %d %s" % (ev[1], ev[2], parts)
    if op == "metareset":
        return "metareset %s" % (",".join(str(t) for t in ev[1]) or "-")
    if op == "metawipe":
        return "metawipe"
    if op == "metadone":
        return "metadone %d %s" % (ev[1], mres_str(ev[2]))
    if op == "prodone":
        return "prodone %d %s" % (ev[1], result_str(ev[2]))
    if op == "stop":
        raise ValueError("stop needs the pending table; use RealRun")
    raise ValueError(ev)


class _CountingList(list):
    """`Producer._outstanding` with a count of the Deferreds ever registered (tells a call that the argument validation
    refused from one that was accepted and whose Deferred has fired already)"""

    appended = 0

    def append(self, x):
        self.appended += 1
        list.append(self, x)


class RealRun(object):
    """One scenario on the real Producer.  `steps` = [(model line, [observation lines], state line)]."""

    def __init__(self, cfg):
        import afkak.producer as P
        from afkak.partitioner import HashedPartitioner, RoundRobinPartitioner

        self.cfg = cfg
        self.log = []
        self.client = FakeClient(self.log, api_versions=cfg.get("api_versions", 0))
        kw = dict(
            partitioner_class=HashedPartitioner if cfg["partitioner"] == "hashed" else RoundRobinPartitioner,
            req_acks=cfg["acks"], max_req_attempts=cfg["max_attempts"],
            retry_interval=float(frac(cfg["retry_interval"])),
            codec=cfg.get("codec", 0) or None, batch_send=cfg["batch_send"],
            batch_every_n=cfg["n"], batch_every_b=cfg["b"],
            batch_every_t=(None if cfg["t"] is None else float(frac(cfg["t"]))),
        )
        self.sends = {}  # sid -> (topic index, key bytes|None, [values])
        self.dmap = {}  # id(deferred) -> sid
        self.deferreds = {}
        self.fired = {}
        self.settled = set()  # sids that cannot be in a later payload (see segment)
        self.steps = []
        self.stopped_d = None
        self.next_sid = 0  # send_messages calls so far (the model's nextSid)
        self.hook_sids = {}  # step index -> sids of sends made by hooks in that step
        self.tx_after_stop = None  # a transmission observed after a stop() made by a hook returned
        self._stop_returned = False
        self.sent_payloads = []
        self.success_never_sent = None  # ground truth: a send Deferred succeeded although no request ever carried it
        self.moved = {}  # step index -> sid whose own firing is observed last (see diff)
        self.flat_lines = {}  # step index of a `sendraw` -> the `send` line it amounts to | None (refused: erased)
        self.sync_count = 0
        self._cur_line = self._cur_sid = self._override = None
        self._sync_toks = {}
        self.client.sync_answer = self._sync_answer
        self.client.on_sync_attach = self._on_sync_attach
        self.producer = P.Producer(self.client, **kw)
        self.producer._outstanding = _CountingList(self.producer._outstanding)
        self.init_obs = self._drain()
        self.client.reactor.after_call = self._after_timer
        self._cur = None

    # ---- observation encoding
    def _fire_cb(self, result, sid, ok):
        import afkak.common as C

        n = self.fired[sid] = self.fired.get(sid, 0) + 1
        if ok:
            if result is None:
                s = "oknone"
            elif isinstance(result, C.ProduceResponse):
                s = "ok %d/%d:%d:%d" % (topic_index(result.topic), result.partition, result.error, result.offset)
            elif isinstance(result, BaseException):
                s = "okexc " + kind_of(result)
            else:
                s = "okval"
        else:
            s = "err " + kind_of(result.value)
        self.log.append(("fire", sid, s))
        return None  # consume failures

    def segment(self, topic, msgs, used):
        """Recover which sends' message lists, in which order, make up a payload: a list of sids, or
        None when the payload is not a concatenation of whole sends of that topic.  Sends with identical
        content are told apart by what is already known about them: a send that has completed, or was
        cancelled before dispatch, or is already in another payload of this request, is not a candidate."""
        cands = [(sid, v) for sid, v in sorted(self.sends.items())
                 if v[0] == topic and sid not in self.settled and sid not in used]

        def go(i, taken):
            if i == len(msgs):
                return []
            for sid, (_t, key, vals) in cands:
                if sid in taken:
                    continue
                n = len(vals)
                if n and msgs[i:i + n] == [(key, v) for v in vals]:
                    r = go(i + n, taken | {sid})
                    if r is not None:
                        return [sid] + r
            return None

        return go(0, frozenset())

    def _ob_line(self, ob):
        k = ob[0]
        if k in ("loadmeta", "produce") and self._stop_returned and self.tx_after_stop is None:
            self.tx_after_stop = "%s %d after stop() returned" % (k, ob[1])
        if k == "loadmeta":
            return "loadmeta %d %s" % (ob[1], ",".join(str(topic_index(t)) for t in ob[2]))
        if k == "produce":
            _, rid, payloads, acks, timeout, foe = ob
            ps, used = [], set()
            for p in payloads:
                t = topic_index(p.topic)
                sids = self.segment(t, payload_messages(p), used)
                used.update(sids or [])
                self.sent_payloads.append((t, payload_messages(p)))
                wire = ",".join("%s.%s" % ("N" if k is None else (k.hex() or "-"), "n" if v is None else len(v))
                                for k, v in payload_messages(p)) or "-"
                ps.append("%d/%d=%s#%s" % (t, p.partition, "?" if sids is None else ",".join(str(s) for s in sids), wire))
            extra = "" if (acks == self.cfg["acks"] and foe is False and timeout == self.producer.ack_timeout) else " BADARGS"
            return "produce %d %s%s" % (rid, ";".join(ps) or "-", extra)
        if k == "cancelreq":
            return "cancelreq %d" % ob[1]
        if k == "fire":
            if ob[2].startswith("ok") and self.success_never_sent is None and ob[1] in self.sends:
                t, key, vals = self.sends[ob[1]]
                want = [(key, v) for v in vals]
                if not any(pt == t and any(msgs[i:i + len(want)] == want for i in range(len(msgs) - len(want) + 1))
                           for pt, msgs in self.sent_payloads):
                    self.success_never_sent = "send %d succeeded (%s) but no produce request ever carried its messages" % (ob[1], ob[2])
            if ob[2] != "err ac1":
                self.settled.add(ob[1])
            return "fire %d %s" % (ob[1], ob[2])
        if k == "settimer":
            if ob[1] == "L":
                return None  # LoopingCall's own timer: Twisted's schedule, checked by tick times
            return "settimer %d %s" % (ob[1], fstr(Fraction(ob[2])))
        if k == "canceltimer":
            return "stoplooper" if ob[1] == "L" else "canceltimer %d" % ob[1]
        if k == "resetmeta":
            return "resetmeta %s" % ",".join(str(topic_index(t)) for t in ob[1])
        if k == "hookbegin":
            return "hookbegin %d" % ob[1]
        if k == "hookend":
            return "hookend"
        if k == "hookbadop":
            return "badop"
        if k == "refused":
            return "refused %s" % ob[1]
        if k == "raised":
            self.escaped = True
            return "impl-raised %s" % ob[1]
        if k == "stopreturned":
            self._stop_returned = True
            return None  # harness-only marker (ground truth for "nothing is transmitted after stop() returned")
        raise ValueError(ob)

    def _drain(self):
        out = [self._ob_line(o) for o in self.log]
        del self.log[:]
        return [o for o in out if o is not None]

    # ---- synchronous answers of the client (see FakeClient._answered)
    def _sync_answer(self, p, mode):
        tps = [(topic_index(pl.topic), pl.partition) for pl in p.args]
        what, _, arg = mode.partition(":")
        if what == "none":
            res = ["none"]
        elif what == "empty":
            res = ["resp", []]
        elif what == "allok":
            res = ["resp", [[t, q, 0, 100 + 10 * p.rid + i] for i, (t, q) in enumerate(tps)]]
        elif what == "allerr":
            res = ["resp", [[t, q, int(arg), -1] for t, q in tps]]
        elif what == "allfail":
            res = ["fail", [], [[t, q, arg, True] for t, q in tps]]
        elif what == "err":
            res = ["err", arg]
        else:
            raise ValueError(mode)
        self._sync_toks[p.rid] = res
        box = {}
        self._complete_produce(p.rid, res, lambda r, v: box.update(o=("fire", v)), lambda r, e: box.update(o=("fail", e)))
        return box["o"]

    def _on_sync_attach(self, rid):
        """The Producer has made a produce request, got back a Deferred that had fired, done its bookkeeping and now
        attaches its handlers: what it has done so far is one model step (it ends with the request), what it does from
        here on - handling the answer - is the model's `prodone` step."""
        if self._override is not None:
            line, sid = self._override, None
        elif self.log and self.log[0][0] == "timerfired":
            tid = self.log.pop(0)[1]
            line, sid = ("tick" if tid == "L" else "timer %d" % tid), None
        else:
            line, sid = self._cur_line, self._cur_sid
        self._override = None
        if sid is not None and sid not in [self.dmap.get(id(d), sid) for d in self.producer._outstanding]:
            # the Deferred of the send being made has fired already (its look-up failed): the harness will see that
            # firing only when `send_messages` has returned, but it belongs to the step that ends here
            self._own_fired = (len(self.steps), sid)
        self._push(line)
        self._override = event_line(["prodone", rid, self._sync_toks[rid]])
        self.sync_count += 1

    def snapshot(self):
        p = self.producer
        lp = p._sendLooper
        if self._cur_sid is not None:
            # inside `send_messages` (a step split there) the Deferred being created is not registered yet
            for d in p._outstanding:
                self.dmap.setdefault(id(d), self._cur_sid)
        return "state q=%s mc=%d bc=%d idle=%d att=%d iv=%s out=%s looper=%d" % (
            ",".join(str(self.dmap[id(r.deferred)]) for r in p._batch_reqs) or "-",
            p._waitingMsgCount, p._waitingByteCount, 1 if p._batch_send_d is None else 0, p._req_attempts,
            fstr(Fraction(p._retry_interval)), ",".join(str(self.dmap[id(d)]) for d in p._outstanding) or "-",
            1 if (lp is not None and lp.running) else 0)

    def _push(self, line, move_fire_of=None):
        if self._override is not None:
            # the stimulus was split by a synchronous answer: what is left of it is the `prodone` step
            line, self._override = self._override, None
            if move_fire_of is not None:
                self.moved[len(self.steps)] = move_fire_of
            own = getattr(self, "_own_fired", None)
            if own is not None and own[1] == move_fire_of:
                self._own_fired = None
                tag = "fire %d " % move_fire_of
                obs = self._drain()
                self.steps[own[0]][1].extend(o for o in obs if o.startswith(tag))
                self.steps.append((line, [o for o in obs if not o.startswith(tag)], self.snapshot()))
                return
        obs = self._drain()
        if move_fire_of is not None:
            tag = "fire %d " % move_fire_of
            obs = [o for o in obs if not o.startswith(tag)] + [o for o in obs if o.startswith(tag)]
        self.steps.append((line, obs, self.snapshot()))

    # ---- timers fired inside one advance become sub-steps
    def _after_timer(self):
        # log holds: [("timerfired", tid), obs...] for the call that just ran
        if self._override is not None:
            self._push(None)
            return
        assert self.log and self.log[0][0] == "timerfired", self.log[:2]
        tid = self.log.pop(0)[1]
        self._push("tick" if tid == "L" else "timer %d" % tid)

    # ---- events
    def apply(self, ev):
        """Apply one scenario event.  A replayed scenario may not be applicable to a changed
        implementation (a request id that was never issued, ...), and the implementation may raise:
        both become observations (so the run disagrees with the model instead of crashing the check)."""
        try:
            self._apply(ev)
        except Exception as e:  # noqa: BLE001
            # an exception escaped a public call / a timer callback of the Producer (or the scenario is not applicable
            # to this implementation): what was observed up to it, the exception, and the bookkeeping as it was left
            self.dead = True
            if _from_afkak(e):
                self.escaped = True  # (otherwise: a replayed scenario that is not applicable to this implementation)
            self._override = None
            self._cur_sid = None
            try:
                self.log[:] = [o for o in self.log if o[0] != "timerfired"]
                obs = self._drain()
            except Exception:  # noqa: BLE001
                obs = []
                del self.log[:]
            try:
                st = self.snapshot()
            except Exception:  # noqa: BLE001
                st = self.steps[-1][2] if self.steps else "state -"
            line = event_line(ev) if ev[0] != "stop" else "stop %d - -" % (1 if ev[1] else 0)
            self.steps.append((line, obs + ["impl-raised %s" % type(e).__name__], st))

    def _apply(self, ev):
        if getattr(self, "dead", False):
            return
        op = ev[0]
        c = self.client
        if op == "syncnext":
            c.sync_queue.append(ev[1])
            return
        if op == "syncclear":
            del c.sync_queue[:]
            return
        self._cur_line = event_line(ev) if op not in ("stop", "advance") else None
        with warnings.catch_warnings():
            warnings.simplefilter("ignore")
            if op in ("send", "sendh"):
                sid, topic, key, msgs = ev[1:5]
                d = self._send(sid, topic, key, msgs)
                if op == "sendh":
                    d.addBoth(self._run_hook, sid, ev[5])
                self._push(event_line(ev), move_fire_of=sid)
            elif op == "sendraw":
                self._send_raw(ev)
            elif op == "cancel":
                self.deferreds[ev[1]].cancel()
                self._push(event_line(ev))
            elif op == "advance":
                self._push(event_line(ev))  # the advance itself: no observation
                c.reactor.advance(float(frac(ev[1])))
                assert not self.log, self.log
            elif op == "metaset":
                c.set_meta(topic_name(ev[1]), ev[2], ev[3])
                self._push(event_line(ev))
            elif op == "metareset":
                for t in ev[1]:
                    c.topic_partitions.pop(topic_name(t), None)
                    c.topic_errors.pop(topic_name(t), None)
                self._push(event_line(ev))
            elif op == "metawipe":
                c.reset_all_metadata()
                self._push(event_line(ev))
            elif op == "metadone":
                if ev[2][0] == "ok":
                    c.fire(ev[1], True)
                else:
                    c.fail(ev[1], make_exc(ev[2][1]))
                self._push(event_line(ev))
            elif op == "prodone":
                self._complete_produce(ev[1], ev[2], c.fire, c.fail)
                self._push(event_line(ev))
            elif op == "stop":
                _, wipe, outs = ev
                self._stop_event = True
                c.wipe_on_cancel = bool(wipe)
                c.cancel_outcomes = {}
                pout, mouts = "-", []
                for rid_s, out in sorted(outs.items(), key=lambda kv: int(kv[0])):
                    rid = int(rid_s)
                    p = c.pending[rid]
                    if p.kind == "meta":
                        c.cancel_outcomes[rid] = ("fire", None) if out[0] == "ok" else ("fail", make_exc(out[1]))
                        mouts.append("%d:%s" % (rid, "ok" if out[0] == "ok" else out[1]))
                    else:
                        box = {}
                        self._complete_produce(rid, out, lambda r, v: box.update(o=("fire", v)), lambda r, e: box.update(o=("fail", e)))
                        c.cancel_outcomes[rid] = box["o"]
                        pout = "%d:%s" % (rid, result_str(out).replace(" ", "~"))
                self.stopped_d = self.producer.stop()
                c.cancel_outcomes = {}
                self.log.append(("stopreturned",))
                self._push("stop %d %s %s" % (1 if wipe else 0, pout, ",".join(mouts) or "-"))
            else:
                raise ValueError(ev)

    def _send(self, sid, topic, key, msgs):
        kb = None if key is None else bytes.fromhex(key)
        vals = [msg_value(sid, i, s) for i, s in enumerate(msgs)]
        self.sends[sid] = (topic, kb, vals)
        self.next_sid += 1
        outer_sid = self._cur_sid  # (a send made by a callback inside another send_messages call)
        self._cur_sid = sid
        try:
            d = self.producer.send_messages(topic_name(topic), key=kb, msgs=vals)
        except Exception as e:  # noqa: BLE001
            # an exception ESCAPED the public call: an observation of this step (the model has none: a disagreement,
            # and the ground-truth failure `escaped-exception`); the request's Deferred, if the call got as far as
            # creating it, is the one of `_outstanding` the harness does not know yet
            self.log.append(("raised", type(e).__name__))
            d = next((x for x in self.producer._outstanding if id(x) not in self.dmap), None)
            if d is None:
                from twisted.internet.defer import Deferred
                d = Deferred()
        finally:
            self._cur_sid = outer_sid
        self.dmap[id(d)] = sid
        self.deferreds[sid] = d
        d.addCallbacks(self._fire_cb, self._fire_cb, callbackArgs=(sid, True), errbackArgs=(sid, False))
        return d

    def _send_raw(self, ev):
        """`send_messages` with raw arguments.  A call the validation refuses returns an already failed Deferred
        (TypeError / ValueError) that was never one of `_outstanding`; anything else is a send like any other."""
        import afkak.common as C
        from twisted.python.failure import Failure

        sid = self.next_sid
        topic, key, msgs = raw_objects(ev, sid)
        try:
            vals = list(msgs)
            self.sends[sid] = (topic_index(topic), key, vals)  # (known to `segment` should the call dispatch at once)
        except Exception:  # noqa: BLE001
            vals = None
        probe = self.producer._outstanding
        before = probe.appended
        idx = len(self.steps)
        self._cur_sid = sid
        # the id is taken BEFORE the call: a callback of another send that fires inside it may make sends of its own
        # (given back below if the validation refuses the call - nothing can have run inside it then)
        self.next_sid += 1
        try:
            d = self.producer.send_messages(topic, key=key, msgs=msgs)
        finally:
            self._cur_sid = None
        res = getattr(d, "result", None)
        if probe.appended == before and not (isinstance(res, Failure) and res.check(C.CancelledError)):
            # the validation refused the call: the Deferred it returns was never one of `_outstanding`
            # (a call refused because stop() has begun is the model's `send` event: it uses a send id)
            self.sends.pop(sid, None)
            self.next_sid = sid
            self.log.append(("refused", kind_of(res.value) if isinstance(res, Failure) else "x:not-failed"))
            d.addErrback(lambda f: None)
            self.flat_lines[len(self.steps)] = None
            self._push(event_line(ev))
            return
        # accepted: the model's `send` event with the next send id
        self.dmap[id(d)] = sid
        self.deferreds[sid] = d
        d.addCallbacks(self._fire_cb, self._fire_cb, callbackArgs=(sid, True), errbackArgs=(sid, False))
        self.flat_lines[idx] = "send %d %d %s %s" % (
            sid, topic_index(topic), "N" if key is None else (key.hex() or "-"),
            ",".join("n" if x is None else str(len(x)) for x in vals) or "-")
        self.moved[idx] = sid  # (its own firing is observed late, like a `send`'s: compared apart, see diff)
        self._push(event_line(ev), move_fire_of=sid)

    def _run_hook(self, _result, sid, hook):
        """the callback of a hooked send: calls back into the Producer, from wherever its Deferred fired"""
        self.log.append(("hookbegin", sid))
        for a in hook:
            if a[0] == "s":
                new = self.next_sid
                self.hook_sids.setdefault(len(self.steps), []).append(new)
                self._send(new, a[1], a[2], a[3])
            elif a[0] == "c":
                if a[1] in self.deferreds:
                    self.deferreds[a[1]].cancel()
                else:
                    self.log.append(("hookbadop",))
            elif a[0] == "x":
                self.client.cancel_outcomes = {}
                lp = self.producer._sendLooper
                was_running = lp is not None and lp.running
                mark = len(self.log)
                self.producer.stop()
                if was_running and ("canceltimer", "L") not in self.log[mark:]:
                    # stop() from inside the looping call's own call: LoopingCall.stop() has no timer to cancel
                    # (it just does not reschedule); the chain is executing, so nothing precedes it in stop()
                    self.log.insert(mark, ("canceltimer", "L"))
                self.log.append(("stopreturned",))
        self.log.append(("hookend",))
        return None

    def _complete_produce(self, rid, res, fire, fail):
        import afkak.common as C
        from twisted.python.failure import Failure

        p = self.client.pending[rid]
        by_tp = {(topic_index(pl.topic), pl.partition): pl for pl in p.args}

        def resp(r):
            return C.ProduceResponse(topic_name(r[0]), r[1], r[2], r[3])

        if res[0] == "resp":
            fire(rid, [resp(r) for r in res[1]])
        elif res[0] == "none":
            fire(rid, None)
        elif res[0] == "err":
            fail(rid, make_exc(res[1]))
        elif res[0] == "fail":
            fps = []
            for f in res[2]:
                e = make_exc(f[2])
                fps.append((by_tp[(f[0], f[1])], Failure(e) if f[3] else e))
            fail(rid, C.FailedPayloadsError([resp(r) for r in res[1]], fps))
        else:
            raise ValueError(res)

    # ---- what the generator may look at
    def pending_requests(self):
        return [(rid, p.kind, p.args) for rid, p in sorted(self.client.pending.items()) if not p.done]

    def pending_timers(self):
        return [(dc._verif_tid, dc.getTime()) for dc in self.client.reactor.calls]

    def outstanding(self):
        return [self.dmap[id(d)] for d in self.producer._outstanding if id(d) in self.dmap]


def _from_afkak(exc):
    """did the exception pass through the library's code (as opposed to: raised by the harness itself because a
    replayed / shrunk scenario names a request or a send this implementation never made)?"""
    tb = exc.__traceback__
    while tb is not None:
        fn = tb.tb_frame.f_code.co_filename.replace("\\", "/")
        if "/afkak/" in fn:
            return True
        tb = tb.tb_next
    return False


def run_real(scn):
    r = RealRun(scn["cfg"])
    for ev in scn["events"]:
        r.apply(ev)
    return r


def model_requests(real):
    """Lines for `model_producer` for one recorded run."""
    return ["reset", cfg_line(real.cfg)] + [s[0] for s in real.steps]


def close(a, b):
    return abs(a - b) <= 1e-9 * max(1.0, abs(a), abs(b))


def same_line(impl, model):
    if impl == model:
        return True
    ia, ma = impl.split(" "), model.split(" ")
    if len(ia) != len(ma) or ia[0] != ma[0]:
        return False
    if ia[0] == "settimer":
        return ia[1] == ma[1] and close(float(Fraction(ia[2])), float(Fraction(ma[2])))
    if ia[0] == "state":
        for x, y in zip(ia[1:], ma[1:]):
            if x.startswith("iv="):
                if not (y.startswith("iv=") and close(float(Fraction(x[3:])), float(Fraction(y[3:])))):
                    return False
            elif x != y:
                return False
        return True
    return False


def _parse_produce(line):
    a = line.split(" ")
    if len(a) != 3 or a[2] == "-":
        return None
    out = []
    for p in a[2].split(";"):
        tp, sids = p.split("#")[0].split("=")
        if sids == "?":
            return None
        out.append((tp, [int(x) for x in sids.split(",")] if sids != "-" else []))
    return a[1], out


def same_content(real, impl, model):
    """Two `produce` lines that name different sends but put the same (key, value) sequences into
    the same topic/partitions: sends with identical content cannot be told apart in a payload."""
    pi, pm = _parse_produce(impl), _parse_produce(model)
    if pi is None or pm is None or pi[0] != pm[0] or [tp for tp, _ in pi[1]] != [tp for tp, _ in pm[1]]:
        return False
    for (tp, si), (_tp, sm) in zip(pi[1], pm[1]):
        t = int(tp.split("/")[0])
        if any(x not in real.sends or real.sends[x][0] != t for x in si + sm):
            return False
        ei = [(real.sends[x][1], v) for x in si for v in real.sends[x][2]]
        em = [(real.sends[x][1], v) for x in sm for v in real.sends[x][2]]
        if ei != em:
            return False
    return True


def diff(real, answers):
    """answers: model answer lists for model_requests(real).  -> None or (step index, impl, model).
    Content-identical `produce` lines are unified (the implementation's line is rewritten to the
    model's choice of sids, so that the monitors see one naming)."""
    got = answers[2:]
    moved = getattr(real, "moved", {})
    hook_sids = getattr(real, "hook_sids", {})
    for i, ((line, obs, st), g) in enumerate(zip(real.steps, got)):
        # The harness attaches its callback to a send's Deferred when `send_messages` has returned: a firing of that
        # Deferred inside the call (the send of this step, sends made by hooks in this step) is observed late.
        # Such firings are compared apart from the rest of the step.
        special = list(hook_sids.get(i, []))
        if line.startswith("send ") or line.startswith("sendh "):
            special.append(int(line.split(" ")[1]))
        elif i in moved:
            special.append(moved[i])
        if special:
            tags = tuple("fire %d " % x for x in special)
            obs[:] = [o for o in obs if not o.startswith(tags)] + sorted(o for o in obs if o.startswith(tags))
            g = [o for o in g[:-1] if not o.startswith(tags)] + sorted(o for o in g[:-1] if o.startswith(tags)) + g[-1:]
        want = obs + [st]
        if len(want) != len(g):
            return (i, want, g)
        for j, (a, b) in enumerate(zip(want, g)):
            if same_line(a, b):
                continue
            if a.startswith("produce ") and b.startswith("produce ") and same_content(real, a, b):
                obs[j] = b
                continue
            return (i, want, g)
    return None
