"""Python-AST -> Lean 4 translator for a small subset of *pure integer* Python functions.

Used by harness/consts/partitioner.py to regenerate the model term of `afkak.partitioner.pure_murmur2`
from /repo's AST on every run (the term is then PROVED equal to the hand-written model, see
lean/AfkakProofs/MurmurGen.lean, obligation C18_generated_murmur_eq_model).  This module is part of
the trusted base: the theorem is about the term it emits.

The emitted text is a deterministic function of the AST alone (comments, line breaks, redundant
parentheses and the docstring do not reach the AST, so they do not change the output; any change to
an operator, operand, constant, statement order, loop bound or condition does).

Subset (everything else raises ValueError / KeyError -- nothing is ever silently dropped):

  parameters    positional only, each declared by the caller as 'nat' (a Python int that is known to
                be non-negative) or 'bytes' (a bytearray: Lean `List UInt8`); defaults are ignored
                here (the caller extracts them as constants).
  values        Python ints -> Lean `Nat`.  SOUNDNESS CONDITION: every intermediate value is a
                non-negative int.  This is enforced syntactically: the translator rejects `-`
                (binary and unary), negative constants, `**`, `/`, `~` (except in the one pattern
                below), float/str/bool constants and any call other than len()/range(); all accepted
                operators (+ * // % & | ^ << >>) map non-negative ints to non-negative ints and
                have the same meaning on Nat as on Python's unbounded ints.
                `x // c` and `x % c` are accepted only for a positive integer literal `c`
                (no ZeroDivisionError can be hidden by Lean's `n / 0 = 0`).
                `x & ~c` with `c` a non-negative integer literal is accepted and emitted as
                `x ^^^ (x &&& c)` (clear the bits of c in x; equal to Python's `x & ~c` for every
                x >= 0, whose `~c = -(c+1)` has exactly the bits of c clear).
  len(p)        for a 'bytes' name p: `p.length`.
  p[e]          for a 'bytes' name p and an integer expression e (non-negative, see above): hoisted
                to a monadic bind `let byteN ← p[e]?` in the `Option` monad, the value being
                `byteN.toNat`.  `none` = IndexError.  No default value is ever substituted.
                (Python evaluates the lookups of one statement left to right; all of them raise the
                same IndexError and expressions have no other effects, so hoisting them in that order
                in front of the statement preserves the result.)
  x = e, x op= e   for a simple name x: Lean `let x : Nat := ...` (shadowing = SSA).  `op=` requires x
                to be defined.  Assigning to a 'bytes' name is rejected.
  for i in range(e): body      (one argument, no else, no break/continue)
                -> `List.foldlM (fun carried i => do body; pure carried) carried (List.range e)` where
                `carried` = the variables assigned in the body that are defined before the loop (a
                tuple if more than one).  Variables first assigned inside the body are local to one
                iteration: a read before the write inside the body, or any read after the loop (also
                of `i`), is rejected as an undefined name (Python would leak the previous value).
  if c: .. elif c2: .. else: ..     c a single comparison (== != < <= > >=) of integer expressions
                -> `let carried ← (if c then (do ..; pure carried) else (do ..; pure carried))`,
                `carried` = the variables assigned in some branch that are defined before the `if`;
                variables first assigned inside a branch are dropped afterwards (a later read is
                rejected).  An `if` that assigns no previously defined variable is rejected.
  return e      only as the last statement of the function: `pure e`.
  EXTENSIONS used for `HashedPartitioner.partition` (harness/consts/partgen.py):
  'ints' parameters   a Python list of ints: Lean `List Int`; `len(p)` is `p.length`; `p[e]` is allowed
                only as the WHOLE returned expression (`return p[e]`): `let elemN ← p[e]?; pure elemN`,
                and the term's result type is then `Option Int`.  (`e` is a non-negative int here, so
                Python's negative indexing cannot occur; out of range = IndexError = `none`.)
  x % e, x // e with a NON-literal divisor e: hoisted as `let divN ← (if e = 0 then none else some e)`
                in front of the statement (`none` = ZeroDivisionError), the operation then uses divN.
  opaque calls  the caller may declare `opaque={"<source text of a call>": "<param>"}`: that call
                expression (compared as `ast.unparse` text) is replaced by the named 'nat' parameter of
                the generated term (its value is an input of the term; the tie of the callee to the
                model is made elsewhere).  `signature=[...]` states the Python parameter names expected.
  leading docstring: skipped.  Leading guard, recognised as a fixed pattern and skipped:
                `if not isinstance(<bytes param>, bytearray): raise TypeError(...)`
                (the input type `List UInt8` IS the bytearray precondition; the TypeError path is
                exercised by the correspondence harness, not by this term).
"""
import ast

LEAN_RESERVED = {
    "at", "by", "do", "else", "end", "from", "fun", "have", "if", "in", "let", "match", "then", "with",
    "where", "show", "open", "def", "theorem", "example", "instance", "structure", "inductive", "class",
    "namespace", "section", "variable", "universe", "import", "return", "pure", "for", "mut", "unless",
    "try", "catch", "finally", "break", "continue", "some", "none", "Nat", "List", "Option", "Type",
    "Prop", "Sort", "using", "deriving", "extends", "private", "protected", "partial", "macro", "syntax",
    "notation", "infix", "infixl", "infixr", "prefix", "postfix", "set_option", "attribute", "mutual",
    "nomatch", "nofun", "this", "suffices", "calc", "forall", "exists", "true", "false", "termination_by",
    "decreasing_by", "abbrev", "axiom", "opaque", "unsafe", "noncomputable", "local", "scoped", "export",
    "omit", "include", "assert", "dbg_trace", "repeat", "while", "and", "or", "not",
}

BINOPS = {
    ast.Add: "+",
    ast.Mult: "*",
    ast.FloorDiv: "/",
    ast.Mod: "%",
    ast.BitAnd: "&&&",
    ast.BitOr: "|||",
    ast.BitXor: "^^^",
    ast.LShift: "<<<",
    ast.RShift: ">>>",
}

CMPOPS = {ast.Eq: "=", ast.NotEq: "≠", ast.Lt: "<", ast.LtE: "≤", ast.Gt: ">", ast.GtE: "≥"}

TMP = "byte"  # hoisted lookups are named byte0, byte1, ...


def _bad(node, why):
    line = getattr(node, "lineno", "?")
    raise ValueError("pure_translate: line %s: %s: %s" % (line, why, ast.dump(node)[:160]))


def _nonneg_int(node):
    return isinstance(node, ast.Constant) and type(node.value) is int and node.value >= 0


class Translator:
    def __init__(self, func, params, signature=None, opaque=None):
        if not isinstance(func, ast.FunctionDef):
            raise ValueError("pure_translate: not a plain function definition")
        self.func = func
        self.params = list(params)
        self.ntmp = 0
        self.skipped = []
        self.opaque = dict(opaque or {})
        self.ret_int = False
        a = func.args
        if a.vararg or a.kwarg or a.kwonlyargs or a.posonlyargs:
            _bad(func, "unsupported parameter kinds")
        names = [x.arg for x in a.args]
        want = list(signature) if signature is not None else [p for p, _ in self.params]
        if names != want:
            raise KeyError("pure_translate: parameters of %s are %s, expected %s" % (func.name, names, want))
        if func.decorator_list:
            _bad(func, "decorators are not supported")
        for p, ty in self.params:
            if ty not in ("nat", "bytes", "ints"):
                raise ValueError("pure_translate: unknown parameter type %s" % ty)
        for v in self.opaque.values():
            if dict(self.params).get(v) != "nat":
                raise ValueError("pure_translate: opaque call must map to a 'nat' parameter")
        # every identifier of the function must be usable as a Lean identifier and must not collide
        # with the names of hoisted lookups
        for n in ast.walk(func):
            ident = n.id if isinstance(n, ast.Name) else n.arg if isinstance(n, ast.arg) else None
            if ident is None:
                continue
            if not (ident.isascii() and ident.isidentifier()) or ident in LEAN_RESERVED or ident.startswith("_"):
                raise ValueError("pure_translate: identifier %r cannot be used in the generated Lean term" % ident)
            for pfx in (TMP, "div", "elem"):
                if ident.startswith(pfx) and ident[len(pfx):].isdigit():
                    raise ValueError("pure_translate: identifier %r collides with generated names" % ident)

    # ---- expressions: return a Lean string; lookups are appended to `pre` as monadic binds ----
    def atom(self, node, env, pre):
        s = self.expr(node, env, pre)
        simple = s.replace("_", "a").replace(".", "a").isalnum()
        return s if simple else "(" + s + ")"

    def expr(self, node, env, pre):
        if isinstance(node, ast.Constant):
            if not _nonneg_int(node):
                _bad(node, "only non-negative integer constants are supported")
            return str(node.value)
        if isinstance(node, ast.Name):
            if env.get(node.id) != "nat":
                raise KeyError("pure_translate: line %s: name %r is not a defined integer variable here" % (node.lineno, node.id))
            return node.id
        if isinstance(node, ast.BinOp):
            # x & ~c  (c a non-negative literal)  ==  x ^ (x & c)   for x >= 0
            if isinstance(node.op, ast.BitAnd) and isinstance(node.right, ast.UnaryOp) and isinstance(node.right.op, ast.Invert):
                if not _nonneg_int(node.right.operand):
                    _bad(node, "`x & ~c` is supported for a non-negative literal c only")
                x = self.atom(node.left, env, pre)
                return "%s ^^^ (%s &&& %d)" % (x, x, node.right.operand.value)
            op = BINOPS.get(type(node.op))
            if op is None:
                _bad(node, "operator not in the non-negative integer subset (-, /, **, @ are rejected)")
            if isinstance(node.op, (ast.FloorDiv, ast.Mod)):
                if _nonneg_int(node.right):
                    if node.right.value == 0:
                        _bad(node, "division by the literal 0")
                else:
                    # non-literal divisor: ZeroDivisionError = none, checked before the operation
                    l = self.atom(node.left, env, pre)
                    r = self.expr(node.right, env, pre)
                    name = "div%d" % self.ntmp
                    self.ntmp += 1
                    pre.append("let %s ← (if %s = 0 then none else some %s)" % (name, self.atom_str(r), self.atom_str(r)))
                    return "%s %s %s" % (l, op, name)
            l = self.atom(node.left, env, pre)
            r = self.atom(node.right, env, pre)
            return "%s %s %s" % (l, op, r)
        if isinstance(node, ast.Call):
            txt = ast.unparse(node)
            if txt in self.opaque:
                return self.opaque[txt]
            if isinstance(node.func, ast.Name) and node.func.id == "len" and len(node.args) == 1 and not node.keywords:
                a = node.args[0]
                if isinstance(a, ast.Name) and env.get(a.id) in ("bytes", "ints"):
                    return "%s.length" % a.id
            _bad(node, "only len(<bytes/ints parameter>) calls (and declared opaque calls) are supported")
        if isinstance(node, ast.Subscript):
            v = node.value
            if not (isinstance(v, ast.Name) and env.get(v.id) == "bytes"):
                _bad(node, "only <bytes parameter>[int expr] subscripts are supported")
            if isinstance(node.slice, (ast.Slice, ast.Tuple)):
                _bad(node, "slices are not supported")
            idx = self.expr(node.slice, env, pre)
            name = "%s%d" % (TMP, self.ntmp)
            self.ntmp += 1
            pre.append("let %s ← %s[%s]?" % (name, v.id, idx))
            return "%s.toNat" % name
        _bad(node, "expression not in the supported subset")

    def cond(self, node, env, pre):
        if not (isinstance(node, ast.Compare) and len(node.ops) == 1 and type(node.ops[0]) in CMPOPS):
            _bad(node, "condition must be a single integer comparison")
        l = self.atom(node.left, env, pre)
        r = self.atom(node.comparators[0], env, pre)
        return "%s %s %s" % (l, CMPOPS[type(node.ops[0])], r)

    # ---- statements: return list of lines (relative indentation), update env in place ----
    @staticmethod
    def assigned(stmts):
        out = []
        for s in stmts:
            for n in ast.walk(s):
                t = None
                if isinstance(n, ast.Assign):
                    t = n.targets
                elif isinstance(n, (ast.AugAssign, ast.AnnAssign)):
                    t = [n.target]
                elif isinstance(n, ast.For):
                    t = [n.target]
                for x in t or []:
                    if isinstance(x, ast.Name) and x.id not in out:
                        out.append(x.id)
        return out

    @staticmethod
    def tup(names):
        return names[0] if len(names) == 1 else "(" + ", ".join(names) + ")"

    def block(self, stmts, env):
        lines = []
        for s in stmts:
            lines += self.stmt(s, env)
        return lines

    def stmt(self, s, env):
        pre = []
        if isinstance(s, ast.Assign):
            if len(s.targets) != 1 or not isinstance(s.targets[0], ast.Name):
                _bad(s, "only `name = expr` assignments are supported")
            x = s.targets[0].id
            if env.get(x) == "bytes":
                _bad(s, "assignment to a bytes parameter")
            e = self.expr(s.value, env, pre)
            env[x] = "nat"
            return pre + ["let %s : Nat := %s" % (x, e)]
        if isinstance(s, ast.AugAssign):
            if not isinstance(s.target, ast.Name):
                _bad(s, "only `name op= expr` is supported")
            x = s.target.id
            # same rules as the binary operator applied to (x, value)
            fake = ast.BinOp(left=ast.Name(id=x, ctx=ast.Load(), lineno=s.lineno, col_offset=0), op=s.op, right=s.value,
                             lineno=s.lineno, col_offset=0)
            e = self.expr(fake, env, pre)
            return pre + ["let %s : Nat := %s" % (x, e)]
        if isinstance(s, ast.For):
            if s.orelse or not isinstance(s.target, ast.Name) or getattr(s, "type_comment", None):
                _bad(s, "only `for name in range(e):` without else is supported")
            it = s.iter
            if not (isinstance(it, ast.Call) and isinstance(it.func, ast.Name) and it.func.id == "range"
                    and len(it.args) == 1 and not it.keywords):
                _bad(s, "only range(<one argument>) loops are supported")
            i = s.target.id
            if i in env:
                _bad(s, "loop variable shadows a defined name")
            n = self.atom(it.args[0], env, pre)
            carried = [v for v in self.assigned(s.body) if v in env]
            if any(env[v] != "nat" for v in carried):
                _bad(s, "loop assigns a non-integer name")
            if not carried:
                _bad(s, "loop assigns no variable defined before it")
            if i in self.assigned(s.body):
                _bad(s, "loop variable assigned in the body")
            benv = dict(env)
            benv[i] = "nat"
            body = self.block(s.body, benv)
            t = self.tup(carried)
            out = pre + ["let %s ← List.foldlM (fun %s %s => do" % (t, t, i)]
            out += ["  " + l for l in body]
            out += ["  pure %s) %s (List.range %s)" % (t, t, n)]
            return out  # env unchanged: carried names keep type nat; body-local names and `i` are dropped
        if isinstance(s, ast.If):
            c = self.cond(s.test, env, pre)
            carried = [v for v in self.assigned(s.body + s.orelse) if v in env]
            if any(env[v] != "nat" for v in carried):
                _bad(s, "if assigns a non-integer name")
            if not carried:
                _bad(s, "if statement assigns no variable defined before it")
            t = self.tup(carried)
            out = pre + ["let %s ← (if %s then (do" % (t, c)]
            out += ["  " + l for l in self.block(s.body, dict(env))]
            if s.orelse:
                out += ["  pure %s) else (do" % t]
                out += ["  " + l for l in self.block(s.orelse, dict(env))]
                out += ["  pure %s))" % t]
            else:
                out += ["  pure %s) else pure %s)" % (t, t)]
            return out
        _bad(s, "statement not in the supported subset")

    def guard(self, s):
        """`if not isinstance(<bytes param>, bytearray): raise TypeError(...)`"""
        if not (isinstance(s, ast.If) and not s.orelse and len(s.body) == 1 and isinstance(s.body[0], ast.Raise)):
            return False
        t = s.test
        if not (isinstance(t, ast.UnaryOp) and isinstance(t.op, ast.Not) and isinstance(t.operand, ast.Call)):
            return False
        c = t.operand
        if not (isinstance(c.func, ast.Name) and c.func.id == "isinstance" and len(c.args) == 2 and not c.keywords):
            return False
        a, b = c.args
        if not (isinstance(a, ast.Name) and dict(self.params).get(a.id) == "bytes" and isinstance(b, ast.Name) and b.id == "bytearray"):
            return False
        r = s.body[0]
        e = r.exc
        if r.cause is not None or not (isinstance(e, ast.Call) and isinstance(e.func, ast.Name) and e.func.id == "TypeError"):
            return False
        return True

    def translate(self):
        """-> the Lean term `fun <params> => do ...` of type  <param types> → Option Nat."""
        body = list(self.func.body)
        if body and isinstance(body[0], ast.Expr) and isinstance(body[0].value, ast.Constant) and isinstance(body[0].value.value, str):
            self.skipped.append("docstring")
            body = body[1:]
        while body and self.guard(body[0]):
            self.skipped.append("isinstance guard (line %d)" % body[0].lineno)
            body = body[1:]
        if not body or not isinstance(body[-1], ast.Return) or body[-1].value is None:
            raise ValueError("pure_translate: the function must end with `return <expr>`")
        env = dict(self.params)
        lines = self.block(body[:-1], env)
        pre = []
        rv = body[-1].value
        if isinstance(rv, ast.Subscript) and isinstance(rv.value, ast.Name) and env.get(rv.value.id) == "ints":
            # `return p[e]` for a list of ints p: the only place an Int value may appear
            if isinstance(rv.slice, (ast.Slice, ast.Tuple)):
                _bad(rv, "slices are not supported")
            idx = self.expr(rv.slice, env, pre)
            name = "elem%d" % self.ntmp
            self.ntmp += 1
            pre.append("let %s ← %s[%s]?" % (name, rv.value.id, idx))
            self.ret_int = True
            e = name
        else:
            e = self.expr(rv, env, pre)
        lines += pre + ["pure %s" % self.atom_str(e)]
        head = "fun %s => do" % " ".join(p for p, _ in self.params)
        return head + "\n" + "\n".join("  " + l for l in lines)

    @staticmethod
    def atom_str(s):
        return s if s.replace("_", "a").replace(".", "a").isalnum() else "(" + s + ")"


def lean_type(params, ret_int=False):
    return " → ".join({"nat": "Nat", "bytes": "List UInt8", "ints": "List Int"}[ty] for _, ty in params) + (
        " → Option Int" if ret_int else " → Option Nat")


def translate_function(func, params, signature=None, opaque=None):
    """func: ast.FunctionDef; params: [(name, 'nat'|'bytes'|'ints')] -> (lean_type, lean_term)."""
    tr = Translator(func, params, signature=signature, opaque=opaque)
    term = tr.translate()
    return lean_type(params, tr.ret_int), term


if __name__ == "__main__":
    import sys

    path, name = sys.argv[1], sys.argv[2]
    tree = ast.parse(open(path).read())
    f = [n for n in ast.walk(tree) if isinstance(n, ast.FunctionDef) and n.name == name][0]
    ps = [tuple(a.split(":")) for a in sys.argv[3:]]
    ty, term = translate_function(f, ps)
    print("def gen_%s : %s := %s" % (name, ty, term))
