"""Python-AST -> Lean 4 translator for the *typed, exception-raising* functions of afkak/_util.py and
afkak/kafkacodec.py (the byte writers / readers and the straight-line request encoders and response
decoders).  Companion of harness/lib/pure_translate.py (which handles non-negative integer code).

Used by harness/consts/wiregen.py to regenerate `Afkak/Generated/WiregenConsts.lean` from /repo's AST
on every run.  Each generated definition `Afkak.Consts.gen<Function>` is PROVED equal, for all inputs,
to the hand-written model function (lean/AfkakProofs/Wire/GenEq*.lean, obligations
`C04_generated_<fn>_eq_model` / `C05_generated_<fn>_eq_model`).  This module is part of the trusted
base: the theorems are about the terms it emits.

The emitted text is a deterministic function of the AST alone: comments, blank lines, redundant
parentheses, docstrings and annotations do not reach it; any change to an operator, operand,
constant, format string, statement order, condition, exception class, callee or argument does.

Value representation (the same as the hand-written model's, lean/Afkak/Wire/Primitives.lean):
  int -> `Int` (exact)            bytes -> `Bytes` (= `List UInt8`)         None-able bytes -> `Option Bytes`
  str -> its UTF-8 bytes (`Bytes`; type name 'text'), None-able str -> `Option Bytes` ('opttext')
  struct format parameter -> `List Char` ('fmt')     tuple of ints from struct.unpack -> `List Int` ('ints')
  list of T -> `List T`     record (attrs / namedtuple) -> right-nested product of its declared fields
A raised exception is `Except.error <class>`; the result type of every generated term is
`Afkak.Wire.R T`.  No default value is ever substituted for an exception.

Subset (everything else raises ValueError / KeyError -- nothing is silently dropped):

  parameters    positional, types declared by the caller; `cls` of a @classmethod is dropped.
                Annotations and defaults are ignored here (a default is used when a translated CALL
                omits the argument: it must be an int literal or None).
  statements    a function body is translated in continuation style; every path must end in
                `return` or `raise` (falling off the end is rejected).
      if c: A [elif ..] [else: B]; rest
                c = one integer comparison, or `x is None` / `x is not None` for a None-able name x
                (translated to a `match` that re-binds x to the non-None value in the other branch).
                If there is no else-part A must end in return/raise and `rest` is the else-part.
      guard     `if not isinstance(<param>, <type>): raise TypeError(..)` is SKIPPED (the declared
                parameter type IS that precondition; the TypeError path is exercised by the
                correspondence harness); its elif/else chain is translated as the continuation.
                Every skipped guard is listed in the generated file.
      raise E(..)     -> `Except.error <E>`; E must be in EXC (or a module-level helper function whose
                body is `return E(..)`).  The arguments (message formatting) are NOT translated.
      return e  / return e1, e2   coerced to the declared result type (bytes -> Option Bytes by `some`).
      x = e ; x += e ; x, y = f(..) ; (a, b), cur = f(..) ; (a,) = struct.unpack(..)
                tuple targets over a `List Int` become a `match` on the exact length whose other
                branch is `ValueError` (Python: "not enough / too many values to unpack").
      for x in e: body     body = assignments to names defined before the loop (accumulators)
                -> `List.foldlM`; names first assigned in the body are local to an iteration.
      for i in range(n): body    -> `List.foldlM` over `List.range n.toNat` (a negative n is an empty range,
                as in Python); the body may also contain tuple-unpacking assignments and `lst.append(e)`.
      lst = [] (element type declared by the caller) ; lst.append(e)  -> `lst ++ [e]`
      for k, v in d.items(): / for k in d: / d.values() / len(d)   for a dict d (an association list in
                insertion order); loops may be nested.
      if c: x = a  else: x = b     (one assignment to the same name on both sides, no fallible call)
                -> `let x := if c then a else b`
      assert x is not None  -> as `if x is None: raise AssertionError`; `assert c` for an int comparison c
                likewise; `assert isinstance(<int name>, int)` is a SKIPPED guard (listed).
      p = [] if p is None else p   for a parameter p whose declared type is a (never-None) list: SKIPPED
                (listed): the declared type is the precondition `p is not None`.
      sum(<int expr> for x in <list>)   -> `(List.map (fun x => ..) l).sum`
      [e1, e2] / lst.append(e) / b"".join(lst)   for a list of bytes -> `List.flatten`
      struct.pack(fmt, a, *xs)   (a starred list of ints as last argument) -> `pack fmt ([a] ++ xs)`
      "<template>" % n   as a struct format (one `%d`/`%s` directive used as a repeat count, n an int)
                -> hoisted `let tN ← expandFmtR <template> n` (GenPrims.lean: `n` copies of the following
                format character; a negative count is a format `struct` rejects: struct.error)
      d = {} (type declared by the caller) ; d[k] = v   -> `dictSet d k v`
      nativeString(s)   (twisted.python.compat, for a `str` s) -> hoisted `let tN ← nativeStringR s`
                (GenPrims.lean: returns s after checking that it is ASCII, else UnicodeEncodeError)
  generators    a function declared a GENERATOR by the caller (item type given) is translated in the monad
                `Y item` of GenPrims.lean (the items yielded so far, then a value or the exception that ended
                the run): `yield e` -> `yieldY e`; every fallible call is lifted (`liftR`); a raise ends the
                run with the items yielded before it; falling off the end is `pure ()`; `return` is rejected.
                `tuple(l)` of a list of ints is the list.  A loop variable that is never READ anywhere in
                the function (`_i`) may be re-used by a nested loop.
  generic terms  a function may be declared generic in a payload type `α` of which it only reads declared
                attributes: the term takes one accessor function per attribute (`acc_<attr>`); a generic
                function may call another generic function (the accessors are passed on).
  expressions   int literals (also negative), None, names, `rec.field`, `Class.CONST` (int class
                attribute, read from the AST), + - * on ints, + on bytes (`++`), len(bytes|list),
                `data[a:b]` (-> `pySlice`), struct.pack(<literal fmt>, ints..), struct.unpack(fmt, e),
                struct.calcsize(fmt), `s.encode("ascii"|"utf-8")`, `b.decode("ascii"|"utf-8")`,
                and calls of other TRANSLATED functions (positional / keyword arguments, defaults).
                Every fallible call is hoisted, in evaluation order, to a monadic bind `let tN ← ..`
                in front of the statement (expressions have no other effects).
                `//`, `%`, `/`, `**`, shifts and bit operators are rejected.
"""
import ast

from harness.lib.pure_translate import LEAN_RESERVED

EXC = {
    "AssertionError": "assertion",
    "TypeError": "typeError",
    "ValueError": "valueError",
    "BufferUnderflowError": "bufferUnderflow",
    "ProtocolError": "protocol",
    "ChecksumError": "checksum",
    "InvalidMessageError": "invalidMessage",
    "NotImplementedError": "notImplemented",
    "UnsupportedCodecError": "unsupportedCodec",
    "struct.error": "structError",
}

CMPOPS = {ast.Eq: "=", ast.NotEq: "≠", ast.Lt: "<", ast.LtE: "≤", ast.Gt: ">", ast.GtE: "≥"}
INT_BINOPS = {ast.Add: "+", ast.Sub: "-", ast.Mult: "*"}

TMP = "t"  # hoisted results are named t0, t1, ...


def _bad(node, why):
    line = getattr(node, "lineno", "?")
    raise ValueError("wire_translate: line %s: %s: %s" % (line, why, ast.dump(node)[:200]))


def lean_chars(s):
    def ch(c):
        if c == "'":
            return "'\\''"
        if c == "\\":
            return "'\\\\'"
        return "'%s'" % c

    return "[" + ", ".join(ch(c) for c in s) + "]"


def lean_ty(t):
    if t == "int":
        return "Int"
    if t in ("bytes", "text"):
        return "Bytes"
    if t in ("optbytes", "opttext"):
        return "Option Bytes"
    if t == "fmt":
        return "List Char"
    if t == "ints":
        return "List Int"
    if isinstance(t, tuple) and t[0] == "list":
        return "List (%s)" % lean_ty(t[1])
    if isinstance(t, tuple) and t[0] == "abs":
        return t[1]
    if isinstance(t, tuple) and t[0] == "dict":
        return "List (%s × %s)" % (_par(lean_ty(t[1])), _par(lean_ty(t[2])))
    if isinstance(t, tuple) and t[0] == "rec":
        return " × ".join("(%s)" % lean_ty(ft) if isinstance(ft, tuple) and ft[0] in ("rec", "tup") else lean_ty(ft) for _, ft in t[1])
    if isinstance(t, tuple) and t[0] == "tup":
        return " × ".join("(%s)" % lean_ty(ft) if isinstance(ft, tuple) and ft[0] in ("rec", "tup") else lean_ty(ft) for ft in t[1])
    raise ValueError("wire_translate: unknown type %r" % (t,))


def _par(s):
    return "(%s)" % s if " × " in s and not s.startswith("List ") and not s.startswith("Option ") else s


def rec(*fields):
    return ("rec", tuple(fields))


def tup(*types):
    return ("tup", tuple(types))


def lst(t):
    return ("list", t)


def absrec(var, *fields):
    """a record of an ABSTRACT type `var` (a Lean type variable) of which only the listed attributes are
    read; attribute `f` is the application of the accessor function `f` (a parameter of the term)"""
    return ("abs", var, tuple(fields))


def ddict2(k1, k2, v):
    """`collections.defaultdict(dict)` used as out[k1][k2] = v: association lists in insertion order"""
    return ("dict", k1, ("dict", k2, v))


def dct(k, v):
    return ("dict", k, v)


def _proj(base, k, n):
    """k-th of n components of a right-nested product"""
    if n == 1:
        return base
    s = base + ".2" * k
    return s + ".1" if k < n - 1 else s


def _atom(s):
    ok = s.replace("_", "a").replace(".", "a").isalnum()
    if ok or (s.startswith("(") and s.endswith(")") and _balanced(s[1:-1])) or (s.startswith("[") and s.endswith("]")):
        return s
    return "(" + s + ")"


def _balanced(s):
    d = 0
    for c in s:
        if c == "(":
            d += 1
        elif c == ")":
            d -= 1
            if d < 0:
                return False
    return d == 0


class Spec:
    """What the caller declares about one translated function."""

    def __init__(self, py, lean, params, ret, func=None, generic=None, local_types=None, generator=None):
        self.py = py  # python name (last component)
        self.lean = lean  # name of the generated definition
        self.params = list(params)  # [(name, type)]
        self.ret = ret
        self.func = func  # ast.FunctionDef
        self.generic = generic  # None | ("α", [(accessor, result type)...]): the term is generic in α
        self.local_types = dict(local_types or {})  # declared types of locals that cannot be inferred
        self.generator = generator  # None | item type: the function is a generator yielding such items


class WireTranslator:
    def __init__(self, specs, class_consts=None, exc_helpers=None, module_exprs=None, ctors=None):
        """specs: [Spec] (all functions that may call each other); class_consts: {"KafkaCodec": {NAME: int}};
        exc_helpers: {function name: exception class name} for helpers whose body is `return E(..)`;
        module_exprs: {NAME: ast expression} for module-level `NAME = <expr>` constants (the expression
        is translated in place of the name, with an empty environment)."""
        self.specs = {s.py: s for s in specs}
        self.class_consts = class_consts or {}
        self.exc_helpers = exc_helpers or {}
        self.module_exprs = module_exprs or {}
        # result constructors (attrs classes / namedtuples called positionally): {name: number of fields};
        # `Name(a, b)` is the tuple `(a, b)` (the record IS its field values, in the order given)
        self.ctors = ctors or {}
        self.skipped = []
        self.ntmp = 0

    # ------------------------------------------------------------------ expressions
    def fresh(self):
        n = "%s%d" % (TMP, self.ntmp)
        self.ntmp += 1
        return n

    def subst_abs(self, t):
        """an abstract payload type is identified by its type variable: give it the current function's attributes"""
        if isinstance(t, tuple) and t and t[0] == "abs":
            cur = self.current.generic
            if cur is not None and cur[0] == t[1]:
                return ("abs", t[1], tuple(cur[1]))
            return t
        if isinstance(t, tuple):
            return tuple(self.subst_abs(x) for x in t)
        return t

    def coerce(self, s, frm, to, node):
        if self.subst_abs(frm) == self.subst_abs(to):
            return s
        if frm == "none" and to in ("optbytes", "opttext"):
            return "none"
        if (frm, to) in (("bytes", "optbytes"), ("text", "opttext")):
            return "some %s" % _atom(s)
        if frm == "nonelit":
            _bad(node, "None where %s is expected" % (to,))
        if isinstance(frm, tuple) and isinstance(to, tuple) and frm[0] == "tup" and to[0] == "tup":
            _bad(node, "tuple coercion must be done component-wise")
        _bad(node, "type %r where %r is expected" % (frm, to))

    def int_const(self, node):
        if isinstance(node, ast.Constant) and type(node.value) is int:
            return node.value
        if isinstance(node, ast.UnaryOp) and isinstance(node.op, ast.USub) and isinstance(node.operand, ast.Constant) and type(node.operand.value) is int:
            return -node.operand.value
        return None

    def expr(self, node, env, pre):
        """-> (lean string, type)"""
        c = self.int_const(node)
        if c is not None:
            return ("(%d)" % c if c < 0 else str(c)), "int"
        if isinstance(node, ast.Constant):
            if node.value is None:
                return "none", "none"
            _bad(node, "only int literals and None are supported as constants")
        if isinstance(node, ast.Name):
            if node.id not in env and node.id in self.module_exprs:
                return self.expr(self.module_exprs[node.id], {}, pre)
            if node.id not in env:
                raise KeyError("wire_translate: line %s: name %r is not defined here" % (node.lineno, node.id))
            return node.id, env[node.id]
        if isinstance(node, ast.Attribute):
            v = node.value
            if isinstance(v, ast.Name) and v.id in self.class_consts and v.id not in env:
                consts = self.class_consts[v.id]
                if node.attr not in consts:
                    raise KeyError("wire_translate: line %s: %s.%s is not an int class constant" % (node.lineno, v.id, node.attr))
                c = consts[node.attr]
                return ("(%d)" % c if c < 0 else str(c)), "int"
            base, bt = self.expr(v, env, pre)
            if isinstance(bt, tuple) and bt[0] == "rec":
                names = [f for f, _ in bt[1]]
                if node.attr not in names:
                    raise KeyError("wire_translate: line %s: record has no field %r" % (node.lineno, node.attr))
                k = names.index(node.attr)
                return _proj(_atom(base), k, len(names)), bt[1][k][1]
            if isinstance(bt, tuple) and bt[0] == "abs":
                fields = dict(bt[2])
                if node.attr not in fields:
                    raise KeyError("wire_translate: line %s: abstract record has no declared attribute %r" % (node.lineno, node.attr))
                return "acc_%s %s" % (node.attr, _atom(base)), fields[node.attr]
            _bad(node, "attribute of a non-record")
        if isinstance(node, ast.BinOp):
            l, lt = self.expr(node.left, env, pre)
            r, rt = self.expr(node.right, env, pre)
            if lt == "int" and rt == "int" and type(node.op) in INT_BINOPS:
                return "%s %s %s" % (_atom(l), INT_BINOPS[type(node.op)], _atom(r)), "int"
            if isinstance(node.op, ast.Add) and lt in ("bytes",) and rt in ("bytes",):
                return "%s ++ %s" % (_atom(l), _atom(r)), "bytes"
            _bad(node, "operator/operand types not in the supported subset (%r, %r)" % (lt, rt))
        if isinstance(node, ast.Subscript):
            base, bt = self.expr(node.value, env, pre)
            sl = node.slice
            if bt == "bytes" and isinstance(sl, ast.Slice) and sl.lower is not None and sl.upper is not None and sl.step is None:
                lo, lot = self.expr(sl.lower, env, pre)
                hi, hit = self.expr(sl.upper, env, pre)
                if lot != "int" or hit != "int":
                    _bad(node, "slice bounds must be ints")
                return "pySlice %s %s %s" % (_atom(base), _atom(lo), _atom(hi)), "bytes"
            _bad(node, "only bytes[lo:hi] subscripts are supported")
        if isinstance(node, ast.List) and not node.elts:
            return "[]", "list?"
        if isinstance(node, ast.Dict) and not node.keys:
            return "[]", "dict?"
        if isinstance(node, ast.List):
            parts = [self.expr(e, env, pre) for e in node.elts]
            if any(t != "bytes" for _, t in parts):
                _bad(node, "only list literals of bytes values are supported")
            return "[" + ", ".join(p for p, _ in parts) + "]", ("list", "bytes")
        if isinstance(node, ast.Tuple):
            parts = [self.expr(e, env, pre) for e in node.elts]
            return "(" + ", ".join(p for p, _ in parts) + ")", ("tup", tuple(t for _, t in parts))
        if isinstance(node, ast.Call):
            return self.call(node, env, pre)
        _bad(node, "expression not in the supported subset")

    def fmt_arg(self, node, env, pre):
        if isinstance(node, ast.Constant) and isinstance(node.value, str):
            return lean_chars(node.value)
        if isinstance(node, ast.BinOp) and isinstance(node.op, ast.Mod) and isinstance(node.left, ast.Constant) and isinstance(node.left.value, str):
            tmpl = node.left.value
            if tmpl.count("%") != 1 or ("%d" not in tmpl and "%s" not in tmpl):
                _bad(node, "format template must contain exactly one %d / %s directive")
            n, nt = self.expr(node.right, env, pre)
            if nt != "int":
                _bad(node, "format template argument must be an int")
            name = self.fresh()
            pre.append("let %s ← expandFmtR %s %s" % (name, lean_chars(tmpl), _atom(n)))
            return name
        s, t = self.expr(node, env, pre)
        if t != "fmt":
            _bad(node, "struct format must be a string literal or a format parameter")
        return s

    def call(self, node, env, pre):
        f = node.func
        # len(x)
        if isinstance(f, ast.Name) and f.id == "len" and len(node.args) == 1 and not node.keywords and "len" not in env:
            a, at = self.expr(node.args[0], env, pre)
            if at in ("bytes",) or (isinstance(at, tuple) and at[0] in ("list", "dict")) or at == "ints":
                return "(%s.length : Int)" % _atom(a), "int"
            _bad(node, "len() of %r (len of a str counts code points, of None raises: not supported)" % (at,))
        # struct.pack / unpack / calcsize
        if isinstance(f, ast.Attribute) and isinstance(f.value, ast.Name) and f.value.id == "struct" and "struct" not in env:
            if node.keywords or any(isinstance(a, ast.Starred) for a in node.args[:-1]) or (
                    f.attr != "pack" and any(isinstance(a, ast.Starred) for a in node.args)):
                _bad(node, "keywords / *args in a struct call")
            if f.attr == "pack" and node.args:
                fmt = self.fmt_arg(node.args[0], env, pre)
                vals = []
                star = None
                for a in node.args[1:]:
                    if isinstance(a, ast.Starred):
                        s, t = self.expr(a.value, env, pre)
                        if t != "ints":
                            _bad(a, "a starred struct.pack argument must be a list of ints")
                        star = s
                        continue
                    s, t = self.expr(a, env, pre)
                    if t != "int":
                        _bad(a, "struct.pack value must be an int")
                    vals.append(s)
                n = self.fresh()
                lst_ = "[%s]" % ", ".join(vals) if star is None else "([%s] ++ %s)" % (", ".join(vals), _atom(star))
                pre.append("let %s ← pack %s %s" % (n, fmt, lst_))
                return n, "bytes"
            if f.attr == "unpack" and len(node.args) == 2:
                fmt = self.fmt_arg(node.args[0], env, pre)
                s, t = self.expr(node.args[1], env, pre)
                if t != "bytes":
                    _bad(node, "struct.unpack buffer must be bytes")
                n = self.fresh()
                pre.append("let %s ← unpackR %s %s" % (n, fmt, _atom(s)))
                return n, "ints"
            if f.attr == "calcsize" and len(node.args) == 1:
                fmt = self.fmt_arg(node.args[0], env, pre)
                n = self.fresh()
                pre.append("let %s ← calcsizeR %s" % (n, fmt))
                return n, "int"
            _bad(node, "struct.%s is not supported" % f.attr)
        # d.items() / d.values()
        if isinstance(f, ast.Attribute) and f.attr in ("items", "values") and not node.args and not node.keywords:
            d, dt = self.expr(f.value, env, pre)
            if isinstance(dt, tuple) and dt[0] == "dict":
                if f.attr == "items":
                    return d, ("list", ("tup", (dt[1], dt[2])))
                return "List.map Prod.snd %s" % _atom(d), ("list", dt[2])
            _bad(node, ".%s() of a non-dict" % f.attr)
        # b"".join(list of bytes)
        if isinstance(f, ast.Attribute) and f.attr == "join" and isinstance(f.value, ast.Constant) and f.value.value == b"" \
                and len(node.args) == 1 and not node.keywords:
            l, lt = self.expr(node.args[0], env, pre)
            if lt != ("list", "bytes"):
                _bad(node, "b\"\".join of something that is not a list of bytes")
            return "List.flatten %s" % _atom(l), "bytes"
        # sum(<int expr> for x in <list>)
        if isinstance(f, ast.Name) and f.id == "sum" and "sum" not in env and len(node.args) == 1 and not node.keywords \
                and isinstance(node.args[0], ast.GeneratorExp):
            g = node.args[0]
            if len(g.generators) != 1 or g.generators[0].ifs or g.generators[0].is_async or not isinstance(g.generators[0].target, ast.Name):
                _bad(node, "only sum(e for x in l) is supported")
            c = g.generators[0]
            l, lt = self.expr(c.iter, env, pre)
            if not (isinstance(lt, tuple) and lt[0] == "list"):
                _bad(node, "sum over a non-list")
            x = c.target.id
            self.check_ident(x)
            if x in env:
                _bad(node, "generator variable shadows a defined name")
            genv = dict(env)
            genv[x] = lt[1]
            gpre = []
            e, et = self.expr(g.elt, genv, gpre)
            if gpre or et != "int":
                _bad(node, "the summed expression must be a plain int expression")
            return "List.sum (List.map (fun %s => %s) %s)" % (x, e, _atom(l)), "int"
        # collections.defaultdict(dict)
        if isinstance(f, ast.Attribute) and isinstance(f.value, ast.Name) and f.value.id == "collections" and f.attr == "defaultdict" \
                and len(node.args) == 1 and not node.keywords and isinstance(node.args[0], ast.Name) and node.args[0].id == "dict":
            return "[]", "ddict2?"
        # s.encode("ascii") / b.decode("utf-8")
        if isinstance(f, ast.Attribute) and f.attr in ("encode", "decode") and len(node.args) == 1 and not node.keywords \
                and isinstance(node.args[0], ast.Constant) and isinstance(node.args[0].value, str):
            codec = node.args[0].value.lower()
            s, t = self.expr(f.value, env, pre)
            n = self.fresh()
            if f.attr == "encode" and t == "text" and codec in ("ascii", "utf-8"):
                pre.append("let %s ← %s %s" % (n, {"ascii": "encodeAscii", "utf-8": "encodeUtf8"}[codec], _atom(s)))
                return n, "bytes"
            if f.attr == "decode" and t in ("optbytes", "bytes") and codec in ("ascii", "utf-8"):
                arg = s if t == "optbytes" else "(some %s)" % _atom(s)
                pre.append("let %s ← %s %s" % (n, {"ascii": "decodeAscii", "utf-8": "decodeText"}[codec], _atom(arg)))
                return n, "text"
            _bad(node, ".%s(%r) on %r is not supported" % (f.attr, codec, t))
        # tuple(<list of ints>)
        if isinstance(f, ast.Name) and f.id == "tuple" and f.id not in env and len(node.args) == 1 and not node.keywords:
            a, at = self.expr(node.args[0], env, pre)
            if at != "ints":
                _bad(node, "tuple() of something that is not a list of ints")
            return a, "ints"
        # twisted.python.compat.nativeString on a str
        if isinstance(f, ast.Name) and f.id == "nativeString" and f.id not in env and f.id not in self.specs \
                and len(node.args) == 1 and not node.keywords:
            a, at = self.expr(node.args[0], env, pre)
            if at != "text":
                _bad(node, "nativeString of something that is not a str")
            n = self.fresh()
            pre.append("let %s ← nativeStringR %s" % (n, _atom(a)))
            return n, "text"
        # translated functions: name(...) or cls.name(...) / KafkaCodec.name(...)
        name = None
        if isinstance(f, ast.Name) and f.id not in env:
            name = f.id
        elif isinstance(f, ast.Attribute) and isinstance(f.value, ast.Name) and (f.value.id == "cls" or f.value.id in self.class_consts) and f.value.id not in env:
            name = f.attr
        if isinstance(f, ast.Name) and f.id in self.ctors and f.id not in env:
            if node.keywords or any(isinstance(a, ast.Starred) for a in node.args) or len(node.args) != self.ctors[f.id]:
                _bad(node, "constructor %s must be called with %d positional arguments" % (f.id, self.ctors[f.id]))
            parts = [self.expr(a, env, pre) for a in node.args]
            if len(parts) == 1:
                return parts[0]
            return "(" + ", ".join(p for p, _ in parts) + ")", ("tup", tuple(t for _, t in parts))
        if name is not None and name in self.specs:
            sp = self.specs[name]
            args = self.bind_args(node, sp, env, pre)
            if sp.generic is not None:
                cur = self.current.generic
                if cur is None or cur[0] != sp.generic[0] or not set(a for a, _ in sp.generic[1]) <= set(a for a, _ in cur[1]):
                    _bad(node, "a generic function can only be called from a function generic in the same payload type")
                args = ["acc_%s" % a for a, _ in sp.generic[1]] + args
                n = self.fresh()
                pre.append("let %s ← %s %s" % (n, sp.lean, " ".join(_atom(a) for a in args)))
                return n, self.subst_abs(sp.ret)
            n = self.fresh()
            pre.append("let %s ← %s %s" % (n, sp.lean, " ".join(_atom(a) for a in args)))
            return n, sp.ret
        _bad(node, "call not in the supported subset")

    def bind_args(self, node, sp, env, pre):
        if any(isinstance(a, ast.Starred) for a in node.args) or any(k.arg is None for k in node.keywords):
            _bad(node, "*args / **kwargs")
        fa = sp.func.args
        pnames = [a.arg for a in fa.args]
        if pnames and pnames[0] in ("cls", "self"):
            pnames = pnames[1:]
        if pnames != [p for p, _ in sp.params]:
            raise KeyError("wire_translate: parameters of %s are %s, expected %s" % (sp.py, pnames, [p for p, _ in sp.params]))
        defaults = dict(zip(reversed(pnames), reversed(fa.defaults)))
        given = {}
        if len(node.args) > len(pnames):
            _bad(node, "too many arguments")
        # Python evaluates positional arguments, then keyword arguments, left to right
        ptypes = dict(sp.params)

        def arg(p, a):
            if ptypes.get(p) == "fmt":
                return self.fmt_arg(a, env, pre), "fmt"
            return self.expr(a, env, pre)

        for p, a in zip(pnames, node.args):
            given[p] = arg(p, a)
        for k in node.keywords:
            if k.arg not in pnames or k.arg in given:
                _bad(node, "bad keyword argument %s" % k.arg)
            given[k.arg] = arg(k.arg, k.value)
        out = []
        for p, ty in sp.params:
            if p in given:
                s, t = given[p]
            elif p in defaults:
                s, t = self.expr(defaults[p], {}, [])
            else:
                _bad(node, "missing argument %s" % p)
            out.append(self.coerce(s, t, ty, node))
        return out

    def cond(self, node, env, pre):
        if not (isinstance(node, ast.Compare) and len(node.ops) == 1 and type(node.ops[0]) in CMPOPS):
            _bad(node, "condition must be a single integer comparison (or `x is None`)")
        l, lt = self.expr(node.left, env, pre)
        r, rt = self.expr(node.comparators[0], env, pre)
        if lt != "int" or rt != "int":
            _bad(node, "comparison of non-integers")
        return "%s %s %s" % (_atom(l), CMPOPS[type(node.ops[0])], _atom(r))

    # ------------------------------------------------------------------ statements
    def is_none_test(self, t, env):
        """`x is None` -> (x, True); `x is not None` -> (x, False)"""
        if isinstance(t, ast.Compare) and len(t.ops) == 1 and isinstance(t.ops[0], (ast.Is, ast.IsNot)) \
                and isinstance(t.left, ast.Name) and isinstance(t.comparators[0], ast.Constant) and t.comparators[0].value is None:
            if env.get(t.left.id) in ("optbytes", "opttext"):
                return t.left.id, isinstance(t.ops[0], ast.Is)
            _bad(t, "`is None` test of a name that is not None-able here")
        return None

    def is_guard(self, s, env):
        """`if not isinstance(<name>, <type>): raise TypeError(..)` (orelse allowed)"""
        if not (isinstance(s, ast.If) and len(s.body) == 1 and isinstance(s.body[0], ast.Raise)):
            return False
        t = s.test
        if not (isinstance(t, ast.UnaryOp) and isinstance(t.op, ast.Not) and isinstance(t.operand, ast.Call)):
            return False
        c = t.operand
        if not (isinstance(c.func, ast.Name) and c.func.id == "isinstance" and len(c.args) == 2 and not c.keywords):
            return False
        a, b = c.args
        want = {"text": "str", "bytes": "bytes"}.get(env.get(a.id) if isinstance(a, ast.Name) else None)
        if want is None or not (isinstance(b, ast.Name) and b.id == want):
            return False
        e = s.body[0].exc
        return s.body[0].cause is None and isinstance(e, ast.Call) and isinstance(e.func, ast.Name) and e.func.id == "TypeError"

    def exc_of(self, node):
        e = node.exc
        if node.cause is not None or e is None:
            _bad(node, "bare raise / raise .. from ..")
        f = e.func if isinstance(e, ast.Call) else e
        if isinstance(f, ast.Name):
            nm = self.exc_helpers.get(f.id, f.id)
        elif isinstance(f, ast.Attribute) and isinstance(f.value, ast.Name):
            nm = "%s.%s" % (f.value.id, f.attr)
        else:
            nm = None
        if nm not in EXC:
            _bad(node, "exception class not in the table")
        return EXC[nm]

    def terminates(self, stmts):
        if not stmts:
            return False
        s = stmts[-1]
        if isinstance(s, (ast.Return, ast.Raise)):
            return True
        if isinstance(s, ast.If):
            return bool(s.orelse) and self.terminates(s.body) and self.terminates(s.orelse)
        return False

    def block(self, stmts, env, ret):
        """-> lines of a `do` block that ends the function (every path returns or raises)"""
        if not stmts:
            if self.current.generator is not None:
                return ["pure ()"]
            raise ValueError("wire_translate: a path falls off the end of the function (implicit `return None`)")
        s, rest = stmts[0], stmts[1:]
        pre = []
        if self.current.generator is not None and isinstance(s, ast.Return):
            _bad(s, "return inside a generator")
        y = self.yield_stmt(s, env)
        if y is not None:
            return y + self.block(rest, env, ret)
        if isinstance(s, ast.Expr) and isinstance(s.value, ast.Constant) and isinstance(s.value.value, str):
            return self.block(rest, env, ret)
        if isinstance(s, ast.Return):
            if rest:
                _bad(rest[0], "unreachable statement after return")
            if s.value is None:
                _bad(s, "bare return")
            return pre_lines(pre, self.ret_expr(s.value, env, pre, ret))
        if isinstance(s, ast.Raise):
            if rest:
                _bad(rest[0], "unreachable statement after raise")
            return ["Except.error Err.%s" % self.exc_of(s)]
        if isinstance(s, ast.Assert):
            if s.msg is not None:
                _bad(s, "assert with a message")
            t = s.test
            # assert isinstance(<int name>, int): the declared type is that precondition
            if isinstance(t, ast.Call) and isinstance(t.func, ast.Name) and t.func.id == "isinstance" and len(t.args) == 2 \
                    and isinstance(t.args[0], ast.Name) and env.get(t.args[0].id) == "int" and isinstance(t.args[1], ast.Name) and t.args[1].id == "int":
                self.skipped.append("assert isinstance(%s, int) (line %d)" % (t.args[0].id, s.lineno))
                return self.block(rest, env, ret)
            raise_ = ast.Raise(exc=ast.Call(func=ast.Name(id="AssertionError", ctx=ast.Load()), args=[], keywords=[]), cause=None)
            ast.copy_location(raise_, s)
            neg = None
            if isinstance(t, ast.Compare) and len(t.ops) == 1:
                flip = {ast.Is: ast.IsNot, ast.IsNot: ast.Is, ast.Eq: ast.NotEq, ast.NotEq: ast.Eq, ast.Lt: ast.GtE, ast.GtE: ast.Lt,
                        ast.Gt: ast.LtE, ast.LtE: ast.Gt}.get(type(t.ops[0]))
                if flip is not None:
                    neg = ast.Compare(left=t.left, ops=[flip()], comparators=t.comparators)
                    ast.copy_location(neg, t)
            if neg is None:
                _bad(s, "assert condition not in the supported subset")
            iff = ast.If(test=neg, body=[raise_], orelse=[])
            ast.copy_location(iff, s)
            ast.fix_missing_locations(iff)
            return self.block([iff] + rest, env, ret)
        if isinstance(s, ast.If) and not self.is_guard(s, env) and s.orelse and not self.terminates(s.body) and not self.terminates(s.orelse):
            # a value-selecting if/else (does not end the function): handled by simple()
            lines, wrap = self.simple(s, env)
            return lines + self.block(rest, env, ret)
        if isinstance(s, ast.If):
            if self.is_guard(s, env):
                self.skipped.append("isinstance guard (line %d)" % s.lineno)
                if s.orelse:
                    if not self.terminates(s.orelse):
                        _bad(s, "else-part of a guard must end in return/raise")
                    if rest:
                        _bad(rest[0], "unreachable statement")
                    return self.block(s.orelse, env, ret)
                return self.block(rest, env, ret)
            if s.orelse:
                if not (self.terminates(s.body) and self.terminates(s.orelse)):
                    _bad(s, "both parts of an if/else must end in return/raise")
                if rest:
                    _bad(rest[0], "unreachable statement")
                other = s.orelse
            else:
                if not self.terminates(s.body):
                    _bad(s, "an `if` without else must end in return/raise")
                other = rest
            nt = self.is_none_test(s.test, env)
            if nt is not None:
                x, is_none = nt
                inner = {"optbytes": "bytes", "opttext": "text"}[env[x]]
                none_part, some_part = (s.body, other) if is_none else (other, s.body)
                senv = dict(env)
                senv[x] = inner
                out = ["match %s with" % x, "| none => (do"]
                out += ["  " + l for l in self.block(none_part, dict(env), ret)]
                out[-1] += ")"
                out += ["| some %s => (do" % x]
                out += ["  " + l for l in self.block(some_part, senv, ret)]
                out[-1] += ")"
                return out
            c = self.cond(s.test, env, pre)
            out = pre + ["if %s then (do" % c]
            out += ["  " + l for l in self.block(s.body, dict(env), ret)]
            out[-1] += ") else (do"
            out += ["  " + l for l in self.block(other, dict(env), ret)]
            out[-1] += ")"
            return out
        # non-terminal statements
        lines, wrap = self.simple(s, env)
        tail = self.block(rest, env, ret)
        if wrap is None:
            return lines + tail
        # a `match` on the shape of an unpacked tuple wraps the rest of the function
        out = lines + [wrap[0]]
        out += ["  " + l for l in tail]
        out[-1] += ")"
        out += [wrap[1]]
        return out

    def ret_expr(self, node, env, pre, ret):
        if isinstance(node, ast.Tuple):
            if not (isinstance(ret, tuple) and ret[0] == "tup" and len(ret[1]) == len(node.elts)):
                _bad(node, "returned tuple does not match the declared result type")
            parts = []
            for e, want in zip(node.elts, ret[1]):
                s, t = self.expr(e, env, pre)
                parts.append(self.coerce(s, t, want, e))
            return "pure (%s)" % ", ".join(parts)
        s, t = self.expr(node, env, pre)
        return "pure %s" % _atom(self.coerce(s, t, ret, node))

    def target_names(self, t):
        if isinstance(t, ast.Name):
            return [t.id]
        if isinstance(t, (ast.Tuple, ast.List)):
            out = []
            for e in t.elts:
                out += self.target_names(e)
            return out
        _bad(t, "assignment target not in the supported subset")

    def bind_target(self, tgt, val, ty, env, lines):
        """bind the pattern `tgt` to the Lean value `val` of type `ty`; -> wrap or None"""
        if isinstance(tgt, ast.Name):
            self.check_ident(tgt.id)
            lines.append("let %s : %s := %s" % (tgt.id, lean_ty(ty), val))
            env[tgt.id] = ty
            return None
        if not isinstance(tgt, (ast.Tuple, ast.List)):
            _bad(tgt, "assignment target not in the supported subset")
        if ty == "ints":
            names = []
            for e in tgt.elts:
                if not isinstance(e, ast.Name):
                    _bad(tgt, "nested target inside a tuple of ints")
                self.check_ident(e.id)
                names.append(e.id)
                env[e.id] = "int"
            return ("match %s with\n| [%s] => (do" % (val, ", ".join(names)), "| _ => Except.error Err.valueError")
        if isinstance(ty, tuple) and ty[0] == "tup" and len(ty[1]) == len(tgt.elts):
            wrap = None
            comps = []
            for k, (e, et) in enumerate(zip(tgt.elts, ty[1])):
                comps.append((e, _proj(_atom(val), k, len(ty[1])), et))
            # names first (left to right), at most one nested ints-pattern, which wraps the rest
            for e, v, et in comps:
                w = self.bind_target(e, v, et, env, lines)
                if w is not None:
                    if wrap is not None:
                        _bad(tgt, "two nested tuple patterns in one assignment")
                    wrap = w
            return wrap
        _bad(tgt, "cannot unpack a value of type %r into this target" % (ty,))

    def check_ident(self, ident):
        if not (ident.isascii() and ident.isidentifier()) or ident in LEAN_RESERVED:
            raise ValueError("wire_translate: identifier %r cannot be used in the generated Lean term" % ident)
        if ident.startswith(TMP) and ident[len(TMP):].isdigit():
            raise ValueError("wire_translate: identifier %r collides with generated names" % ident)

    def simple(self, s, env):
        """a statement that does not end the function -> (lines, wrap|None); updates env"""
        pre = []
        if isinstance(s, ast.Assign):
            if len(s.targets) != 1:
                _bad(s, "chained assignment")
            tgt = s.targets[0]
            if isinstance(tgt, ast.Subscript) and isinstance(tgt.value, ast.Name) and isinstance(env.get(tgt.value.id), tuple) \
                    and env[tgt.value.id][0] == "dict" and tgt.value.id not in self.defaultdicts:
                d = tgt.value.id
                _, kt, vt = env[d]
                v, t = self.expr(s.value, env, pre)
                k, t1 = self.expr(tgt.slice, env, pre)
                if t1 != kt or self.subst_abs(t) != self.subst_abs(vt):
                    _bad(s, "key/value types %r do not match the declared dict type" % ((t1, t),))
                return pre + ["let %s : %s := dictSet %s %s %s" % (d, lean_ty(env[d]), d, _atom(k), _atom(v))], None
            if isinstance(tgt, ast.Subscript):
                # out[k1][k2] = v on a defaultdict(dict)
                inner = tgt.value
                if not (isinstance(inner, ast.Subscript) and isinstance(inner.value, ast.Name) and isinstance(env.get(inner.value.id), tuple)
                        and env[inner.value.id][0] == "dict" and isinstance(env[inner.value.id][2], tuple) and env[inner.value.id][2][0] == "dict"
                        and inner.value.id in self.defaultdicts):
                    _bad(s, "only out[k1][k2] = v on a defaultdict(dict) is supported as a subscript target")
                d = inner.value.id
                _, k1t, (_, k2t, vt) = env[d]
                # Python evaluates the right-hand side first, then out[k1] (creating the default), then k2
                v, t = self.expr(s.value, env, pre)
                k1, t1 = self.expr(inner.slice, env, pre)
                k2, t2 = self.expr(tgt.slice, env, pre)
                if (t1, t2, t) != (k1t, k2t, vt):
                    _bad(s, "key/value types %r do not match the declared dict type" % ((t1, t2, t),))
                return pre + ["let %s : %s := ddSet2 %s %s %s %s" % (d, lean_ty(env[d]), d, _atom(k1), _atom(k2), _atom(v))], None
            # p = [] if p is None else p   for a never-None list parameter p: the declared type is the precondition
            if isinstance(tgt, ast.Name) and isinstance(s.value, ast.IfExp):
                ie = s.value
                tt = ie.test
                if isinstance(env.get(tgt.id), tuple) and env[tgt.id][0] == "list" and isinstance(ie.body, ast.List) and not ie.body.elts \
                        and isinstance(ie.orelse, ast.Name) and ie.orelse.id == tgt.id and isinstance(tt, ast.Compare) and len(tt.ops) == 1 \
                        and isinstance(tt.ops[0], ast.Is) and isinstance(tt.left, ast.Name) and tt.left.id == tgt.id \
                        and isinstance(tt.comparators[0], ast.Constant) and tt.comparators[0].value is None:
                    self.skipped.append("None default of %s (line %d)" % (tgt.id, s.lineno))
                    return [], None
                _bad(s, "conditional expression not in the supported subset")
            v, t = self.expr(s.value, env, pre)
            if t == "none":
                _bad(s, "assignment of None")
            if t in ("ddict2?", "list?", "dict?"):
                if not (isinstance(tgt, ast.Name) and tgt.id in self.local_types):
                    _bad(s, "the type of an empty list / defaultdict(dict) local must be declared by the caller")
                want = t
                t = self.local_types[tgt.id]
                if want == "ddict2?":
                    if not (t[0] == "dict" and isinstance(t[2], tuple) and t[2][0] == "dict"):
                        _bad(s, "declared type does not fit defaultdict(dict)")
                    self.defaultdicts.add(tgt.id)
                elif want == "dict?":
                    if t[0] != "dict":
                        _bad(s, "declared type does not fit {}")
                elif t != "ints" and t[0] != "list":
                    _bad(s, "declared type does not fit []")
                v = "([] : %s)" % lean_ty(t)
            lines = list(pre)
            if isinstance(tgt, ast.Name):
                wrap = self.bind_target(tgt, v, t, env, lines)
                return lines, wrap
            # a tuple target over a match: the pattern's `match` lines are emitted by block()
            wrap = self.bind_target(tgt, v, t, env, lines)
            if wrap is None:
                return lines, None
            head, tailline = wrap
            h0, h1 = head.split("\n")
            return lines + [h0], (h1, tailline)
        if isinstance(s, ast.AugAssign):
            if not isinstance(s.target, ast.Name) or s.target.id not in env:
                _bad(s, "only `name op= expr` for a defined name is supported")
            fake = ast.BinOp(left=ast.Name(id=s.target.id, ctx=ast.Load(), lineno=s.lineno, col_offset=0), op=s.op, right=s.value,
                             lineno=s.lineno, col_offset=0)
            v, t = self.expr(fake, env, pre)
            if t != env[s.target.id]:
                _bad(s, "augmented assignment changes the type")
            return pre + ["let %s : %s := %s" % (s.target.id, lean_ty(t), v)], None
        if isinstance(s, ast.For):
            return self.for_loop(s, env), None
        if isinstance(s, ast.If):
            # if c: x = a  else: x = b
            if len(s.body) == 1 and len(s.orelse) == 1 and all(
                    isinstance(b, ast.Assign) and len(b.targets) == 1 and isinstance(b.targets[0], ast.Name) for b in (s.body[0], s.orelse[0])) \
                    and s.body[0].targets[0].id == s.orelse[0].targets[0].id:
                x = s.body[0].targets[0].id
                self.check_ident(x)
                c = self.cond(s.test, env, pre)
                p2 = []
                a, at = self.expr(s.body[0].value, env, p2)
                b, bt = self.expr(s.orelse[0].value, env, p2)
                if pre or p2:
                    _bad(s, "fallible call inside a value-selecting if/else")
                if at != bt or at in ("none", "list?", "ddict2?"):
                    _bad(s, "the two sides of a value-selecting if/else have different types")
                if x in env and env[x] != at:
                    _bad(s, "if/else changes the type of %s" % x)
                env[x] = at
                return ["let %s : %s := if %s then %s else %s" % (x, lean_ty(at), c, a, b)], None
            _bad(s, "an `if` that does not end the function must be `if c: x = a else: x = b`")
        _bad(s, "statement not in the supported subset")

    def yield_stmt(self, s, env):
        """`yield e` -> lines, or None"""
        if not (isinstance(s, ast.Expr) and isinstance(s.value, ast.Yield)):
            return None
        if self.current.generator is None or s.value.value is None:
            _bad(s, "yield outside a declared generator / bare yield")
        pre = []
        v, t = self.expr(s.value.value, env, pre)
        v = self.coerce(v, t, self.current.generator, s)
        return pre + ["yieldY %s" % _atom(v)]

    def append_stmt(self, s, env):
        """`lst.append(e)` -> lines, or None if `s` is not that statement"""
        if not (isinstance(s, ast.Expr) and isinstance(s.value, ast.Call)):
            return None
        c = s.value
        f = c.func
        if not (isinstance(f, ast.Attribute) and f.attr == "append" and isinstance(f.value, ast.Name) and len(c.args) == 1 and not c.keywords):
            return None
        lt = env.get(f.value.id)
        if lt == "ints":
            lt = ("list", "int")
        if not (isinstance(lt, tuple) and lt[0] == "list"):
            _bad(s, ".append on a name that is not a list here")
        pre = []
        v, t = self.expr(c.args[0], env, pre)
        v = self.coerce(v, t, lt[1], s)
        if env.get(f.value.id) == "ints":
            return pre + ["let %s : List Int := %s ++ [%s]" % (f.value.id, f.value.id, v)]
        return pre + ["let %s : %s := %s ++ [%s]" % (f.value.id, lean_ty(lt), f.value.id, v)]

    def loop_block(self, stmts, env, t):
        """the body of a loop: simple statements, then `pure <carried>`"""
        if not stmts:
            return ["pure %s" % t]
        s, rest = stmts[0], stmts[1:]
        lines = self.append_stmt(s, env)
        if lines is None:
            lines = self.yield_stmt(s, env)
        wrap = None
        if lines is None:
            if not isinstance(s, (ast.Assign, ast.AugAssign, ast.For)):
                _bad(s, "only assignments, .append() and nested for loops are supported in a loop body")
            lines, wrap = self.simple(s, env)
        tail = self.loop_block(rest, env, t)
        if wrap is None:
            return lines + tail
        out = lines + [wrap[0]]
        out += ["  " + l for l in tail]
        out[-1] += ")"
        out += [wrap[1]]
        return out

    @staticmethod
    def appended(stmts):
        out = []
        for s in stmts:
            for n in ast.walk(s):
                if isinstance(n, ast.Expr) and isinstance(n.value, ast.Call) and isinstance(n.value.func, ast.Attribute) \
                        and n.value.func.attr == "append" and isinstance(n.value.func.value, ast.Name):
                    if n.value.func.value.id not in out:
                        out.append(n.value.func.value.id)
        return out

    @staticmethod
    def assigned(stmts):
        out = []
        for s in stmts:
            for n in ast.walk(s):
                t = []
                if isinstance(n, ast.Assign):
                    t = n.targets
                elif isinstance(n, (ast.AugAssign, ast.AnnAssign)):
                    t = [n.target]
                elif isinstance(n, ast.For):
                    t = [n.target]
                for x in t:
                    for y in ast.walk(x):
                        if isinstance(y, ast.Name) and isinstance(y.ctx, ast.Store) and y.id not in out:
                            out.append(y.id)
        return out

    def for_loop(self, s, env):
        if s.orelse:
            _bad(s, "for/else")
        pre = []
        tgt = s.target
        if isinstance(tgt, ast.Name):
            names = [tgt.id]
        elif isinstance(tgt, ast.Tuple) and all(isinstance(e, ast.Name) for e in tgt.elts):
            names = [e.id for e in tgt.elts]
        else:
            _bad(s, "loop target must be a name or a tuple of names")
        for nm in names:
            self.check_ident(nm)
            if nm in env and not (env[nm] == "natidx" and nm not in self.loaded_names):
                _bad(s, "loop variable shadows a defined name")
        pat = names[0] if len(names) == 1 else "(" + ", ".join(names) + ")"
        benv = dict(env)
        itn = s.iter
        if isinstance(itn, ast.Call) and isinstance(itn.func, ast.Name) and itn.func.id == "range" and "range" not in env:
            if len(itn.args) != 1 or itn.keywords or len(names) != 1:
                _bad(s, "only `for i in range(<one argument>)` is supported")
            n, nt = self.expr(itn.args[0], env, pre)
            if nt != "int":
                _bad(s, "range() of a non-int")
            it = "(List.range %s.toNat)" % _atom(n)
            benv[names[0]] = "natidx"  # a Nat; not usable in int expressions (no loop in the subset reads it)
        else:
            it, itt = self.expr(itn, env, pre)
            if isinstance(itt, tuple) and itt[0] == "dict":
                it, itt = "List.map Prod.fst %s" % _atom(it), ("list", itt[1])  # iterating a dict yields its keys
            if not (isinstance(itt, tuple) and itt[0] == "list"):
                _bad(s, "only `for x in <list/dict>` and `for i in range(n)` loops are supported")
            if len(names) == 1:
                benv[names[0]] = itt[1]
            else:
                et = itt[1]
                if not (isinstance(et, tuple) and et[0] == "tup" and len(et[1]) == len(names)):
                    _bad(s, "tuple loop target over elements that are not tuples of that size")
                for nm, ty in zip(names, et[1]):
                    benv[nm] = ty
        carried = [v for v in self.assigned(s.body) if v in env and env[v] != "natidx"]
        for v in self.appended(s.body):
            if v in env and v not in carried:
                carried.append(v)
        # `out[k1][k2] = v` assigns (to) the dict `out`
        for st in s.body:
            if isinstance(st, ast.Assign) and isinstance(st.targets[0], ast.Subscript):
                b = st.targets[0]
                while isinstance(b, ast.Subscript):
                    b = b.value
                if isinstance(b, ast.Name) and b.id in env and b.id not in carried:
                    carried.append(b.id)
        if not carried:
            _bad(s, "loop assigns no variable defined before it")
        if any(nm in self.assigned(s.body) and nm in self.loaded_names for nm in names):
            _bad(s, "loop variable assigned in the body")
        t = carried[0] if len(carried) == 1 else "(" + ", ".join(carried) + ")"
        body = self.loop_block(list(s.body), benv, t)
        for v in carried:
            if benv[v] != env[v]:
                _bad(s, "loop changes the type of %s" % v)
        out = pre + ["let %s ← List.foldlM (fun %s %s => do" % (t, t, pat)]
        out += ["  " + l for l in body]
        out[-1] += ") %s %s" % (t, _atom(it))
        return out

    # ------------------------------------------------------------------ one function
    def translate(self, sp):
        f = sp.func
        if not isinstance(f, ast.FunctionDef):
            raise ValueError("wire_translate: %s is not a plain function definition" % sp.py)
        a = f.args
        if a.vararg or a.kwarg or a.kwonlyargs or a.posonlyargs:
            _bad(f, "unsupported parameter kinds")
        names = [x.arg for x in a.args]
        decos = [d.id if isinstance(d, ast.Name) else None for d in f.decorator_list]
        if decos == ["classmethod"]:
            if not names or names[0] != "cls":
                _bad(f, "classmethod without cls")
            names = names[1:]
        elif decos:
            _bad(f, "decorators other than @classmethod are not supported")
        if names != [p for p, _ in sp.params]:
            raise KeyError("wire_translate: parameters of %s are %s, expected %s" % (sp.py, names, [p for p, _ in sp.params]))
        for n in ast.walk(f):
            ident = n.id if isinstance(n, ast.Name) else n.arg if isinstance(n, ast.arg) else None
            if ident is not None and ident.startswith(TMP) and ident[len(TMP):].isdigit():
                raise ValueError("wire_translate: identifier %r collides with generated names" % ident)
        for p, _ in sp.params:
            self.check_ident(p)
        self.ntmp = 0
        nskip = len(self.skipped)
        env = dict(sp.params)
        self.local_types = sp.local_types
        self.defaultdicts = set()
        self.current = sp
        self.loaded_names = {n.id for n in ast.walk(f) if isinstance(n, ast.Name) and isinstance(n.ctx, ast.Load)}
        lines = self.block(list(f.body), env, sp.ret)
        ty = " → ".join(_arrow(lean_ty(t)) for _, t in sp.params) + (" → R (%s)" % lean_ty(sp.ret) if sp.generator is None else "")
        if sp.generator is not None:
            import re

            ty = " → ".join(_arrow(lean_ty(t)) for _, t in sp.params) + " → Y (%s) Unit" % lean_ty(sp.generator)
            out = []
            for l in lines:
                m = re.match(r"^(\s*let .*? ← )(?!List\.foldlM)(.*)$", l)
                if m:
                    l = "%sliftR (%s)" % (m.group(1), m.group(2))
                l = re.sub(r"Except\.error Err\.(\w+)", r"liftR (Except.error Err.\1)", l)
                out.append(l)
            lines = out
        binders = " ".join(p for p, _ in sp.params)
        if sp.generic is not None:
            var, accs = sp.generic
            for n in ast.walk(f):
                ident = n.id if isinstance(n, ast.Name) else n.arg if isinstance(n, ast.arg) else None
                if ident is not None and ident.startswith("acc_"):
                    raise ValueError("wire_translate: identifier %r collides with generated names" % ident)
            ty = "{%s : Type} → " % var + " → ".join("(%s → %s)" % (var, lean_ty(t)) for _, t in accs) + " → " + ty
            binders = "{%s} " % var + " ".join("acc_" + a for a, _ in accs) + " " + binders
        term = "fun %s => do\n" % binders + "\n".join("  " + l for l in lines)
        return ty, term, self.skipped[nskip:]


def _arrow(t):
    return "(%s)" % t if (" " in t and not t.startswith("List ") and not t.startswith("Option ")) else t


def pre_lines(pre, last):
    return list(pre) + [last]
