"""Beyond-model stages of C20: situations the client MODEL does not contain, driven on the real stack and judged by
the Lean monitor Afkak.Monitor.C20 evaluated on the real trace only (no model/implementation diff):

* "reentrant": close() called synchronously from the callback of an operation's Deferred (inside another step: while
  the broker client is still writing its queue in `_sendQueued`, inside a reply's callback chain, inside a timeout).
  The generator queues several requests on connecting broker clients (many acks=0 produce requests, whose Deferred
  fires while the queue is written).  Writes are observed at the transport boundary (`t-net write`), also after
  `loseConnection()`.
* "discovery": protocol version discovery ENABLED (the default of KafkaClient, off in the modelled runs): operations
  park in `fetch_api_versions`, whose attempts succeed, fail to decode, time out or find no server; close() in any of
  these states.
"""
import json
import random
import time
import traceback

from harness.lib import client_common as CC


def verdict(tl, got):
    bad = [l for l, g in zip(tl[:-1], got[:-1]) if g == ["bad-op"]]
    v = got[-1]
    msgs = [] if v == ["ok"] else (v[0][5:].split(" ; ") if v and v[0].startswith("fail ") else [repr(v)])
    return msgs, bad


def monitor(model, sim):
    """-> (messages of the C20 monitor on the real trace, unparsable trace lines)"""
    tl = sim.trace_lines() + ["mon-c20"]
    return verdict(tl, model("client", tl))


def monitor_many(model, sims):
    """`monitor` for several runs with ONE driver process (every trace starts with the `cfg` line, which resets the
    driver's recorded trace; starting the process costs far more than evaluating one trace).  If the batched call
    fails: one call per run, whose exception the caller sees."""
    tls = [sim.trace_lines() + ["mon-c20"] for sim in sims]
    try:
        got = model("client", [l for tl in tls for l in tl]) if tls else []
    except Exception:
        return [monitor(model, sim) for sim in sims]
    out, off = [], 0
    for tl in tls:
        out.append(verdict(tl, got[off:off + len(tl)]))
        off += len(tl)
    return out


def gen_queue(rng, cfg):
    """several requests queued on ONE broker client that is still connecting - one of them (expecting no reply, so that
    its Deferred fires while the queue is written, or an ordinary one) closes the client from its callback - then the
    connection comes up, then a few more events"""
    from harness.lib import client_scen as SC
    run = SC.Runner(cfg)
    cluster = SC.Cluster(rng)
    cmds = []

    def do(cmd):
        cmds.append(cmd)
        run.run(cmd)

    try:
        do(["load", []])
        do(["accept", 0])
        bs, ts = cluster.metadata_for(rng, [])
        do(["reply", 0, {"kind": "meta", "brokers": [list(b) for b in bs], "topics": [[t, e, [list(p) for p in ps]] for t, e, ps in ts]}])
        by_leader = {}
        for t, ps in cluster.topics.items():
            for p, l in ps.items():
                if l in cluster.brokers:
                    by_leader.setdefault(l, []).append([t, p])
        if by_leader:
            keys = by_leader[rng.choice(sorted(by_leader))]
            m = rng.randrange(2, 5)
            armed = rng.randrange(m)
            for i in range(m):
                noreply = (i == armed and rng.random() < 0.7) or rng.random() < 0.2
                if i == armed:
                    do(["arm_close"])
                do(["send", "produce" if noreply else rng.choice(SC.APIS), [rng.choice(keys)], rng.random() < 0.6, not noreply, None])
        for _ in range(rng.randrange(2, 9)):
            sim = run.sim
            pend, outst, r = sim.pending_connects(), run.outstanding(), rng.random()
            if pend and r < 0.5:
                do(["accept" if rng.random() < 0.9 else "refuse", rng.randrange(len(pend))])
            elif sim.held() and r < 0.7:
                do(["notify", rng.randrange(len(sim.held()))])
            elif outst and r < 0.85:
                j = rng.randrange(len(outst))
                do(["reply", j, SC.reply_spec(rng, cluster, outst[j][3], honest=True)])
            else:
                do(["advance", rng.choice(["1/8", "1/2", "5/1"])])
    except Exception:
        run.dispose()
        raise
    return {"cfg": cfg, "cmds": cmds, "focus": "c20"}, run


def gen_parked(rng, cfg):
    """operations parked in version discovery while its attempts fail (every host refused / never answers / answers
    garbage) or succeed; close() after any number of such events; then a few more events"""
    from harness.lib import client_scen as SC
    run = SC.Runner(cfg)
    cluster = SC.Cluster(rng)
    cmds = []

    def do(cmd):
        cmds.append(cmd)
        run.run(cmd)

    try:
        for _ in range(rng.randrange(1, 4)):
            k = rng.random()
            if k < 0.6:
                do(["send", rng.choice(SC.APIS), SC.gen_keys(rng, cluster), rng.random() < 0.6, True, None])
            elif k < 0.8:
                do(["load", rng.sample(CC.TOPICS, rng.randrange(0, 3))])
            else:
                do(["send", rng.choice(SC.GROUP_APIS), SC.gen_keys(rng, cluster), True, True, rng.choice(CC.GROUPS)])
        close_at = rng.randrange(0, 8)
        for i in range(rng.randrange(close_at + 1, close_at + 7)):
            sim = run.sim
            if i == close_at:
                do(["close"])
                continue
            pend, outst, r = sim.pending_connects(), run.outstanding(), rng.random()
            if pend and r < 0.6:
                do(["refuse" if rng.random() < 0.7 else "accept", rng.randrange(len(pend))])
            elif outst and r < 0.8:
                j = rng.randrange(len(outst))
                do(["reply", j, SC.reply_spec(rng, cluster, outst[j][3], honest=True)])
            elif sim.held() and r < 0.9:
                do(["notify", rng.randrange(len(sim.held()))])
            else:
                gap = SC.next_timer_gap(sim)
                do(["advance", "%d/%d" % (gap.numerator, gap.denominator)] if gap is not None and rng.random() < 0.5 else ["advance", rng.choice(["1/8", "1/4", "1/2", "5/1"])])
    except Exception:
        run.dispose()
        raise
    return {"cfg": cfg, "cmds": cmds, "focus": "c20"}, run


def gen(rng, kind):
    from harness.lib import client_scen as SC
    cfg = SC.gen_cfg(rng, "c20")
    cfg["beyond"] = kind
    if kind == "discovery":
        cfg["discovery"] = True
    if kind == "reentrant" and rng.random() < 0.5:
        return gen_queue(rng, cfg)
    if kind == "discovery" and rng.random() < 0.5:
        return gen_parked(rng, cfg)
    return SC.generate(rng, "c20", cfg=cfg)


def fails_with(model, scn, key):
    from harness.lib import client_scen as SC
    from harness.props.c07 import slug
    try:
        run = SC.execute(scn)
    except Exception:
        return False
    run.dispose()
    try:
        msgs, _ = monitor(model, run.sim)
    except Exception:
        return False
    return any(slug(m) == key for m in msgs)


def shrink(model, scn, key, budget=60):
    cur = list(scn["cmds"])
    tries, chunk = 0, max(1, len(scn["cmds"]) // 2)
    while chunk >= 1 and tries < budget:
        i, progressed = 0, False
        while i < len(cur) and tries < budget:
            cand = cur[:i] + cur[i + chunk:]
            tries += 1
            if cand and fails_with(model, {"cfg": scn["cfg"], "cmds": cand}, key):
                cur, progressed = cand, True
            else:
                i += chunk
        if not progressed:
            chunk //= 2
    return {"cfg": scn["cfg"], "cmds": cur, "focus": "c20"}


def judged_runs(ctx, res, rng, n, kind, timeout_s, batch=40):
    """generate up to n runs; yield (scenario, sim, monitor messages, unparsable trace lines) in generation order, the
    monitor evaluated for `batch` runs per driver process"""
    t0 = time.time()
    pend = []

    def flush():
        try:
            judged = monitor_many(ctx.model, [sim for _, sim in pend])
        except Exception:
            res.disagreements.append({"component": "client-beyond", "what": "monitor evaluation crashed", "trace": traceback.format_exc()[-1200:]})
            return None
        out = [(scn, sim, msgs, bad) for (scn, sim), (msgs, bad) in zip(pend, judged)]
        del pend[:]
        return out

    for _ in range(n):
        if time.time() - t0 > timeout_s:
            break
        try:
            scn, run = gen(rng, kind)
        except Exception:
            res.disagreements.append({"component": "client-beyond", "what": "harness/scenario crashed (%s)" % kind, "trace": traceback.format_exc()[-1200:]})
            break
        run.dispose()
        pend.append((scn, run.sim))
        if len(pend) >= batch:
            got = flush()
            if got is None:
                return
            yield from got
    yield from flush() or []


REFRESH_CLOSE_RULES = ("close-deferred-fired-before-the-last-broker-client-had-gone", "metadata-survives-close")


def closed_inside_refresh_close(sim):
    """the first close() was called from inside a callback (the step was split) and, in the same step before it, the
    client had told a broker client to close: _close_brokerclients() was on the stack when the callback closed the client"""
    if not sim.nested_close:
        return False
    for i, st in enumerate(sim.steps):
        if st["line"].startswith("close "):
            return i > 0 and not sim.steps[i - 1]["line"].startswith("close ") and any(o.startswith("bcClose ") for o in sim.steps[i - 1]["obs"])
    return False


def stage(ctx, res, n, kind, timeout_s):
    from harness.props.c07 import slug
    CC.quiet()
    rng = random.Random(ctx.rng.randrange(1 << 30))
    done = nested = 0
    for scn, sim, msgs, bad in judged_runs(ctx, res, rng, n, kind, timeout_s):
        done += 1
        res.evaluations += 1
        if sim.nested_close:
            nested += 1
        for st in sim.steps:
            for o in st["obs"]:
                if o.startswith("mk ") and o.endswith("group:apiversions"):
                    res.count("beyond:%s:discovery-request" % kind)
        if sim.close_log_idx is not None:
            res.count("beyond:%s:closed" % kind)
        if bad and len(res.disagreements) < 3:
            res.disagreements.append({"component": "client-beyond", "what": "trace line the driver cannot parse", "impl": bad[:3], "scenario": scn})
        if kind == "reentrant" and sim.nested_close:
            # an operation whose (successful) result was already being delivered by the same event when a sibling
            # callback closed the client (two waiters of one coordinator look-up, …) is not "in progress at close"
            msgs = [m for m in msgs if "completed successfully after close" not in m]
        # close() called from a callback that ran INSIDE _close_brokerclients() of a metadata refresh (a broker client's
        # close() errbacks a request, the user's callback closes the client): known finding, tagged apart so that any other
        # violation of the same rules is still reported
        inside = kind == "reentrant" and closed_inside_refresh_close(sim)
        for key in sorted(set(slug(m) for m in msgs)):
            # the two rules that situation is known to break (known_findings.json); every other rule keeps its plain tag
            tag = ("c20-reentrant-close-inside-refresh-close-" if inside and key in REFRESH_CLOSE_RULES else "c20-") + key
            if sum(1 for f in res.monitor_failures if f["tags"] == [tag]) >= 3:
                continue
            text = next(m for m in msgs if slug(m) == key)
            first = not any(f["tags"] == [tag] for f in res.monitor_failures)
            sc = shrink(ctx.model, scn, key) if first and len(res.monitor_failures) < 6 else scn
            res.monitor_failures.append({"what": "C20 monitor failed on the real client (%s stage): %s" % (kind, text), "scenario": sc, "tags": [tag]})
    res.extra["beyond_%s_scenarios" % kind] = done
    if kind == "reentrant":
        res.extra["beyond_reentrant_close_inside_a_callback"] = nested
