"""Scenario generation for the consumer component.

Scenarios are generated ADAPTIVELY: the generator drives the real Consumer (over the fake client) while it
chooses the next event from what the environment currently enables (outstanding requests, due timers,
a pending processor result) plus API calls, so long histories stay alive.  Every choice comes from the
`rng` handed in; the finished scenario (cfg, script, events) replays without the generator.

Two environments:
* chaos    - fetch replies are arbitrary (any offsets incl. below the position, gaps, empty, too-small
             anywhere, an exception part-way), any error kind at any time;
* faithful - replies are what a broker holding a partition log would send for the request's offset and
             max_bytes (message sizes around the buffer sizes and across 1 MiB; compressed-set style
             prefixes below the requested offset), errors and out-of-range still injected.
"""
from fractions import Fraction

from harness.lib.consumer_run import Run

ERR_KINDS_REQ = ["kafka"] * 5 + ["outOfRange", "outOfRange", "cancelled", "other", "groupFatal"]
ERR_KINDS_COMMIT = ["kafka"] * 4 + ["groupFatal", "groupFatal", "other", "cancelled", "outOfRange"]
ERR_KINDS_PROC = ["other"] * 4 + ["kafka", "groupFatal", "outOfRange"]


def gen_cfg(rng, faithful=False):
    group = rng.random() < 0.7
    buf = rng.choice([64, 100, 1000, 4096, 2 ** 16, 2 ** 17, 2 ** 20 - 1, 2 ** 20, 2 ** 20 + 1, 3 * 2 ** 20])
    mx = rng.choice([None, None, buf, buf + 1, buf * 2, buf * 16, buf * 16 + 5, buf * 300, 2 ** 24, 2 ** 26])
    cfg = {
        "group": group,
        "autoN": rng.choice([0, 0, 1, 2, 3, 5]) if group else 0,
        "autoMs": rng.choice([0, 0, 250, 500, 1000]) if group else 0,
        "buf": buf,
        "max": mx,
        "init": rng.choice(["0", "1/8", "1/4", "1/10", "1"]),
        "maxd": rng.choice(["1/4", "1", "2", "30"]),
        "attempts": rng.choice([0, 0, 0, 1, 2, 3, 5]),
        "reset": rng.choice([None, None, -2, -1]),
        "cancelReq": rng.choice(["kafka:90", "kafka:91", "kafka:92", "kafka:93", "-"]),
        # coordinator-routed requests never eat a cancel (client_iface.md)
        "cancelCommit": rng.choice(["kafka:95", "kafka:95", "cancelled:96", "-"]),
    }
    if Fraction(cfg["init"]) > Fraction(cfg["maxd"]) and rng.random() < 0.8:
        cfg["init"] = "1/8"
    return cfg


def gen_script(rng, n, reentrant):
    out = []
    for _ in range(n):
        r = rng.random()
        if r < 0.55:
            res = "ok" if rng.random() < 0.8 else "fired"        # plain value | an already-fired Deferred
        elif r < 0.85:
            res = "defer" if rng.random() < 0.65 else "paused"   # pending Deferred | fired, chain paused on a pending one
        else:
            res = "%s:%s:%d" % ("err" if rng.random() < 0.7 else "failed", rng.choice(ERR_KINDS_PROC), rng.randrange(100, 200))
        acts = []
        if reentrant and rng.random() < 0.15:
            acts = [rng.choice(["stop", "commit", "shutdown", "commit"])]
            if rng.random() < 0.2:
                acts.append(rng.choice(["stop", "commit", "shutdown"]))
        out.append({"acts": acts, "res": res})
    return out


class Log(object):
    """A partition log: ascending offsets with gaps, sizes in bytes."""

    def __init__(self, rng, buf, mx, fit=False):
        self.entries = []  # (offset, pid, size)
        off = rng.choice([0, 0, 3, 17])
        cap = mx if mx is not None else buf * 300
        sizes = [10, 30, buf // 2, buf - 1, buf, buf + 1, buf * 2, buf * 16 - 1, buf * 16 + 1, 2 ** 20 - 5, 2 ** 20 + 5, cap - 1, cap, cap + 1]
        if fit:  # every message fits the maximum buffer
            sizes = [x for x in sizes if x <= cap]
        n = rng.randrange(3, 25)
        for pid in range(1, n + 1):
            if rng.random() < 0.75:
                size = rng.choice([10, 20, 30, 40])
            else:
                size = max(1, rng.choice(sizes))
            self.entries.append((off, pid, size))
            off += rng.choice([1, 1, 1, 2, 5])
        self.end = off  # high watermark

    def earliest(self):
        return self.entries[0][0] if self.entries else 0

    def reply(self, rng, off, max_bytes):
        """('ok', items, tail) | ('err', 'outOfRange')"""
        if off < self.earliest() or off > self.end:
            return ("err", "outOfRange")
        idx = next((i for i, e in enumerate(self.entries) if e[0] >= off), len(self.entries))
        items, used = [], 0
        for e in self.entries[idx:]:
            if used + e[2] > max_bytes:
                break
            items.append((e[0], e[1]))
            used += e[2]
            if len(items) >= 6 and rng.random() < 0.5:
                break
        if not items and idx < len(self.entries):
            # the next message does not fit: the broker sends a partial message
            return ("ok", [], "small")
        # a compressed wrapper delivers the whole set: a few messages below the requested offset (when they fit too)
        back = rng.choice([0, 0, 0, 1, 2, 3])
        for e in reversed(self.entries[max(0, idx - back):idx]):
            if used + e[2] > max_bytes:
                break
            items.insert(0, (e[0], e[1]))
            used += e[2]
        return ("ok", items, "end")

    def msgs(self):
        return ",".join("%d:%d" % (o, p) for o, p, _ in self.entries) or "-"


class Gen(object):
    def __init__(self, rng, steps, faithful=False, reentrant=True, cfg=None, script=None):
        self.rng = rng
        self.faithful = faithful
        self.cfg = cfg if cfg is not None else gen_cfg(rng, faithful)
        self.script = script if script is not None else gen_script(rng, 30, reentrant)
        self.steps = steps
        self.log = Log(rng, self.cfg["buf"], self.cfg["max"]) if faithful else None
        self.tag = 0
        self.api_scale = 1.0      # how often stop/shutdown/start-while-running are called
        self.err_scale = 1.0      # how often requests fail
        self.commit_scale = 1.0   # how often the application commits
        self.prefix = []          # events to apply first (search around a known scenario)

    def next_tag(self):
        self.tag += 1
        return self.tag

    # ---- event choice
    def reply_for(self, r):
        rng = self.rng
        if r.kind == "fetch":
            if rng.random() < (0.15 if self.faithful else 0.25) * self.err_scale:
                return "fetchDone %d err %s:%d" % (r.k, rng.choice(ERR_KINDS_REQ), self.next_tag())
            off, mb = r.args["offset"], r.args["max_bytes"]
            if self.faithful:
                rep = self.log.reply(rng, off, mb)
                if rep[0] == "err":
                    return "fetchDone %d err outOfRange:%d" % (r.k, self.next_tag())
                items, tail = rep[1], rep[2]
            else:
                n = rng.choice([0, 1, 1, 2, 3, 4, 7])
                o = off - rng.choice([0, 0, 0, 1, 2, 5])
                items = []
                for _ in range(n):
                    items.append((o, self.next_tag()))
                    o += rng.choice([1, 1, 1, 2, 4, -1, 0] if rng.random() < 0.1 else [1, 1, 2, 3])
                t = rng.random()
                tail = "end" if t < 0.8 else ("small" if t < 0.93 else "raise:%s:%d" % (rng.choice(["kafka", "other"]), self.next_tag()))
            s = "fetchDone %d ok %s %s" % (r.k, ",".join("%d:%d" % it for it in items) or "-", tail)
            if rng.random() < 0.05:
                s += " foreign"
            return s
        if r.kind == "offsets":
            if rng.random() < 0.25 * self.err_scale:
                return "offsetDone %d err %s:%d" % (r.k, rng.choice(ERR_KINDS_REQ), self.next_tag())
            if self.faithful:
                return "offsetDone %d ok %d" % (r.k, self.log.earliest() if r.args["time"] == -2 else self.log.end)
            return "offsetDone %d ok %d" % (r.k, rng.choice([0, 3, 10, 25]))
        if r.kind == "offsetFetch":
            if rng.random() < 0.25 * self.err_scale:
                return "offsetFetchDone %d err %s:%d" % (r.k, rng.choice(ERR_KINDS_REQ), self.next_tag())
            return "offsetFetchDone %d ok %d" % (r.k, rng.choice([-1, -1, 0, 2, 7, 12]))
        if r.kind == "commit":
            if rng.random() < min(0.8, 0.35 * max(self.err_scale, self.commit_scale / 2)):
                return "commitDone %d err %s:%d" % (r.k, rng.choice(ERR_KINDS_COMMIT), self.next_tag())
            if rng.random() < 0.06:
                return "commitDone %d empty" % r.k  # a reply without an entry for the partition
            return "commitDone %d ok" % r.k
        raise AssertionError(r.kind)

    def choose(self, run):
        rng = self.rng
        c = run.consumer
        clock = run.clock
        running = c._start_d is not None
        cands = []  # (weight, event)
        outstanding = [r for r in run.client.reqs.values() if not r.done]
        for r in outstanding:
            # a request whose cancel was eaten completes later, with a failure or successfully (the client goes on
            # resolving metadata and sends it after all); the consumer drops the late result
            if r.cancelled:
                kind = {"fetch": "fetchDone", "offsets": "offsetDone", "offsetFetch": "offsetFetchDone", "commit": "commitDone"}[r.kind]
                cands.append((4, "%s %d err kafka:%d" % (kind, r.k, self.next_tag())))
                cands.append((4, self.reply_for(r)))
            else:
                cands.append((6, self.reply_for(r)))
        if getattr(run, "cleanupd", None) is not None and not run.cleanupd.called:
            cands.append((5, "cleanupDone"))
        if run.procd is not None and not run.procd.called:
            cands.append((5, "procDone ok"))
            cands.append((1.5, "procDone err %s:%d" % (rng.choice(ERR_KINDS_PROC + ["cancelled"]), self.next_tag())))
        for kind, name in (("retry", "retryFire"), ("commit", "commitRetryFire"), ("loop", "autoCommitTick")):
            ps = clock.pending(kind)
            if ps:
                if ps[0].getTime() <= clock.seconds():
                    cands.append((6 if kind != "loop" else 2, name))
                else:
                    need = Fraction(ps[0].getTime() - clock.seconds()).limit_denominator(10 ** 6)
                    dt = (need * 16).__ceil__()
                    cands.append((3 if kind != "loop" else 1.5, "advance %s" % Fraction(max(dt, 1), 16)))
                    if rng.random() < 0.03:
                        cands.append((0.5, name))  # not due: rejected
        if not running:
            off = rng.choice([0, 0, 1, 5, 12, -2, -1, -101, -101] if self.cfg["group"] else [0, 0, 1, 5, 12, -2, -1, -101])
            cands.append((8 if not outstanding else 3, "start %d" % off))
            cands.append((0.3, "stop"))
            cands.append((0.3, "shutdown"))
            cands.append((0.3, "commit"))
        else:
            cands.append((0.9 * self.api_scale, "stop"))
            cands.append((0.8 * self.api_scale, "shutdown"))
            cands.append(((1.2 if self.cfg["group"] else 0.2) * self.commit_scale, "commit"))
            cands.append((0.2 * self.api_scale, "start 4"))
        cands.append((0.3, "advance %s" % rng.choice(["1/16", "1/4", "1", "3"])))
        if rng.random() < 0.05:
            cands.append((0.5, "env %s %s" % (rng.choice(["kafka:97", "-"]), rng.choice(["kafka:98", "cancelled:99"]))))
        if rng.random() < 0.03:
            cands.append((0.5, rng.choice(["fetchDone 99 ok - end", "commitDone 98 ok", "procDone ok", "retryFire", "commitRetryFire", "autoCommitTick", "offsetDone 97 ok 3"])))
        total = sum(w for w, _ in cands)
        x = rng.random() * total
        for w, e in cands:
            x -= w
            if x <= 0:
                return e
        return cands[-1][1]

    def generate(self):
        """-> (scenario, impl observations, Run)"""
        sc = {"cfg": self.cfg, "script": self.script, "events": []}
        if self.log is not None:
            sc["log"] = self.log.msgs()
        run = Run(sc)
        impl = []
        run.begin()
        try:
            for i in range(self.steps):
                ev = self.prefix[i] if i < len(self.prefix) else self.choose(run)
                sc["events"].append(ev)
                impl.append(run.step(ev))
                if run.crashed:
                    break
        finally:
            run.end()
        return sc, impl, run


class MacroGen(Gen):
    """Lifecycle scenarios: a random sequence of GOALS (start here, process a few blocks, commit with this
    outcome, fail k times, idle fetch, out-of-range, auto-commit tick, stop, shutdown, restart elsewhere),
    each driven to completion adaptively.  Reaches in a dozen events the histories that single random
    events reach rarely (commit N, stop, restart at an earlier offset, shutdown; k failures then an idle
    fetch then a failure; the k-th consecutive failure being out-of-range; ...)."""

    def generate(self):
        rng = self.rng
        sc = {"cfg": self.cfg, "script": self.script, "events": []}
        if self.log is not None:
            sc["log"] = self.log.msgs()
        run = Run(sc)
        impl = []
        self.next_off = {}

        def do(ev):
            if len(sc["events"]) >= self.steps or run.crashed:
                return False
            sc["events"].append(ev)
            impl.append(run.step(ev))
            return True

        def outstanding(kinds):
            return [r for r in run.client.reqs.values() if not r.done and not r.cancelled and r.kind in kinds]

        def fire(kind, name):
            ps = run.clock.pending(kind)
            if not ps:
                return False
            if ps[0].getTime() > run.clock.seconds():
                need = Fraction(ps[0].getTime() - run.clock.seconds()).limit_denominator(10 ** 6)
                do("advance %s" % Fraction(max((need * 16).__ceil__(), 1), 16))
            return do(name)

        def reply_ok(r, n=None):
            if r.kind == "fetch":
                off = r.args["offset"]
                if self.faithful:
                    rep = self.log.reply(rng, off, r.args["max_bytes"])
                    if rep[0] == "err":
                        return do("fetchDone %d err outOfRange:%d" % (r.k, self.next_tag()))
                    return do("fetchDone %d ok %s %s" % (r.k, ",".join("%d:%d" % it for it in rep[1]) or "-", rep[2]))
                n = rng.choice([1, 2, 3, 5]) if n is None else n
                items, o = [], off
                for _ in range(n):
                    items.append((o, self.next_tag()))
                    o += rng.choice([1, 1, 1, 2])
                return do("fetchDone %d ok %s end" % (r.k, ",".join("%d:%d" % it for it in items) or "-"))
            if r.kind == "offsets":
                v = (self.log.earliest() if r.args["time"] == -2 else self.log.end) if self.faithful else rng.choice([0, 3, 10])
                return do("offsetDone %d ok %d" % (r.k, v))
            if r.kind == "offsetFetch":
                return do("offsetFetchDone %d ok %d" % (r.k, rng.choice([-1, 0, 0, 2, 7])))
            return do("commitDone %d ok" % r.k)

        def settle(blocks):
            """answer requests, fire the refetch timer, finish processor calls - until `blocks` blocks are done"""
            done = 0
            for _ in range(30):
                if run.procd is not None and not run.procd.called:
                    if not do("procDone ok"):
                        return
                    done += 1
                    if done >= blocks:
                        return
                    continue
                rs = outstanding(("fetch", "offsets", "offsetFetch"))
                if rs:
                    before = sum(1 for o in impl for l in o if l.startswith("procRet ok"))
                    if not reply_ok(rs[0]):
                        return
                    done += sum(1 for o in impl for l in o if l.startswith("procRet ok")) - before
                    if done >= blocks:
                        return
                    continue
                if run.clock.pending("retry"):
                    if not fire("retry", "retryFire"):
                        return
                    continue
                return

        def commit_replies(outcome):
            for _ in range(6):
                rs = outstanding(("commit",))
                if not rs:
                    if run.clock.pending("commit"):
                        fire("commit", "commitRetryFire")
                        continue
                    return
                if outcome == "ok":
                    do("commitDone %d ok" % rs[0].k)
                    return
                if outcome == "fatal":
                    do("commitDone %d err groupFatal:%d" % (rs[0].k, self.next_tag()))
                    return
                do("commitDone %d err kafka:%d" % (rs[0].k, self.next_tag()))
                if outcome == "retry-progress":
                    settle(1)  # the processor completes more while the commit backs off
                outcome = "ok" if rng.random() < 0.6 else outcome

        run.begin()
        try:
            do("start %d" % rng.choice([0, 3, 5, 12, -2, -1] + ([-101, -101] if self.cfg["group"] else [])))
            for _ in range(rng.randrange(4, 10)):
                if run.crashed or len(sc["events"]) >= self.steps:
                    break
                m = rng.choice(["settle", "settle", "settle", "commit", "commit", "fail", "fail", "idle", "oor", "tick", "stop", "shutdown", "restart", "restart-back"])
                running = run.consumer._start_d is not None
                if m == "settle":
                    settle(rng.choice([1, 2, 3]))
                elif m == "commit":
                    do("commit")
                    commit_replies(rng.choice(["ok", "ok", "retry", "retry-progress", "fatal"]))
                elif m == "fail":
                    for _ in range(rng.choice([1, 2, 3, 4])):
                        rs = outstanding(("fetch", "offsets", "offsetFetch"))
                        if not rs:
                            if not fire("retry", "retryFire"):
                                break
                            rs = outstanding(("fetch", "offsets", "offsetFetch"))
                            if not rs:
                                break
                        kind = {"fetch": "fetchDone", "offsets": "offsetDone", "offsetFetch": "offsetFetchDone"}[rs[0].kind]
                        do("%s %d err kafka:%d" % (kind, rs[0].k, self.next_tag()))
                elif m == "idle":
                    rs = outstanding(("fetch",)) or (fire("retry", "retryFire") and outstanding(("fetch",)))
                    if rs:
                        do("fetchDone %d ok - end" % rs[0].k)
                elif m == "oor":
                    rs = outstanding(("fetch",)) or (fire("retry", "retryFire") and outstanding(("fetch",)))
                    if rs:
                        do("fetchDone %d err outOfRange:%d" % (rs[0].k, self.next_tag()))
                elif m == "tick":
                    if fire("loop", "autoCommitTick"):
                        commit_replies(rng.choice(["ok", "retry", "fatal"]))
                elif m == "stop" and running:
                    do("stop")
                elif m == "shutdown" and running:
                    if run.procd is not None and not run.procd.called and rng.random() < 0.5:
                        do("shutdown")
                        do(rng.choice(["procDone ok", "stop", "procDone err other:%d" % self.next_tag()]))
                    else:
                        do("shutdown")
                    commit_replies(rng.choice(["ok", "ok", "retry", "fatal"]))
                elif m in ("restart", "restart-back"):
                    if running:
                        do(rng.choice(["stop", "shutdown"]))
                        commit_replies("ok")
                    lp = run.consumer.last_processed_offset
                    if m == "restart-back" and lp is not None and lp > 0:
                        do("start %d" % rng.randrange(0, lp))
                    else:
                        do("start %d" % rng.choice([0, 5, 12, -2, -101 if self.cfg["group"] else 0]))
                    settle(rng.choice([1, 2]))
            while len(sc["events"]) < 3 and do("advance 1/4"):
                pass
        finally:
            run.end()
        return sc, impl, run


class FairGen(Gen):
    """A FAIR run against a broker-like log whose every message fits the maximum buffer: no faults, no stop;
    every request is answered from the log, every timer fired, every processor result delivered, until the
    consumer has caught up with the end of the log.  Then everything from the start position must have been
    delivered (monitor `completeOk`)."""

    def generate(self):
        rng = self.rng
        cfg = self.cfg
        cfg["attempts"] = 0
        self.log = Log(rng, cfg["buf"], cfg["max"], fit=True)
        script = [{"acts": [], "res": rng.choice(["ok", "ok", "defer", "fired", "paused"])} for _ in range(60)]
        sc = {"cfg": cfg, "script": script, "events": [], "log": self.log.msgs(), "fair": True}
        run = Run(sc)
        impl = []

        def do(ev):
            sc["events"].append(ev)
            impl.append(run.step(ev))

        run.begin()
        try:
            offs = [e[0] for e in self.log.entries]
            start = rng.choice([-2, -2, self.log.earliest(), rng.choice(offs), rng.choice(offs) + 1, self.log.end] + ([-101] if cfg["group"] else []))
            start = min(start, self.log.end)
            do("start %d" % start)
            caught_up = False
            for _ in range(400):
                if run.crashed:
                    break
                if run.procd is not None and not run.procd.called:
                    do("procDone ok")
                    continue
                rs = [r for r in run.client.reqs.values() if not r.done]
                if rs:
                    r = rs[0]
                    if r.kind == "fetch":
                        rep = self.log.reply(rng, r.args["offset"], r.args["max_bytes"])
                        if rep[0] == "err":
                            do("fetchDone %d err outOfRange:%d" % (r.k, self.next_tag()))
                            break  # started outside the log: not a fair completeness run
                        do("fetchDone %d ok %s %s" % (r.k, ",".join("%d:%d" % it for it in rep[1]) or "-", rep[2]))
                        if r.args["offset"] >= self.log.end:
                            caught_up = True
                    elif r.kind == "offsets":
                        do("offsetDone %d ok %d" % (r.k, self.log.earliest() if r.args["time"] == -2 else self.log.end))
                    elif r.kind == "offsetFetch":
                        do("offsetFetchDone %d ok %d" % (r.k, rng.choice([-1] + offs)))
                    else:
                        do("commitDone %d ok" % r.k)
                    continue
                if caught_up:
                    break
                ps = run.clock.pending("retry")
                if ps:
                    if ps[0].getTime() > run.clock.seconds():
                        need = Fraction(ps[0].getTime() - run.clock.seconds()).limit_denominator(10 ** 6)
                        do("advance %s" % Fraction(max((need * 16).__ceil__(), 1), 16))
                    do("retryFire")
                    continue
                break
            sc["caught_up"] = caught_up
            sc["complete_expected"] = not any(e.startswith("fetchDone") and " err " in e for e in sc["events"])
        finally:
            run.end()
        return sc, impl, run
