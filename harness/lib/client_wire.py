"""Broker-side wire helpers for the client-layer checks (C07, C08, C11, C20).

Written from the Kafka protocol guide, independent of afkak's codec: parsers for the REQUESTS the
real KafkaClient writes (header + the payload keys of Produce/Fetch/Offset/OffsetCommit/OffsetFetch
v0/v1, Metadata v0, FindCoordinator v0) and encoders for the RESPONSE bodies the simulated brokers
send back (everything after the correlation id).
"""
import struct

PRODUCE, FETCH, OFFSET, METADATA, OFFSET_COMMIT, OFFSET_FETCH, FIND_COORDINATOR = 0, 1, 2, 3, 8, 9, 10
JOIN_GROUP, HEARTBEAT, LEAVE_GROUP, SYNC_GROUP, API_VERSIONS = 11, 12, 13, 14, 18
API_NAMES = {0: "produce", 1: "fetch", 2: "offset", 3: "metadata", 8: "commit", 9: "ofetch", 10: "coord",
             11: "join", 12: "heartbeat", 13: "leave", 14: "sync", 18: "apiversions"}


class R(object):
    """big-endian reader"""

    def __init__(self, b, pos=0):
        self.b, self.pos = b, pos

    def take(self, fmt):
        n = struct.calcsize(fmt)
        if self.pos + n > len(self.b):
            raise ValueError("short read")
        v = struct.unpack_from(fmt, self.b, self.pos)
        self.pos += n
        return v

    def i16(self):
        return self.take(">h")[0]

    def i32(self):
        return self.take(">i")[0]

    def i64(self):
        return self.take(">q")[0]

    def string(self):
        n = self.i16()
        if n < 0:
            return None
        if self.pos + n > len(self.b):
            raise ValueError("short read")
        s = self.b[self.pos:self.pos + n]
        self.pos += n
        return s.decode("utf-8")

    def bytes32(self):
        n = self.i32()
        if n < 0:
            return None
        if self.pos + n > len(self.b):
            raise ValueError("short read")
        s = self.b[self.pos:self.pos + n]
        self.pos += n
        return s


def s16(s):
    if s is None:
        return struct.pack(">h", -1)
    b = s.encode("utf-8") if isinstance(s, str) else s
    return struct.pack(">h", len(b)) + b


def parse_request(frame):
    """-> dict(api, name, version, corr, client_id, keys=[(topic, partition)...] in wire order, extra)"""
    r = R(frame)
    api, ver, corr = r.take(">hhi")
    cid = r.string()
    out = {"api": api, "name": API_NAMES.get(api, str(api)), "version": ver, "corr": corr, "client_id": cid, "keys": [], "extra": {}}
    if api == PRODUCE:
        acks, timeout, nt = r.take(">hii")
        out["extra"] = {"acks": acks, "timeout": timeout}
        sizes = []
        for _ in range(nt):
            t = r.string()
            for _ in range(r.i32()):
                p = r.i32()
                ms = r.bytes32()
                out["keys"].append((t, p))
                sizes.append(len(ms))
        out["extra"]["sizes"] = sizes
    elif api == FETCH:
        _replica, wait, minb, nt = r.take(">iiii")
        out["extra"] = {"max_wait": wait, "min_bytes": minb, "offsets": []}
        for _ in range(nt):
            t = r.string()
            for _ in range(r.i32()):
                p, off, mb = r.take(">iqi")
                out["keys"].append((t, p))
                out["extra"]["offsets"].append(off)
    elif api == OFFSET:
        _replica, nt = r.take(">ii")
        for _ in range(nt):
            t = r.string()
            for _ in range(r.i32()):
                p, tm, mo = r.take(">iqi")
                out["keys"].append((t, p))
    elif api == METADATA:
        n = r.i32()
        out["extra"] = {"topics": [r.string() for _ in range(n)]}
    elif api == OFFSET_COMMIT:
        g = r.string()
        gen = r.i32()
        member = r.string()
        out["extra"] = {"group": g, "generation": gen, "member": member}
        for _ in range(r.i32()):
            t = r.string()
            for _ in range(r.i32()):
                p, off, ts = r.take(">iqq")
                r.string()
                out["keys"].append((t, p))
    elif api == OFFSET_FETCH:
        g = r.string()
        out["extra"] = {"group": g}
        for _ in range(r.i32()):
            t = r.string()
            for _ in range(r.i32()):
                out["keys"].append((t, r.i32()))
    elif api == FIND_COORDINATOR:
        out["extra"] = {"group": r.string()}
    elif api == LEAVE_GROUP:
        out["extra"] = {"group": r.string(), "member": r.string()}
    return out


def by_topic(keys):
    """[(topic, partition, ...)] -> [(topic, [items])] grouping in first-seen order"""
    order, m = [], {}
    for k in keys:
        if k[0] not in m:
            m[k[0]] = []
            order.append(k[0])
        m[k[0]].append(k)
    return [(t, m[t]) for t in order]


# ---- response bodies (WITHOUT the correlation id; Conn.respond adds it) -------------------------

def metadata_response(brokers, topics):
    """brokers: [(node_id, host, port)], topics: [(name, topic_error, [(part_error, partition, leader, replicas, isr)])]"""
    out = [struct.pack(">i", len(brokers))]
    for nid, host, port in brokers:
        out.append(struct.pack(">i", nid) + s16(host) + struct.pack(">i", port))
    out.append(struct.pack(">i", len(topics)))
    for name, terr, parts in topics:
        out.append(struct.pack(">h", terr) + s16(name) + struct.pack(">i", len(parts)))
        for perr, p, leader, replicas, isr in parts:
            out.append(struct.pack(">hiii", perr, p, leader, len(replicas)))
            out.append(b"".join(struct.pack(">i", x) for x in replicas))
            out.append(struct.pack(">i", len(isr)))
            out.append(b"".join(struct.pack(">i", x) for x in isr))
    return b"".join(out)


def produce_response(items):
    """items: [(topic, partition, error, offset)] (v0)"""
    out = []
    groups = by_topic(items)
    out.append(struct.pack(">i", len(groups)))
    for t, its in groups:
        out.append(s16(t) + struct.pack(">i", len(its)))
        for _, p, err, off in its:
            out.append(struct.pack(">ihq", p, err, off))
    return b"".join(out)


def fetch_response(items):
    """items: [(topic, partition, error, highwater)] (v0, empty message sets)"""
    out = []
    groups = by_topic(items)
    out.append(struct.pack(">i", len(groups)))
    for t, its in groups:
        out.append(s16(t) + struct.pack(">i", len(its)))
        for _, p, err, hw in its:
            out.append(struct.pack(">ihq", p, err, hw) + struct.pack(">i", 0))
    return b"".join(out)


def offset_response(items):
    """items: [(topic, partition, error, offset)] (v0, one offset each)"""
    out = []
    groups = by_topic(items)
    out.append(struct.pack(">i", len(groups)))
    for t, its in groups:
        out.append(s16(t) + struct.pack(">i", len(its)))
        for _, p, err, off in its:
            out.append(struct.pack(">ihi", p, err, 1) + struct.pack(">q", off))
    return b"".join(out)


def offset_commit_response(items):
    """items: [(topic, partition, error, _)]"""
    out = []
    groups = by_topic(items)
    out.append(struct.pack(">i", len(groups)))
    for t, its in groups:
        out.append(s16(t) + struct.pack(">i", len(its)))
        for it in its:
            out.append(struct.pack(">ih", it[1], it[2]))
    return b"".join(out)


def offset_fetch_response(items):
    """items: [(topic, partition, error, offset)]"""
    out = []
    groups = by_topic(items)
    out.append(struct.pack(">i", len(groups)))
    for t, its in groups:
        out.append(s16(t) + struct.pack(">i", len(its)))
        for _, p, err, off in its:
            out.append(struct.pack(">iq", p, off) + s16(b"") + struct.pack(">h", err))
    return b"".join(out)


def find_coordinator_response(error, node_id, host, port):
    return struct.pack(">hi", error, node_id) + s16(host) + struct.pack(">i", port)


def leave_group_response(error):
    return struct.pack(">h", error)


RESPONDERS = {PRODUCE: produce_response, FETCH: fetch_response, OFFSET: offset_response,
              OFFSET_COMMIT: offset_commit_response, OFFSET_FETCH: offset_fetch_response}
