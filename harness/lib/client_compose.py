"""The real KafkaClient + its real _KafkaBrokerClients against the COMPOSED Lean model
(lean/Afkak/ClientCompose.lean: client model x one broker-client model per instance).

`harness/lib/client_sim.py` records every run a second time as network-level events (`sim.xsteps`): API calls and
bootstrap-endpoint events of the client, `connOk / connFail / lost / reply` of each broker connection, clock
advances - each with what was observed at BOTH boundaries while it ran: the client layer's observations (`cl`) and
each broker client's (`bc b`: connect, write, lose, reconnect timer set/cancelled, connect cancelled, request
Deferred fired, close Deferred fired).  The composed model is driven with the same events (`x-…` requests of
`model_client`) and must (1) never report `mismatch` (the two models disagree about what happens synchronously at
the interface), (2) produce the same client-level observations in order, and (3) the same observations per broker
client in order.

Scenarios are generated with `no_jump`: the clock only moves up to the next pending delayed call ("timers fire at
their due time"), which is what the composed model's `advance` assumes.  Not supported (skipped, counted): a
reconnect timer of a broker client that fires BETWEEN two client timers of the same instant; a request that expects
no reply flushed at connect whose callbacks call back into the same broker client (re-entrancy: C10's re-entrant
model).
"""
import json
import random
import traceback

from harness.lib import client_common as CC


def first_of(x):
    """-> (broker clients whose reconnect timer fired before the first client timer of this advance, those whose timer
    fired after the client's timers - both in firing order); None = an order the composed model cannot express
    (a reconnect timer BETWEEN two client timers of the same instant)"""
    first, after = [], []
    seen_named, state, bad = False, 0, False
    seq = x["seq"]
    for i, e in enumerate(seq):
        if e[0] != "call":
            continue
        if e[1] is not None:
            if state == 2:
                bad = True
            state = 1
            seen_named = True
            continue
        if state >= 1:
            state = 2
        # the broker client this unnamed call belongs to: the next broker-client observation before the next call
        b = None
        for f in seq[i + 1:]:
            if f[0] == "call":
                break
            if f[0] == "bc" and f[1] is not None:
                b = f[1]
                break
        if b is not None:
            lst = after if seen_named else first
            if b not in first and b not in after:
                lst.append(b)
    return None if bad else (first, after)


def x_lines(sim):
    """-> (driver lines, reason); after the first close() of the client an `x-closed` query follows (its answer is
    checked by `compare`: every broker-client component must be closed when the close step ends)"""
    lines = ["x-" + sim.cfg_line]
    asked = False
    for x in sim.xsteps:
        line = x["line"]
        if "%FIRST%" in line:
            f = first_of(x)
            if f is None:
                return None, "timer-order"
            line = line.replace("%FIRST%", CC.ints(f[0]) + " " + CC.ints(f[1]))
        if x.get("exc"):
            return None, "exception"
        if x.get("after_lose") and any(e[0] != "call" for e in x["seq"]):
            return None, "delivery-after-loseConnection"
        lines.append(line)
        if line.startswith("x-api close ") and not asked:
            asked = True
            lines.append("x-closed")
    return lines, None


def streams_real(x):
    cl, bc = [], {}
    for e in x["seq"]:
        if e[0] == "cl":
            cl.append(e[1])
        elif e[0] == "bc":
            bc.setdefault(str(e[1]), []).append(e[2])
    return cl, bc


def streams_model(out):
    cl, bc, bad = [], {}, []
    for l in out:
        w = l.split(" ", 2)
        if w[0] == "cl":
            cl.append(l[3:])
        elif w[0] == "bc":
            bc.setdefault(w[1], []).append(w[2])
        elif w[0] == "connect":
            b, rest = l.split(" ", 2)[1:]
            bc.setdefault(b, []).append("connect " + rest)
        else:
            bad.append(l)
    return cl, bc, bad


def compare(sim, got):
    """got[0] answers x-cfg. -> None or a detail dict"""
    off = 1
    for i, x in enumerate(sim.xsteps):
        out = got[off + i]
        if out and out[0].startswith("closed "):
            # the answer to `x-closed` (asked right after the first close step)
            if "0" in out[0].split(" ", 1)[1].split(","):
                return {"at": i, "step": sim.xsteps[i - 1]["line"], "what": "a broker-client component of the composed model is not closed when the close step ends", "model": out}
            off += 1
            out = got[off + i]
        mcl, mbc, bad = streams_model(out)
        rcl, rbc = streams_real(x)
        line = x["line"]
        if bad:
            return {"at": i, "step": line, "what": "the composed model reports: " + "; ".join(bad[:3]), "impl": x["seq"][:12], "model": out[:12]}
        if mcl != rcl:
            # close() with several bootstraps in progress cancels them in an order the model does not know (as in c07.compare)
            boots = sum(1 for o in mcl if o.startswith(("bootCancel", "bootLose")))
            if line.startswith("x-api close") and boots >= 2 and sorted(mcl) == sorted(rcl):
                continue
            return {"at": i, "step": line, "what": "client-level observations", "impl": rcl, "model": mcl}
        for b in sorted(set(mbc) | set(rbc)):
            if mbc.get(b, []) != rbc.get(b, []):
                return {"at": i, "step": line, "what": "observations of broker client %s" % b, "impl": rbc.get(b, []), "model": mbc.get(b, [])}
    last = got[off + len(sim.xsteps)] if len(got) > off + len(sim.xsteps) else None
    if last and last[0].startswith("closed ") and "0" in last[0].split(" ", 1)[1].split(","):
        return {"at": len(sim.xsteps), "step": "x-closed", "what": "a broker-client component of the composed model is not closed when the close step ends", "model": last}
    return None


def reentrant(sim):
    """a request that expects no reply was flushed at connect (its callbacks ran inside `_sendQueued`) while other requests
    were queued behind it: the flat broker-client model orders the writes differently (C10's re-entrant model covers it)"""
    for x in sim.xsteps:
        if x["line"].startswith("x-connok") and x["envs"]:
            return True
    return False


def prepare(sim):
    """-> (verdict, detail, None) when no model run is needed, else (None, None, driver lines)"""
    if sim.xstray:
        return "dis", {"what": "observations outside any network-level event (harness)", "impl": sim.xstray[:5]}, None
    lines, why = x_lines(sim)
    if lines is None:
        return "skip:" + why, None, None
    return None, None, lines


def judge(sim, got):
    det = compare(sim, got)
    if det is None:
        return "ok", None
    if reentrant(sim):
        return "skip:reentrant", None
    return "dis", det


def evaluate(model, sim):
    """-> ("ok" | "skip:<why>" | "dis", detail)"""
    v, det, lines = prepare(sim)
    if lines is None:
        return v, det
    return judge(sim, model("client", lines))


def evaluate_many(model, sims):
    """`evaluate` for a batch of runs with ONE driver process (every run's lines start with `x-cfg`, which resets the
    driver's composed state; starting the process costs far more than answering one run's requests).
    -> one (verdict, detail) per run; ("err", traceback) where the evaluation itself crashed.  If the batched call
    fails, every run is evaluated on its own."""
    out, asked = [None] * len(sims), []
    try:
        for i, sim in enumerate(sims):
            v, det, lines = prepare(sim)
            if lines is None:
                out[i] = (v, det)
            else:
                asked.append((i, lines))
        got = model("client", [l for _, ls in asked for l in ls]) if asked else []
        off = 0
        for i, ls in asked:
            out[i] = judge(sims[i], got[off:off + len(ls)])
            off += len(ls)
        return out
    except Exception:
        out = []
        for sim in sims:
            try:
                out.append(evaluate(model, sim))
            except Exception:
                out.append(("err", traceback.format_exc()[-1200:]))
        return out


def run_batch(model, seed, n, focus, timeout_s=40, batch=50):
    import time
    from harness.lib import client_scen as SC

    CC.quiet()
    rng = random.Random(seed)
    out = {"n": 0, "ok": 0, "skips": {}, "dis": [], "errors": [], "hist": {}}
    t0 = time.time()
    pend = []

    def flush():
        for (scn, sim), (verdict, det) in zip(pend, evaluate_many(model, [s for _, s in pend])):
            if verdict == "err":
                out["errors"].append(det)
                continue
            out["n"] += 1
            for x in sim.xsteps:
                k = "x=" + x["line"].split(" ")[0]
                out["hist"][k] = out["hist"].get(k, 0) + 1
                for e in x["seq"]:
                    if e[0] == "bc":
                        kk = "bc=" + e[2].split(" ")[0]
                        out["hist"][kk] = out["hist"].get(kk, 0) + 1
            if verdict == "ok":
                out["ok"] += 1
            elif verdict.startswith("skip:"):
                out["skips"][verdict[5:]] = out["skips"].get(verdict[5:], 0) + 1
            elif len(out["dis"]) < 3:
                out["dis"].append({"scenario": scn, "detail": det})
        del pend[:]

    for _ in range(n):
        if time.time() - t0 > timeout_s:
            break
        try:
            cfg = SC.gen_cfg(rng, focus)
            cfg["no_jump"] = True
            scn, run = SC.generate(rng, focus, cfg=cfg)
        except Exception:
            out["errors"].append(traceback.format_exc()[-1200:])
            if len(out["errors"]) > 3:
                break
            continue
        run.dispose()
        pend.append((scn, run.sim))
        if len(pend) >= batch:
            flush()
    flush()
    return out


def still_fails(model, scn):
    from harness.lib import client_scen as SC
    try:
        run = SC.execute(scn)
    except Exception:
        return False
    run.dispose()
    try:
        v, _ = evaluate(model, run.sim)
    except Exception:
        return False
    return v == "dis"


def shrink(model, scn, budget=80):
    cur = list(scn["cmds"])
    tries = 0
    chunk = max(1, len(cur) // 2)
    while chunk >= 1 and tries < budget:
        i = 0
        progressed = False
        while i < len(cur) and tries < budget:
            cand = cur[:i] + cur[i + chunk:]
            tries += 1
            if cand and still_fails(model, {"cfg": scn["cfg"], "cmds": cand}):
                cur = cand
                progressed = True
            else:
                i += chunk
        if not progressed:
            chunk //= 2
    return {"cfg": scn["cfg"], "cmds": cur, "focus": scn.get("focus")}


def stage(ctx, res, n, focus, corpus_prefixes=()):
    """the composed-model stage of C11 / C20 (quick tier: part of the ~90 s budget)"""
    from harness.props import c07
    from harness.lib import client_scen as SC

    for pre in corpus_prefixes:
        for fn, scn in c07.corpus_scenarios(pre):
            if "cmds" not in scn:
                continue
            scn = dict(scn, cfg=dict(scn["cfg"], no_jump=True))
            run = SC.execute(scn)
            run.dispose()
            v, det = evaluate(ctx.model, run.sim)
            res.count("composed:corpus=" + v.split(":")[0])
            if v == "dis":
                res.disagreements.append({"component": "client-composed", "scenario": scn, "corpus": fn, "detail": det})
    o = run_batch(ctx.model, ctx.rng.randrange(1 << 30), n, focus, timeout_s=ctx.scale(30, 600))
    res.evaluations += o["n"]
    res.traces_validated += o["ok"]
    res.extra["composed_scenarios"] = o["n"]
    res.extra["composed_accepted"] = o["ok"]
    res.extra["composed_skipped"] = o["skips"]
    for k, v in o["hist"].items():
        res.count("composed:" + k, v)
    for e in o["errors"]:
        res.disagreements.append({"component": "client-composed", "what": "harness/scenario crashed", "trace": e})
    for d in o["dis"]:
        sc = shrink(ctx.model, d["scenario"]) if len(res.disagreements) < 2 else d["scenario"]
        res.disagreements.append({"component": "client-composed", "scenario": sc, "detail": d["detail"]})


def replay(ctx, data):
    """re-run one stored scenario against the composed model; print both streams of the first differing event"""
    from harness.lib import client_scen as SC
    f = data.get("failure") or {}
    sc = f.get("scenario")
    if sc is None:
        for b in data.get("no_longer_checks", []):
            if isinstance(b.get("what"), dict) and isinstance(b["what"].get("scenario"), dict):
                sc = b["what"]["scenario"]
                break
    if sc is None or "cmds" not in sc:
        return 0
    CC.quiet()
    run = SC.execute(dict(sc, cfg=dict(sc["cfg"], no_jump=sc["cfg"].get("no_jump", True))))
    run.dispose()
    v, det = evaluate(ctx.model, run.sim)
    print("composed model (client x broker clients):", v, json.dumps(det, default=str) if det else "")
    return 1 if v == "dis" else 0
