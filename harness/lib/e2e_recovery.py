"""e2e_recovery - the end-to-end stage behind the last sentence of C08:

    "after any finite sequence of leader moves, broker restarts and address changes, producing and
     consuming resume against the new leaders within the retry budget"

Real Producer + real Consumers over real KafkaClients (one for the producer, one shared by the
consumers) run against `sim/cluster.py` while a FINITE random fault sequence is played; at T_last the
faults stop (everything transient is healed, every partition gets a live leader); the run continues and
the monitors below compare what the application saw with the cluster's ground truth.

    run(ctx, res, n)            n scenarios drawn from ctx.rng; fills res (evaluations, nontrivial, count,
                                sample, traces_validated, monitor_failures [{"what","scenario","tags"}])
    replay(ctx, scenario)       re-run one scenario dict (as stored in a failure), print the story -> 0 / 1
    gen_scenario(rng, acks0)    the generator;  execute(scenario) -> Outcome   (both usable on their own)

Call from harness/props/c08.py:   e2e_recovery.run(ctx, res, ctx.scale(25, 600))

Phases of one scenario (all times virtual):
    [0, T_last)   workload (sends spread over time, consumers running) + faults
    T_last        "stabilise": injected faults cleared, hung brokers healed, hidden brokers back in the
                  metadata, refusing/black-holed brokers accept again, every partition whose leader is
                  dead or missing gets a live one.  Permanently killed brokers STAY dead, re-addressed
                  brokers stay at the new address, former leaders keep answering NotLeader / Unknown /
                  nothing for the partitions they lost.  A marker message is appended to every partition
                  (directly into the log) and "tail" sends follow within a second.
    recovery      run until every send has fired, every consumer has delivered its log to the end and
                  every group consumer's committed offset is at its last message - or the bound B passed
    grace         max reconnect delay + longest fetch wait
    probe (H)     a second marker per partition + probe sends; routing is judged on what happens from H on

Bounds (computed per scenario from the objects' actual settings; stated in every failure):
    T  = client.timeout            D = largest reconnect delay of the client's retry policy
    M  = (known brokers + bootstrap hosts) * T + D         worst case of one metadata refresh: every
                                                           broker tried in turn, each may time out
    batch  = A * (M + T) + sum_{k<A} r0 * f^k              A = producer max attempts, r0 = retry_interval,
                                                           f = Producer.RETRY_INTERVAL_FACTOR
    B_p = 2 * batch + batch_every_t + 3 * M                a send may queue behind ONE batch in flight;
                                                           3 * M for a version discovery still to do
    B_c = 3 * (T + Rmax + M) + W                           Rmax = consumer request_retry_max_delay,
                                                           W = fetch_max_wait_time
    B_k = 3 * (T + Rmax + 2 * M)                           commit: coordinator look-up + refresh
    B   = B_p + B_c + B_k

Monitors (tags):
    e2e-recovery-resume-send        a send issued at/after T_last failed, or took longer than B_p
    e2e-recovery-send-pending       a send (issued any time) has not fired at the end
    e2e-recovery-acked-absent       a send SUCCEEDED but a message of it is not in the log of the partition
                                    its acknowledgement names (at or after the acknowledged offset);
                                    acks=0: a send issued at/after T_last whose messages are in no log
    e2e-recovery-dup-without-retry  a message is in the logs twice although every earlier append of it was
                                    answered successfully and in time (a duplicate after a LOST answer is
                                    Kafka's at-least-once and only counted: res.count("dup-after-lost-ack"))
    e2e-recovery-consumer-stream    a consumer's delivered stream differs from its partition log from the
                                    start offset (gap, duplicate, order, content), or its start() Deferred
                                    fired although nobody stopped it
    e2e-recovery-consumer-lag       a consumer has not reached the log end within B after T_last
    e2e-recovery-commit-lag         a group consumer's stored offset is not its last message within B
    e2e-recovery-stale-route        from H on, more than one produce/fetch of one client for one partition
                                    went to a broker that does not lead it (the first may trigger the refresh)
    e2e-recovery-stale-address      from H on, connection attempts to an address no broker has any more keep
                                    coming for longer than T + D after the first one
    e2e-recovery-errored-topic      a metadata answer told a client "topic errored, no partitions"; the same
                                    client later (strictly later in time, on a connection that was already
                                    open) sent a produce/fetch/offset request for that topic before any
                                    metadata answer listed partitions again
    e2e-recovery-livelock           the system never went quiet at one virtual instant (cluster.Livelock)

acks=0 (about one scenario in seven): there is no answer to lose and no error to learn from, so the fault
alphabet is restricted to what leaves a signal (permanent kills, address changes, leader moves that take
the old leader down, dropped connections) and the send monitors are the weak ones: tail/probe sends must
end up in a log ("eventually routed to the new leader").
"""
import collections
import json
import logging
import random

from harness.sim import refcodec as R
from harness.sim.cluster import Cluster, Livelock
from harness.sim.fullstack import Determinism, Recorder, make_client, make_consumer, make_producer

RECONNECT = dict(initialDelay=0.2, maxDelay=1.0, factor=1.5)
JITTER = 0.1
CONSUMER_RMAX = 1.0

FAULT_KINDS = ["move", "move", "move", "kill", "kill", "readdress", "readdress", "bounce", "hide", "drop", "drop",
               "silent", "refuse", "blackhole", "error", "topic_outage", "topic_outage", "kill_coord", "kill_coord", "full_refresh",
               "outage"]  # fmt: skip
ACKS0_KINDS = ["kill_forever", "readdress", "readdress", "move_down", "drop"]


# --------------------------------------------------------------------------- generator


def gen_scenario(rng, acks0=False):
    nb = rng.randint(2, 4)
    topics = []
    for i in range(rng.randint(1, 3)):
        np_ = rng.randint(1, 4)
        topics.append({"name": "t%d" % i, "partitions": np_, "leaders": [rng.randint(1, nb) for _ in range(np_)]})
    tps = [(t["name"], p) for t in topics for p in range(t["partitions"])]
    preload = []
    for name, p in tps:
        k = rng.choice([0, 0, 1, 3])
        if k:
            preload.append({"topic": name, "partition": p, "n": k, "magic": rng.choice([0, 1]),
                            "codec": rng.choice([None, None, "gzip"])})  # fmt: skip
    timeout_ms = rng.choice([1500, 2000, 3000])
    chosen = list(tps)
    rng.shuffle(chosen)
    chosen = sorted(chosen[: rng.randint(2, 5)])
    # A broker serves ONE request per connection at a time and a parked fetch keeps the channel muted: the
    # consumers share a client, hence possibly a connection, so their long polls queue up one behind the
    # other.  Keep (number of consumers) x (fetch wait) well below the client timeout, else fetches time out
    # for ever in a perfectly healthy cluster (head-of-line blocking, not a recovery matter).
    waits = [w for w in (100, 200, 300, 500) if w * len(chosen) <= 0.5 * timeout_ms]
    consumers = []
    for i, (name, p) in enumerate(chosen):
        grouped = rng.random() < 0.5
        consumers.append({
            "name": "c%d" % i, "topic": name, "partition": p, "group": "g%d" % (i % 2) if grouped else None,
            "start": "committed" if grouped else rng.choice(["earliest", 0]),
            "fetch_max_wait_time": rng.choice(waits), "fetch_size_bytes": rng.choice([1, 65536]),
            "buffer_size": rng.choice([512, 4096, 131072]),
        })  # fmt: skip
    t_last = round(rng.uniform(6.0, 14.0), 3)
    sends = []
    for _ in range(rng.randint(8, 24)):
        sends.append({"at": round(rng.uniform(0.0, t_last - 0.05), 3), "topic": rng.choice(topics)["name"],
                      "key": rng.choice([None, "a", "b", "c"]), "n": rng.randint(1, 3)})  # fmt: skip
    for t in topics:
        for _ in range(2 * t["partitions"]):
            sends.append({"at": round(t_last + rng.uniform(0.0, 1.0), 3), "topic": t["name"], "key": None, "n": 1})
    sends.sort(key=lambda s: s["at"])
    faults = []
    for _ in range(rng.randint(1, 6)):
        at = round(rng.uniform(0.3, t_last - 0.3), 3)
        faults.extend(_gen_fault(rng, at, t_last, nb, topics, acks0))
    faults.sort(key=lambda f: f["at"])
    return {
        # the anchor broker keeps its original (bootstrap) address and is never killed for good: a client
        # whose every known address has gone stale cannot recover by itself (update_cluster_hosts exists
        # for that) and the property does not ask it to
        "seed": rng.randrange(1 << 30), "brokers": nb, "anchor": rng.randrange(nb), "topics": topics, "preload": preload,
        "connect_delay": rng.choice([0, 0, 0.01]), "chunk": rng.random() < 0.4,
        "client": {"timeout": timeout_ms, "enable_protocol_version_discovery": rng.random() < 0.7},
        "producer": {"req_acks": 0 if acks0 else rng.choice([1, -1]), "batch_send": rng.random() < 0.5,
                     "batch_every_n": rng.choice([2, 4]), "batch_every_t": rng.choice([0.2, 0.5]),
                     "max_req_attempts": rng.randint(5, 10), "retry_interval": rng.choice([0.1, 0.25]),
                     "codec": rng.choice([None, None, 1])},
        "consumers": consumers, "sends": sends, "faults": faults, "t_last": t_last,
    }  # fmt: skip


def _gen_fault(rng, at, t_last, nb, topics, acks0):
    """-> primitive events.  Brokers are named by index (resolved modulo the broker count at run time);
    an event the cluster state does not allow when its time comes is skipped and recorded as such."""
    kind = rng.choice(ACKS0_KINDS if acks0 else FAULT_KINDS)
    b = rng.randrange(nb)
    back = round(min(t_last - 0.05, at + rng.choice([0.3, 1.0, 2.5, 4.0])), 3)
    t = rng.choice(topics)
    p = rng.randrange(t["partitions"])
    if kind == "move":
        return [{"at": at, "op": "move", "topic": t["name"], "partition": p, "to": rng.randrange(8),
                 "old": rng.choice(["not_leader", "not_leader", "unknown", "silent", "down"])}]  # fmt: skip
    if kind == "move_down":
        return [{"at": at, "op": "move", "topic": t["name"], "partition": p, "to": rng.randrange(8), "old": "down"}]
    if kind == "kill":
        if rng.random() < 0.35:
            return [{"at": at, "op": "kill", "broker": b}]
        return [{"at": at, "op": "kill", "broker": b}, {"at": back, "op": "start", "broker": b}]
    if kind == "kill_forever":
        return [{"at": at, "op": "kill", "broker": b}]
    if kind == "kill_coord":
        # the broker coordinating one of the consumers' groups dies (for good when the cluster can afford
        # it); sometimes the application then asks for a full metadata refresh
        evs = [{"at": at, "op": "kill_coord", "group": rng.choice(["g0", "g1"]), "back": back if rng.random() < 0.3 else None}]
        if rng.random() < 0.5:
            evs.append({"at": round(min(t_last - 0.02, at + rng.choice([0.2, 1.0, 2.0])), 3), "op": "full_refresh", "client": "cons"})
        return evs
    if kind == "full_refresh":
        return [{"at": at, "op": "full_refresh", "client": rng.choice(["prod", "cons"])}]
    if kind == "readdress":
        return [{"at": at, "op": "readdress", "broker": b}]
    if kind == "bounce":
        return [{"at": at, "op": "bounce", "broker": b}]
    if kind == "hide":
        return [{"at": at, "op": "hide", "broker": b}, {"at": back, "op": "unhide", "broker": b}]
    if kind == "drop":
        apis = ["Produce", "Produce", "Fetch", "Metadata", None] if acks0 else ["Produce", "Produce", "Fetch", "Fetch", "Metadata", "OffsetCommit", "OffsetFetch", None]
        return [{"at": at, "op": "drop", "how": rng.choice(["drop_before", "drop_after", "drop_mid"]),
                 "api": rng.choice(apis), "times": rng.randint(1, 2), "fraction": rng.choice([0.1, 0.5, 0.9])}]  # fmt: skip
    if kind == "silent":
        return [{"at": at, "op": "silent", "broker": b}, {"at": back, "op": "heal", "broker": b}]
    if kind == "refuse":
        return [{"at": at, "op": "mode", "broker": b, "mode": "refuse", "reset": rng.random() < 0.5},
                {"at": back, "op": "mode", "broker": b, "mode": "accept"}]  # fmt: skip
    if kind == "blackhole":
        return [{"at": at, "op": "mode", "broker": b, "mode": "blackhole", "reset": True, "connect_timeout": rng.choice([0.5, 1.0])},
                {"at": back, "op": "mode", "broker": b, "mode": "accept"}]  # fmt: skip
    if kind == "outage":
        # whole-cluster outage: EVERY broker - the bootstrap address included - refuses connections and drops the
        # established ones, until the faults stop (T_last: refusing brokers accept again).  A metadata reload that
        # is attempted meanwhile fails ENTIRELY (every known broker times out, every bootstrap host refuses) when the
        # outage is long enough; producing and consuming must still resume afterwards
        return [{"at": at, "op": "mode", "broker": i, "mode": "refuse", "reset": True} for i in range(nb)]
    if kind == "error":
        return [{"at": at, "op": "error", "api": rng.choice(["Produce", "Fetch", "Metadata", "ListOffsets", "OffsetCommit", "OffsetFetch"]),
                 "code": rng.choice([3, 5, 6, 7]), "times": rng.randint(1, 2)}]  # fmt: skip
    if kind == "topic_outage":
        # one partition loses its leader, then the metadata reports the whole topic as errored for a while
        mid = round(min(back, at + 0.4), 3)
        return [{"at": at, "op": "unlead", "topic": t["name"], "partition": p},
                {"at": mid, "op": "topic_error", "topic": t["name"], "code": rng.choice([5, 3])},
                {"at": back, "op": "topic_error", "topic": t["name"], "code": 0},
                {"at": back, "op": "relead", "topic": t["name"], "partition": p}]  # fmt: skip
    raise AssertionError(kind)


# --------------------------------------------------------------------------- execution


class Outcome(object):
    def __init__(self, scenario):
        self.scenario = scenario
        self.failures = []  # [(tag, text)]
        self.stats = collections.Counter()
        self.applied = []  # fault events as applied / skipped
        self.bounds = {}
        self.cluster = None
        self.rec = None
        self.recovery_time = None
        self.clients = {}
        self.notes = []

    def fail(self, tag, text):
        self.failures.append((tag, text))


def _value(i, j):
    return ("s%d.%d" % (i, j)).encode()


def _alive(c):
    return [b.node_id for b in c.brokers.values() if b.alive]


def _apply_fault(c, ev, out, counters):
    nb = len(c.brokers)
    node = ev.get("broker", 0) % nb + 1
    anchor = out.scenario.get("anchor", 0) % nb + 1
    op = ev["op"]
    done = True
    if op == "move":
        p = c.partition(ev["topic"], ev["partition"])
        cands = [n for n in _alive(c) if n != p.leader and c.brokers[n].in_metadata]
        if not cands or (ev["old"] == "down" and (p.leader == -1 or len(_alive(c)) <= 2 or p.leader == anchor)):
            done = False
        else:
            c.move_leader(ev["topic"], ev["partition"], cands[ev["to"] % len(cands)], old=ev["old"])
    elif op == "kill":
        forever = not _has_start(out.scenario, ev)
        if not c.brokers[node].alive or len(_alive(c)) <= 1 or (forever and (len(_alive(c)) <= 2 or node == anchor)):
            done = False
        else:
            c.kill_broker(node, elect=True)
    elif op == "kill_coord":
        node = c.coordinators.get(ev["group"])
        forever = ev.get("back") is None
        if node is None or not c.brokers[node].alive or len(_alive(c)) <= 1 or (forever and (len(_alive(c)) <= 2 or node == anchor)):
            done = False
        else:
            c.kill_broker(node, elect=True)
            if not forever:
                c.clock.callLater(max(0.0, ev["back"] - c.now()), lambda n=node: c.brokers[n].alive or c.start_broker(n))
    elif op == "full_refresh":
        # not a fault: the application asks its client for a full metadata refresh (public API)
        out.rec.watch(out.clients[ev["client"]].load_metadata_for_topics(), "full_refresh@%s" % ev["at"])
    elif op == "start":
        if c.brokers[node].alive:
            done = False
        else:
            c.start_broker(node)
    elif op == "readdress":
        if not c.brokers[node].alive or node == anchor:
            done = False
        else:
            counters["addr"] += 1
            c.restart_broker(node, host="kafka%d-r%d.sim" % (node, counters["addr"]), port=9092 + counters["addr"])
    elif op == "bounce":
        if not c.brokers[node].alive:
            done = False
        else:
            c.restart_broker(node)
    elif op == "hide":
        if len([b for b in c.brokers.values() if b.alive and b.in_metadata]) <= 1:
            done = False
        else:
            c.remove_from_metadata(node)
    elif op == "unhide":
        c.restore_to_metadata(node)
    elif op == "drop":
        c.inject(ev["how"], api=ev["api"], times=ev["times"], fraction=ev["fraction"])
    elif op == "error":
        c.inject("error", api=ev["api"], code=ev["code"], times=ev["times"])
    elif op == "silent":
        c.brokers[node].silent = True
    elif op == "heal":
        c.heal_silence(node)
    elif op == "mode":
        b = c.brokers[node]
        b.mode = ev["mode"]
        if ev.get("connect_timeout") is not None:
            b.connect_timeout = ev["connect_timeout"]
        if ev.get("reset") and b.alive:
            for bc in list(b.conns):
                c._close(bc)
    elif op == "unlead":
        p = c.partition(ev["topic"], ev["partition"])
        if p.leader == -1:
            done = False
        else:
            c.move_leader(ev["topic"], ev["partition"], -1, old="not_leader")
    elif op == "relead":
        p = c.partition(ev["topic"], ev["partition"])
        if p.leader == -1:
            cands = [n for n in _alive(c) if c.brokers[n].in_metadata] or _alive(c)
            c.move_leader(ev["topic"], ev["partition"], cands[0])
        else:
            done = False
    elif op == "topic_error":
        c.topics[ev["topic"]].error = ev["code"]
    else:
        raise ValueError(op)
    out.applied.append(dict(ev, applied=done))
    out.stats["fault:" + op + ("" if done else ":skipped")] += 1
    return done


def _has_start(sc, kill_ev):
    return any(f["op"] == "start" and f["broker"] == kill_ev["broker"] and f["at"] >= kill_ev["at"] for f in sc["faults"])


def _stabilise(c):
    c.clear_faults()
    for b in c.brokers.values():
        if b.silent:
            c.heal_silence(b.node_id)
        b.mode = "accept"
        if not b.in_metadata:
            c.restore_to_metadata(b.node_id)
    for t in c.topics.values():
        t.error = 0
        for p in t.partitions.values():
            if p.leader == -1 or not c.brokers[p.leader].alive:
                c.move_leader(t.name, p.id, _alive(c)[0])
    c._admin("stabilised")


def bounds_of(sc, producer, client, consumers):
    T = client.timeout
    D = RECONNECT["maxDelay"] + JITTER
    n = sc["brokers"]
    M = (n + n) * T + D
    A = producer._max_attempts
    r0, f = producer._init_retry_interval, producer.RETRY_INTERVAL_FACTOR
    batch = A * (M + T) + sum(r0 * f**k for k in range(A))
    W = max([c.fetch_max_wait_time for c in consumers] or [0]) / 1000.0
    Rmax = max([c.retry_max_delay for c in consumers] or [0.0])
    B_p = 2 * batch + (producer.batch_every_t or 0) + 3 * M
    B_c = 3 * (T + Rmax + M) + W
    B_k = 3 * (T + Rmax + 2 * M)
    return dict(T=T, D=D, M=M, A=A, r0=r0, f=f, batch=batch, W=W, Rmax=Rmax, B_p=B_p, B_c=B_c, B_k=B_k, B=B_p + B_c + B_k)


def execute(sc, keep=True):
    """Run one scenario and evaluate the monitors.  -> Outcome"""
    from twisted.application.internet import backoffPolicy

    out = Outcome(sc)
    rng = random.Random(sc["seed"])
    c = Cluster(brokers=sc["brokers"], rng=rng, connect_delay=sc["connect_delay"],
                chunk_rng=random.Random(sc["seed"] + 1) if sc["chunk"] else None)  # fmt: skip
    all_nodes = list(c.brokers)
    for t in sc["topics"]:
        c.add_topic(t["name"], partitions=t["partitions"], leaders=t["leaders"], replicas=[list(all_nodes)] * t["partitions"])
    for pl in sc["preload"]:
        c.append(pl["topic"], pl["partition"], [("pre%d" % i).encode() for i in range(pl["n"])], magic=pl["magic"], codec=pl["codec"])
    rec = Recorder(c)
    out.cluster, out.rec = c, rec
    acks0 = sc["producer"]["req_acks"] == 0
    last_delivered = {}
    sends = []  # [{"i", "at", "topic", "values", "d"}]
    counters = collections.Counter()

    def tracker(name):
        def behaviour(consumer, msgs, ev):
            last_delivered[name] = msgs[-1].offset
            return None

        return behaviour

    def policy():
        return backoffPolicy(jitter=lambda: rng.random() * JITTER, **RECONNECT)

    try:
        with Determinism(c, sc["seed"]):
            pc = make_client(c, clientId="prod", retry_policy=policy(), **sc["client"])
            cc = make_client(c, clientId="cons", retry_policy=policy(), **sc["client"])
            out.clients = {"prod": pc, "cons": cc}
            prod = make_producer(pc, **sc["producer"])
            cons = {}
            for cs in sc["consumers"]:
                kw = dict(fetch_max_wait_time=cs["fetch_max_wait_time"], fetch_size_bytes=cs["fetch_size_bytes"],
                          buffer_size=cs["buffer_size"], request_retry_init_delay=0.1, request_retry_max_delay=CONSUMER_RMAX)  # fmt: skip
                if cs["group"]:
                    kw.update(consumer_group=cs["group"], auto_commit_every_n=1, auto_commit_every_ms=0)
                cons[cs["name"]] = make_consumer(cc, cs["topic"], cs["partition"], rec, name=cs["name"], behaviour=tracker(cs["name"]), **kw)
            out.bounds = bd = bounds_of(sc, prod, pc, list(cons.values()))
            for cs in sc["consumers"]:
                start = {"earliest": -2, "committed": -101}.get(cs["start"], cs["start"])
                rec.call("start:" + cs["name"], cons[cs["name"]].start, start)

            def do_send(i, s):
                values = [_value(i, j) for j in range(s["n"])]
                key = s["key"].encode() if s["key"] is not None else None
                d = prod.send_messages(s["topic"], key=key, msgs=values)
                item = {"i": i, "at": c.now(), "topic": s["topic"], "values": values, "d": d, "label": "s%d" % i}
                sends.append(item)
                rec.watch(d, item["label"])

            t_last = sc["t_last"]
            events = [(s["at"], 1, i, ("send", s)) for i, s in enumerate(sc["sends"]) if s["at"] < t_last]
            events += [(f["at"], 0, i, ("fault", f)) for i, f in enumerate(sc["faults"])]
            events.sort(key=lambda e: e[:3])
            for at, _, i, (what, ev) in events:
                if at > c.now():
                    c.advance(at - c.now())
                if what == "send":
                    do_send(i, ev)
                else:
                    _apply_fault(c, ev, out, counters)
                c.settle()
            # ---- T_last
            if t_last > c.now():
                c.advance(t_last - c.now())
            _stabilise(c)
            marker1 = {}
            for t in c.topics.values():
                for p in t.partitions.values():
                    marker1[(t.name, p.id)] = c.append(t.name, p.id, [b"marker1"])[0]
            c.settle()
            t_stable = c.now()
            for i, s in enumerate(sc["sends"]):
                if s["at"] >= t_last:
                    if s["at"] > c.now():
                        c.advance(s["at"] - c.now())
                    do_send(i, s)
                    c.settle()

            def log_end(name):
                cs = by_name[name]
                return c.log_of(cs["topic"], cs["partition"]).entries[-1].last

            by_name = {cs["name"]: cs for cs in sc["consumers"]}

            def caught_up():
                if any(not s["d"].called for s in sends):
                    return False
                for name, cs in by_name.items():
                    end = log_end(name)
                    if last_delivered.get(name) != end:
                        return False
                    if cs["group"] and c.committed(cs["group"], cs["topic"], cs["partition"]) != end:
                        return False
                return True

            recovered = c.run_until(caught_up, timeout=max(0.0, t_stable + bd["B"] - c.now()))
            out.recovery_time = c.now() - t_stable
            t_recovered = c.now()
            # ---- grace, then the probe
            c.advance(bd["D"] + bd["W"] + 0.05)
            H = c.now()
            H_n = c._seq
            for t in c.topics.values():
                for p in t.partitions.values():
                    c.append(t.name, p.id, [b"marker2"])
            n0 = len(sc["sends"])
            probe = []
            for t in sc["topics"]:
                for k in range(2 * t["partitions"]):
                    probe.append({"at": H, "topic": t["name"], "key": None, "n": 1})
            for k, s in enumerate(probe):
                do_send(n0 + k, s)
            c.settle()
            probed = c.run_until(caught_up, timeout=bd["B"] if recovered else bd["T"])
            t_end = c.now()
            # ---- monitors on the live objects, then shut everything down
            _monitors(out, sc, c, rec, sends, by_name, last_delivered, marker1, bd, t_stable, t_recovered, H, H_n,
                      recovered, probed, acks0, cons)  # fmt: skip
            for name, co in cons.items():
                if co._start_d is not None:
                    rec.call("stop:" + name, co.stop)
            rec.call("stop:producer", prod.stop)
            c.settle()
            rec.call("close:prod", pc.close)
            rec.call("close:cons", cc.close)
            c.advance(1.0)
            out.stats["virtual_seconds"] = int(t_end)
    except Livelock as e:
        out.fail("e2e-recovery-livelock", "no quiescence at one virtual instant: %s" % e)
    out.stats["requests"] = len(c.requests())
    if not keep:
        out.cluster = out.rec = None
    return out


# --------------------------------------------------------------------------- monitors


def _lost_ack(entry, item, T):
    """Did the client have reason to send the payload of this append again?"""
    if entry["fate"] != "answered":
        return True
    if item["error"] != 0:
        return True
    if entry["t_sent"] - entry["t"] >= T - 1e-9:
        return True
    return False


def _monitors(out, sc, c, rec, sends, by_name, last_delivered, marker1, bd, t_stable, t_recovered, H, H_n,
              recovered, probed, acks0, cons):  # fmt: skip
    T, B = bd["T"], bd["B"]
    logs = {(t.name, p.id): p.log.messages() for t in c.topics.values() for p in t.partitions.values()}
    where = collections.defaultdict(list)  # value -> [(topic, partition, offset)]
    for (tn, pid), ms in logs.items():
        for off, k, v, ts, magic in ms:
            where[v].append((tn, pid, off))
    appends = collections.defaultdict(list)  # value -> [(entry, applied item)] in append order
    for e in c.requests("Produce"):
        for item in e["applied"]:
            if item.get("op") == "append":
                for off, k, v in item["messages"]:
                    appends[v].append((e, item))
    outcomes = {e["label"]: e for e in rec.events if e["kind"] == "deferred"}

    # (a) resume + nothing pending
    for s in sends:
        o = outcomes.get(s["label"])
        if o is None:
            out.fail("e2e-recovery-send-pending", "send %s (issued t=%.3f, topic %s) has not fired at t=%.3f (T_last %.3f, bound B=%.1f)" % (s["label"], s["at"], s["topic"], c.now(), t_stable, B))
            continue
        lat = o["t"] - s["at"]
        if s["at"] >= t_stable:
            out.stats["tail_send"] += 1
            if not o["ok"]:
                out.fail("e2e-recovery-resume-send", "send %s issued at t=%.3f, AFTER the last fault (T_last %.3f), failed with %r after %.2fs" % (s["label"], s["at"], t_stable, o["result"], lat))
            elif lat > bd["B_p"]:
                out.fail("e2e-recovery-resume-send", "send %s issued after T_last took %.2fs, bound B_p=%.1f" % (s["label"], lat, bd["B_p"]))
            out.stats["tail_latency_max_ds"] = max(out.stats["tail_latency_max_ds"], int(lat * 10))
        else:
            out.stats["early_send_ok" if o["ok"] else "early_send_failed"] += 1
        # (b) truthfulness
        if o["ok"]:
            if acks0:
                if s["at"] >= t_stable:
                    for v in s["values"]:
                        if not where.get(v):
                            out.fail("e2e-recovery-acked-absent", "acks=0 send %s issued at t=%.3f (after T_last %.3f): message %r reached no log by t=%.3f" % (s["label"], s["at"], t_stable, v, c.now()))
                continue
            r = o["result"]
            if not (isinstance(r, tuple) and r[0] == "ProduceResponse" and r[3] == 0):
                out.fail("e2e-recovery-acked-absent", "send %s succeeded with %r, which is not an error-free ProduceResponse" % (s["label"], r))
                continue
            _, tn, pid, _, base = r
            for v in s["values"]:
                hits = [x for x in where.get(v, []) if x[0] == tn and x[1] == pid and x[2] >= base]
                if not hits:
                    out.fail("e2e-recovery-acked-absent", "send %s acknowledged as %s/%d@%d but message %r is at %s" % (s["label"], tn, pid, base, v, where.get(v, [])))
    for v, places in where.items():
        if len(places) > 1 and v not in (b"marker1", b"marker2") and not v.startswith(b"pre"):
            aps = appends.get(v, [])
            unexplained = [(e, it) for e, it in aps[:-1] if not _lost_ack(e, it, T)]
            if unexplained or len(aps) != len(places):
                e, it = (unexplained or aps)[0]
                out.fail("e2e-recovery-dup-without-retry", "message %r is in the logs %d times %s; its append at t=%.3f (broker %d, corr %d) was answered in time with error 0 at t=%s - nothing was lost, yet it was sent again" % (v, len(places), places, e["t"], e["broker"], e["corr"], e["t_sent"]))
            else:
                out.stats["dup-after-lost-ack"] += len(places) - 1

    # (c) consumers
    for name, cs in by_name.items():
        truth = logs[(cs["topic"], cs["partition"])]
        start = 0 if cs["start"] in ("earliest", "committed") else cs["start"]
        want = [(m[0], m[1], m[2]) for m in truth if m[0] >= start]
        got = [(o, k, v) for _, _, o, k, v in rec.delivered(name)]
        if got != want[: len(got)]:
            i = next((j for j, (a, b) in enumerate(zip(got, want)) if a != b), min(len(got), len(want)))
            out.fail("e2e-recovery-consumer-stream", "consumer %s (%s/%d from %r): delivered stream departs from the log at position %d: got %r, log has %r" % (name, cs["topic"], cs["partition"], cs["start"], i, got[i:i + 3], want[i:i + 3]))
        elif len(got) < len(want):
            died = outcomes.get("start:" + name)
            if died is not None:
                out.fail("e2e-recovery-consumer-stream", "consumer %s stopped by itself at t=%.3f: start() fired %r; it had delivered up to offset %s, log end %s" % (name, died["t"], died["result"], got[-1][0] if got else None, want[-1][0]))
            else:
                out.fail("e2e-recovery-consumer-lag", "consumer %s (%s/%d) delivered up to offset %s, the log ends at %s, %.1fs after T_last (bound B=%.1f)" % (name, cs["topic"], cs["partition"], got[-1][0] if got else None, want[-1][0], c.now() - t_stable, B))
        if cs["group"] and len(got) == len(want) and want:
            stored = c.committed(cs["group"], cs["topic"], cs["partition"])
            if stored != want[-1][0]:
                out.fail("e2e-recovery-commit-lag", "consumer %s group %s: stored offset %r, last processed %r, %.1fs after T_last (bound B=%.1f); coordinator is broker %s" % (name, cs["group"], stored, want[-1][0], c.now() - t_stable, B, c.coordinator_of(cs["group"])))

    # (d) routing from H on
    stale = collections.Counter()
    first_stale = {}
    for e in c.requests():
        if e["n"] <= H_n or e["api"] not in ("Produce", "Fetch", "ListOffsets") or e["request"] is None:
            continue
        for t in e["request"]["topics"]:
            for p in t["partitions"]:
                leader = c.leader_of(t["topic"], p["partition"])
                if e["broker"] != leader:
                    key = (e["client_id"], t["topic"], p["partition"])
                    stale[key] += 1
                    first_stale.setdefault(key, e)
    for key, k in stale.items():
        out.stats["stale_after_probe"] += k
        if k > 1:
            e = first_stale[key]
            out.fail("e2e-recovery-stale-route", "client %s: %d %s/%d requests went to a broker that does not lead it after the probe started at t=%.3f (first: %s to broker %d at t=%.3f, leader is %d)" % (key[0], k, key[1], key[2], H, e["api"], e["broker"], e["t"], c.leader_of(key[1], key[2])))
    current = {(b.host, b.port) for b in c.brokers.values()}
    stale_conn = collections.defaultdict(list)
    for e in c.log:
        if e["kind"] == "connect" and e["n"] > H_n and (e["host"], e["port"]) not in current:
            stale_conn[(e["host"], e["port"])].append(e["t"])
    for addr, ts in stale_conn.items():
        out.stats["stale_connects_after_probe"] += len(ts)
        if ts[-1] - ts[0] > T + bd["D"] + 1e-6:
            out.fail("e2e-recovery-stale-address", "%d connection attempts to %s:%d, an address no broker has any more, between t=%.3f and t=%.3f (probe started at %.3f; allowed: T+D=%.2fs after the first)" % (len(ts), addr[0], addr[1], ts[0], ts[-1], H, T + bd["D"]))

    # mirror of an errored topic
    conn_open = {}
    for e in c.log:
        if e["kind"] == "connect" and e.get("conn") is not None:
            conn_open[e["conn"]] = e["t"]
    errored = {}  # (client, topic) -> metadata entry that reported it errored without partitions
    events = []
    for e in c.requests():
        if e["api"] == "Metadata" and e["fate"] == "answered" and e["response"] is not None:
            events.append((e["n_sent"], "md", e))
        if e["api"] in ("Produce", "Fetch", "ListOffsets") and e["request"] is not None:
            events.append((e["n"], "rq", e))
    events.sort(key=lambda x: x[0])
    for _, kind, e in events:
        if kind == "md":
            for t in e["response"]["topics"]:
                k = (e["client_id"], t["topic"])
                if t["error_code"] != 0 and not t["partitions"]:
                    errored.setdefault(k, e)
                elif t["partitions"]:
                    errored.pop(k, None)
        else:
            for t in e["request"]["topics"]:
                md = errored.get((e["client_id"], t["topic"]))
                if md is not None and e["t"] > md["t_sent"] and conn_open.get(e["conn"], 1e18) < md["t_sent"]:
                    out.fail("e2e-recovery-errored-topic", "client %s was told at t=%.3f (Metadata corr %d) that topic %s is errored with no partitions, and at t=%.3f sent %s for it to broker %d (corr %d) without a newer metadata answer listing partitions" % (e["client_id"], md["t_sent"], md["corr"], t["topic"], e["t"], e["api"], e["broker"], e["corr"]))
                    errored.pop((e["client_id"], t["topic"]), None)
    out.stats["recovered"] += int(bool(recovered))
    out.stats["probed"] += int(bool(probed))


# --------------------------------------------------------------------------- harness entry points


def _nontrivial(out):
    """The scenario made the clients RECOVER from something: a fault was applied and stale state was hit."""
    if not any(a["applied"] for a in out.applied):
        return False
    c = out.cluster
    hit = 0
    for e in c.requests():
        if e["fate"] in ("dropped-before", "dropped-after", "dropped-mid", "silent", "conn-closed", "never-served"):
            hit += 1
        for it in e["applied"]:
            if it.get("error") in (3, 5, 6):
                hit += 1
    hit += sum(1 for e in c.log if e["kind"] == "connect" and e["result"] in ("refused", "blackholed"))
    return hit > 0


def summary(sc):
    return {"brokers": sc["brokers"], "topics": [(t["name"], t["partitions"]) for t in sc["topics"]],
            "acks": sc["producer"]["req_acks"], "batch": sc["producer"]["batch_send"], "consumers": len(sc["consumers"]),
            "sends": len(sc["sends"]), "faults": [f["op"] for f in sc["faults"]], "t_last": sc["t_last"]}  # fmt: skip


def run(ctx, res, n):
    """n random scenarios (about one in seven with acks=0).  Everything derives from ctx.rng."""
    logging.getLogger("afkak").setLevel(logging.CRITICAL)
    worst = 0.0
    for _ in range(n):
        sc = gen_scenario(ctx.rng, acks0=ctx.rng.random() < 0.15)
        sc = json.loads(json.dumps(sc))  # what is stored in a failure is exactly what ran
        out = execute(sc)
        res.evaluations += 1
        res.traces_validated += 1
        if _nontrivial(out):
            res.nontrivial(sc)
        res.sample(summary(sc))
        res.count("e2e.scenarios")
        res.count("e2e.acks=%s" % sc["producer"]["req_acks"])
        for k, v in out.stats.items():
            if k == "tail_latency_max_ds":
                continue
            res.count("e2e." + k, v)
        if out.recovery_time is not None:
            worst = max(worst, out.recovery_time)
            res.count("e2e.recovery<=%s" % next((b for b in (1, 2, 5, 10, 20, 50, 100) if out.recovery_time <= b), ">100"))
        seen = set()
        for tag, text in out.failures:
            if tag in seen:
                continue
            seen.add(tag)
            res.monitor_failures.append({"what": "%s (bounds: %s)" % (text, _fmt_bounds(out.bounds)), "scenario": sc,
                                         "tags": [tag], "stage": "e2e_recovery",
                                         "also": [t for t, _ in out.failures if t != tag][:5]})  # fmt: skip
    res.extra["e2e_recovery"] = {"scenarios": n, "worst_recovery_virtual_s": round(worst, 3),
                                 "bound_formula": "B = B_p + B_c + B_k, see harness/lib/e2e_recovery.py"}  # fmt: skip
    rule = ("e2e recovery: random cluster (2-4 brokers, 1-3 topics x 1-4 partitions), real Producer + 2-5 real Consumers, "
            "1-6 random faults before T_last; non-trivial = a fault was applied and the clients hit stale state "
            "(NotLeader/Unknown/LeaderNotAvailable answer, lost answer, refused or black-holed connect)")  # fmt: skip
    res.rule = (res.rule + " | " + rule) if res.rule else rule


def _fmt_bounds(b):
    return ", ".join("%s=%.2f" % (k, b[k]) for k in ("T", "D", "M", "B_p", "B_c", "B_k", "B") if k in b)


def replay(ctx, scenario, verbose=True):
    """Re-run one scenario (the "scenario" of a stored failure).  Prints the story; -> 0 clean, 1 failing."""
    logging.getLogger("afkak").setLevel(logging.CRITICAL)
    out = execute(scenario)
    if verbose:
        print("scenario:", json.dumps(summary(scenario)))
        print("bounds:", _fmt_bounds(out.bounds), " recovery took %.3fs" % (out.recovery_time or -1))
        for a in out.applied:
            print("  fault t=%-7s %s%s" % (a["at"], {k: v for k, v in a.items() if k not in ("at", "applied")}, "" if a["applied"] else "  (skipped)"))
        c = out.cluster
        for e in c.log:
            if e["kind"] == "admin":
                print("  admin t=%.3f %s" % (e["t"], {k: v for k, v in e.items() if k not in ("kind", "t", "n")}))
        for e in out.rec.events:
            if e["kind"] in ("deferred", "raised"):
                print("  client t=%.3f %s -> %s %r" % (e["t"], e["label"], "ok" if e.get("ok") else "FAIL", e.get("result", e.get("exc"))))
        print("  stats:", dict(out.stats))
    for tag, text in out.failures:
        print("MONITOR %s: %s" % (tag, text))
    if not out.failures:
        print("all e2e-recovery monitors hold")
    return 1 if out.failures else 0


if __name__ == "__main__":
    import sys
    import time

    from harness import core

    if core.REPO not in sys.path:
        sys.path.insert(0, core.REPO)
    logging.disable(logging.CRITICAL)
    from twisted.logger import globalLogBeginner

    globalLogBeginner.beginLoggingTo([lambda ev: None], redirectStandardIO=False, discardBuffer=True)
    if len(sys.argv) > 2 and sys.argv[1] == "--replay":
        data = json.load(open(sys.argv[2]))
        sys.exit(replay(None, data.get("scenario", data)))
    n = int(sys.argv[1]) if len(sys.argv) > 1 else 25
    seed = int(sys.argv[2]) if len(sys.argv) > 2 else 0
    ctx = core.Ctx("C08", "quick", seed)
    res = core.Result()
    t0 = time.time()
    run(ctx, res, n)
    ctx.cleanup()
    print("e2e_recovery: %d scenarios, %d non-trivial, %d failures, %.1fs" % (res.evaluations, len(res.distinct), len(res.monitor_failures), time.time() - t0))
    print(json.dumps(dict(sorted(res.hist.items())), indent=None))
    for f in res.monitor_failures[:10]:
        print("FAIL", f["tags"], f["what"][:600])
    if res.monitor_failures and len(sys.argv) > 3:
        json.dump(res.monitor_failures[0], open(sys.argv[3], "w"), default=str)
    sys.exit(1 if res.monitor_failures else 0)
