"""Scenario generation for the brokerclient package (C06, C10).

A scenario is a header `(host, port, [policy rationals as strings])` and a list of event lines in the
model's line protocol.  Generation is ONLINE: the generator plays the broker and the network against the
real object (`BCRun`) while it chooses events, so that replies answer frames that were really written and
the byte stream is cut where the scenario says.  Every choice comes from the `rng` passed in.  The event
list alone replays the scenario exactly (bytes are literal), which is what ddmin and replay files use.
"""
import struct
from fractions import Fraction

from harness.lib.brokerclient_drive import BCRun, hx, show_rat

SPECIAL_IDS = [0, -1, 2147483647, -2147483648, 4294967295, 2147483648]


def reply_frame(frame, rng, body=None):
    """correlation id + nonce of the request frame being answered + a few bytes; sometimes the SHORTEST legal
    responses: the correlation id alone (a header-only response, empty API body) or the id followed by fewer bytes
    than the nonce (the routing monitor then has no echo to go by; the core monitor still demands the firing)"""
    if body is None:
        m = rng.random()
        if m < 0.07:
            return frame[4:8]
        if m < 0.12:
            return frame[4:8] + bytes(rng.randrange(256) for _ in range(rng.randrange(1, 8)))
        body = bytes(rng.randrange(256) for _ in range(rng.choice([0, 0, 1, 3, 9])))
    return frame[4:8] + frame[8:16] + body


def lenpfx(b):
    return struct.pack(">I", len(b)) + b


PROFILES = {
    # weights of: make cancel reply dup unsol short oversize deliver lost disconnect close meta wfail connOk connFail advance
    "replies": dict(make=8, cancel=4, reply=12, dup=2, unsol=2, short=0.3, oversize=0.4, deliver=14, lost=1.5, disconnect=0.7, close=0.15, meta=0.3, wfail=0.15, connOk=8, connFail=1, advance=2),
    "drops": dict(make=7, cancel=3, reply=5, dup=0.5, unsol=0.5, short=0.3, oversize=0.4, deliver=6, lost=6, disconnect=2, close=0.25, meta=1, wfail=0.2, connOk=4, connFail=4, advance=5),
    "connect": dict(make=5, cancel=2, reply=2, dup=0.2, unsol=0.2, short=0.1, oversize=0.1, deliver=3, lost=3, disconnect=1, close=0.3, meta=2, wfail=0.1, connOk=2, connFail=7, advance=8),
    "close": dict(make=8, cancel=3, reply=3, dup=0.3, unsol=0.3, short=0.1, oversize=0.2, deliver=4, lost=3, disconnect=1.5, close=1.2, meta=0.5, wfail=0.1, connOk=5, connFail=3, advance=4),
}


def policy_value(rng):
    """One delay of the scripted retry policy, in 1/8 s: mostly short (fast scenarios), but every magnitude a
    configured policy can ask for occurs - around the usual caps (15 s, 30 s, 60 s) and far beyond - so that a
    delay which the code clamps, rounds or otherwise overrides is seen (the model calls the policy verbatim)."""
    m = rng.random()
    if m < 0.72:
        return Fraction(rng.choice([0, 1, 1, 2, 3, 4, 8, 12, 20]), 8)
    if m < 0.9:
        return Fraction(rng.choice([40, 80, 119, 120, 121, 128, 160, 239, 240, 241, 479, 480]), 8)
    return Fraction(rng.choice([481, 800, 4800, 28800, 8 * 86400, 8 * 86400 * 365, 8 * 10 ** 9 + 1]), 8)


def gen_header(rng):
    n = rng.randrange(0, 5)
    pol = [show_rat(policy_value(rng)) for _ in range(n)] or ["1/2"]
    return (rng.randrange(1, 4), rng.choice([9092, 9093, 1234]), pol)


class Online(object):
    """Plays broker + network against a BCRun while choosing events."""

    def __init__(self, rng, header, profile, nids, maxlen):
        self.rng, self.header, self.w = rng, header, dict(PROFILES[profile])
        self.run = BCRun(*header)
        self.events, self.obs = [], []
        pool = list(range(1, nids + 1))
        if rng.random() < 0.25:
            pool[rng.randrange(len(pool))] = rng.choice(SPECIAL_IDS)
        if rng.random() < 0.1:
            pool += [4294967295, -1]  # equal modulo 2^32: the same bytes on the wire
        self.pool = pool
        self.maxlen = maxlen
        self.sbuf = b""  # bytes the broker has queued for the client on the current connection
        self.seen = 0  # frames of the current connection already considered
        self.unanswered, self.answered = [], []
        self.conn_id = None
        self.made = []  # ids handed to make so far
        self.hook_rate = rng.choice([0.0, 0.0, 0.1, 0.25, 0.5])
        self.sync_rate = rng.choice([0.0, 0.0, 0.0, 0.15, 0.4])  # endpoints that answer connect() synchronously

    def emit(self, line):
        ob = self.run.ex(line)
        self.events.append(line)
        self.obs.append(ob)
        cur = self.run.cur
        if cur is None or cur.cid != self.conn_id:
            self.conn_id = cur.cid if cur is not None else None
            self.sbuf, self.seen, self.unanswered, self.answered = b"", 0, [], []
        if cur is not None:
            fr = cur.frames
            self.unanswered += fr[self.seen:]
            self.seen = len(fr)
        return ob

    def choices(self):
        r, w = self.run, self.w
        c = []
        live = sum(1 for d in r.defs.values() if not d.called)
        c.append(("make", w["make"] * (1.0 if live < 3 else 0.4)))
        if self.made:
            c.append(("cancel", w["cancel"]))
        if r.attempt_pending():
            c += [("connOk", w["connOk"]), ("connFail", w["connFail"])]
        c.append(("advance", w["advance"] * (3 if r.timer_due() is not None else 0.3)))
        if r.readable():
            if self.unanswered:
                c.append(("reply", w["reply"]))
            if self.answered:
                c.append(("dup", w["dup"]))
            c += [("unsol", w["unsol"]), ("short", w["short"]), ("oversize", w["oversize"])]
            if self.sbuf:
                c.append(("deliver", w["deliver"] * 2))
        if r.connected():
            c.append(("lost", w["lost"]))
        c += [("disconnect", w["disconnect"]), ("close", w["close"]), ("meta", w["meta"]), ("wfail", w["wfail"])]
        c.append(("stubborn", 0.25 if (r.attempt_pending() or r.world.net.stubborn) else 0.04))
        c.append(("sync", self.sync_rate * (3.0 if r.sync != "none" else 1.0)))
        # what the endpoint's Deferred fails with when close() cancels a pending attempt
        c.append(("ckind", 0.5 if r.attempt_pending() else 0.05))
        # rarely: an event the state does not enable (both sides must call it a no-op)
        c += [("connOk", 0.05), ("lost", 0.05), ("rawbytes", 0.05)]
        return c

    def pick(self):
        c = self.choices()
        x = self.rng.random() * sum(wt for _, wt in c)
        for k, wt in c:
            x -= wt
            if x <= 0:
                return k
        return c[-1][0]

    def step(self):
        rng, r = self.rng, self.run
        k = self.pick()
        if k == "make":
            cid = rng.choice(self.pool)
            if rng.random() < 0.7:  # prefer an id with no unfired Deferred (else mostly DuplicateRequestError)
                free = [i for i in self.pool if i not in r.defs or r.defs[i].called]
                if free:
                    cid = rng.choice(free)
            self.made.append(cid)
            hook = ""
            if rng.random() < self.hook_rate:
                # the caller's callback on this Deferred calls back into the broker client
                acts = []
                for _ in range(rng.choice([1, 1, 1, 2, 3])):
                    m = rng.random()
                    if m < 0.12:
                        acts.append("close")
                    elif m < 0.3:
                        acts.append("disconnect")
                    elif m < 0.65:
                        acts.append("cancel %d" % rng.choice(self.pool))
                    else:
                        acts.append("make %d %d" % (rng.choice(self.pool + [rng.randrange(20, 30)]), 0 if rng.random() < 0.15 else 1))
                hook = " hook " + " ; ".join(acts)
            # a request that expects no reply fires while the queue is written: the interesting place for a callback
            p_noreply = 0.35 if (hook and not r.connected()) else 0.12
            self.emit("make %d %d%s" % (cid, 0 if rng.random() < p_noreply else 1, hook))
        elif k == "cancel":
            cid = rng.choice(self.made[-6:]) if rng.random() < 0.85 else rng.choice(self.pool)
            self.emit("cancel %d" % cid)
        elif k == "lost":
            # the reason connectionLost() is called with: ConnectionDone, ConnectionLost, anything else
            self.emit(rng.choice(["lost", "lost", "lost lost", "lost lost", "lost other"]))
        elif k in ("connOk", "connFail", "disconnect", "close"):
            self.emit(k)
        elif k == "advance":
            due = r.timer_due()
            if due is not None and rng.random() < 0.8:
                rem = Fraction(due) - Fraction(r.now())
                m = rng.random()
                dt = rem if m < 0.5 else (rem / 2 if m < 0.7 else (rem + Fraction(rng.randrange(1, 9), 8) if m < 0.85 else Fraction(rng.randrange(0, 5), 8)))
            else:
                dt = Fraction(rng.randrange(0, 17), 8)
            self.emit("advance %s" % show_rat(dt))
        elif k == "reply":
            # Kafka answers in order; we answer in ANY order
            i = 0 if rng.random() < 0.4 else rng.randrange(len(self.unanswered))
            f = self.unanswered.pop(i)
            self.answered.append(f)
            self.sbuf += lenpfx(reply_frame(f, rng))
        elif k == "dup":
            self.sbuf += lenpfx(reply_frame(rng.choice(self.answered), rng))
        elif k == "unsol":
            cid = rng.choice(self.pool + SPECIAL_IDS + [77])
            tail = b"" if rng.random() < 0.1 else b"\xee" * 8 + bytes(rng.randrange(256) for _ in range(rng.randrange(0, 4)))
            self.sbuf += lenpfx(struct.pack(">I", cid & 0xFFFFFFFF) + tail)
        elif k == "short":
            self.sbuf += lenpfx(bytes(rng.randrange(256) for _ in range(rng.randrange(0, 4))))
        elif k == "oversize":
            self.sbuf += struct.pack(">I", rng.choice([0x80000000, 0xFFFFFFFF, rng.randrange(0x80000000, 0x100000000)])) + bytes(rng.randrange(256) for _ in range(rng.randrange(0, 6)))
        elif k == "deliver":
            n = len(self.sbuf)
            m = rng.random()
            if m < 0.35:
                cut = n
            elif m < 0.5:
                cut = 1
            elif m < 0.65:
                cut = min(n, rng.choice([2, 3, 4, 5, 8]))
            else:
                cut = rng.randrange(1, n + 1)
            data, self.sbuf = self.sbuf[:cut], self.sbuf[cut:]
            self.emit("bytes %s" % hx(data))
        elif k == "rawbytes":
            self.emit("bytes %s" % hx(bytes(rng.randrange(256) for _ in range(rng.randrange(1, 9)))))
        elif k == "meta":
            self.emit("meta %d %d" % (rng.randrange(1, 4), rng.choice([9092, 9093, 1234])))
        elif k == "stubborn":
            self.emit("stubborn %d" % (0 if r.world.net.stubborn else 1))
            if r.world.net.stubborn and r.attempt_pending() and rng.random() < 0.7:
                self.emit("close")  # the case the switch exists for: close() while the attempt is pending
        elif k == "ckind":
            self.emit("ckind %s" % rng.choice([x for x in ("cancelled", "connecting", "other") if x != r.world.net.cancel_kind]))
            if r.attempt_pending() and rng.random() < 0.6:
                self.emit("close")  # the case the switch exists for: close() while the attempt is pending
        elif k == "sync":
            # a synchronously failing endpoint with a zero retry delay is a busy loop (the timer re-arms itself for
            # the current instant for ever, in Twisted's Clock as in a reactor): not generated
            modes = ("none", "ok") if any(Fraction(p) <= 0 for p in self.header[2]) else ("none", "ok", "fail")
            self.emit("sync %s" % rng.choice([m for m in modes if m != r.sync] or ["none"]))
        elif k == "wfail":
            self.emit("wfail %d" % (0 if r.wfail else 1))
            if r.wfail:
                self.w["wfail"] = 3.0  # switch it off again soon
            else:
                self.w["wfail"] = PROFILES["replies"]["wfail"]

    def generate(self):
        guard = 0
        after_close = 0
        if self.rng.random() < 0.35:  # an endpoint kind for the whole scenario (real Twisted endpoints: "connecting")
            self.emit("ckind %s" % self.rng.choice(["connecting", "connecting", "other"]))
        while len(self.events) < self.maxlen and guard < self.maxlen * 6 and after_close < 4:
            guard += 1
            self.step()
            if self.run.close_called:
                after_close += 1
        # flush what the broker still has queued, so that replies are not systematically lost at the end
        if self.run.readable() and self.sbuf and self.rng.random() < 0.7:
            self.emit("bytes %s" % hx(self.sbuf))
            self.sbuf = b""
        return self.header, self.events, self.obs, self.run


def gen_scenario(rng, profile=None, maxlen=None):
    profile = profile or rng.choice(["replies", "replies", "drops", "drops", "connect", "close"])
    header = gen_header(rng)
    nids = rng.choice([1, 2, 2, 3, 4, 6])
    maxlen = maxlen or rng.choice([6, 12, 20, 30, 45])
    return Online(rng, header, profile, nids, maxlen).generate()


def header_line(header):
    return "bc-new %d %d %s" % (header[0], header[1], ",".join(header[2]) if header[2] else "-")
