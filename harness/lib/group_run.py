"""Correspondence + monitors for the group component, shared by props/c16.py and props/c17.py."""
import glob
import json
import multiprocessing
import os
import random
from fractions import Fraction

from harness import core
from harness.lib import group_scen as S
from harness.lib.group_fakeclient import GroupWorld, show_frac

KNOWN_JOIN_DURING_STOP = "join-while-stop-drain-pending"
KNOWN_NONKAFKA_ESCAPE = "F12-nonkafka-error-escaping-join-swallowed"
KNOWN_REQS_DURING_STOP_DRAIN = "group-requests-during-stop-drain"
KNOWN_STOP_KILLS_DRAINING = "stop-kills-consumers-draining-for-rejoin"
KNOWN_SECOND_STOP = "fatal-error-stop-leaves-while-stop-drains"

WHAT = {
    "fenced": "a running partition consumer does not carry the member's current generation/member id, or its partition is not in the current assignment",
    "startsCommitted": "consumers were started outside a successful sync reply, not from OFFSET_COMMITTED, or with a stale generation/member id",
    "joinAdopted": "after a successful join reply the member's member id / generation are not the reply's (stale identity handed to consumers)",
    "joinAfterDrain": "a JoinGroup request was issued while a partition consumer was still running or draining",
    "joinNoRunning": "a JoinGroup request was issued while a partition consumer was still RUNNING",
    "evictionStopsFirst": "after an eviction error (illegal generation / unknown member / time-out) a consumer is still running, or a join/sync was issued in that step",
    "oneJoin": "more than one join/sync exchange in flight",
    "heartbeatOnlyStable": "a heartbeat was sent while the member was not a stable member",
    "afterStopOnlyLeave": "a group request other than the leave was issued after stop",
    "noJoinAfterStopCalled": "a JoinGroup request was issued after stop() had been called",
    "startsWithJoinIds": "consumers were started with a member id / generation other than those of the last successful join reply",
    "strictAfterStop": "a group request other than the leave was issued after stop() had been called (strict reading)",
    "heartbeatIds": "a heartbeat was sent while stopping or wanting a rejoin, or does not quote the member's current generation and member id",
    "gracefulDrain": "a partition consumer was hard-stopped (no graceful shutdown, no final commit) outside an eviction / fatal error / failed-shutdown fallback",
    "joinLast": "within one step something was observed after the JoinGroup request (e.g. a consumer stopped only after the join was sent)",
    "joinProgress": "the join coroutine is alive but no client request of it is outstanding and no consumer is draining: nothing will ever wake it",
    "neverIdle": "started and not stopping, but no join in flight, no heartbeat timer of a stable member and no rejoin/retry timer: the member is idle",
    "retriableRejoins": "a retriable (Kafka) error did not leave a rejoin/retry timer with the documented back-off",
    "fatalSurfaces": "a non-Kafka error did not surface on the Deferred returned by start()",
    "freshAfterEviction": "after an UnknownMemberId / InvalidGroupId eviction a JoinGroup quoted the old (non-empty) member id: a coordinator that forgot the member refuses it for ever, the member never becomes stable again",
    "escapeSurfaces": "a non-Kafka error escaping the join (look-up, metadata, leader partition load) did not surface on start's Deferred",
    "leaveAfterDrain": "a LeaveGroup request was sent while a partition consumer was still running or draining (the member's generation ends with consumers alive)",
    "composedCommitIds": "a partition consumer sent an OffsetCommit with a generation / member id other than those it was started with",
    "composedLive": "a partition consumer sent a fetch / commit request after the group had stopped it or after its shutdown had completed",
    "composedFenced": "a partition consumer started before the member's latest JoinGroup request (an earlier generation) sent a fetch / commit request after that JoinGroup",
    "noInternalError": "the member's own machinery raised on an internal inconsistency (AlreadyCalled from Coordinator.stop cancelling a dead _rejoin_wait_dc, or the heartbeat looper's assertion): stop() fails half-way / the error path dies",
    "coordinatorRefreshed": "a time-out / NotCoordinator / CoordinatorNotAvailable on a group request did not invalidate the client's cached coordinator (no reset_consumer_group_metadata in that step): the rejoin goes back to the same - possibly dead - broker",
}


_quiet_done = False


def quiet():
    """Unhandled-error reports of Deferreds nobody observes (e.g. the RestopError of a nested stop()) go to
    Twisted's log; send them nowhere instead of stderr."""
    global _quiet_done
    import logging

    logging.disable(logging.CRITICAL)
    if not _quiet_done:
        _quiet_done = True
        from twisted.logger import globalLogBeginner

        globalLogBeginner.beginLoggingTo([lambda e: None], redirectStandardIO=False, discardBuffer=True)


class LocalCtx(object):
    """Enough of core.Ctx for worker processes."""

    def model(self, comp, lines):
        return core.run_model(comp, lines)


def first_failing_steps(ctx, scn, steps, pid):
    """-> {check name: index of the first step at which the check fails}"""
    lines = ["mon-reset " + S.cfg_words(scn["cfg"])]
    marks = []
    for s, mobs in zip(steps, S.monitor_obs(steps)):
        lines.append("mon-ev " + s["ev"])
        lines += ["mon-ob " + o for o in mobs]
        lines.append("mon-" + s["snap"])
        lines.append("mon-end " + pid)
        marks.append(len(lines) - 1)
    ans = ctx.model("group", lines)
    first = {}
    for i, m in enumerate(marks):
        v = ans[m]
        if v and v[0].startswith("fail"):
            for name in v[0].split()[1:]:
                first.setdefault(name, i)
    return first


def tags_for(name, scn, steps, idx, first):
    ev = steps[idx]["ev"] if idx is not None and idx < len(steps) else ""
    if name == "joinAfterDrain":
        if "joinNoRunning" not in first and "stop" in scn["events"][: idx + 1]:
            return [KNOWN_JOIN_DURING_STOP]
        return ["join-with-live-consumers"]
    if name == "gracefulDrain":
        # known: stop() (the step that finishes it) hard-stops consumers that a rejoin's on_join_prepare is draining:
        # the state BEFORE the step must be mid-prepare (`st` of the previous step: the implementation's in the scripted
        # stage, the agreeing model's in the full-stack stage); a stop() that hard-stops consumers in any other state is new
        w = ev.split()
        pre_st = steps[idx - 1].get("st") if idx else ""
        mid_prepare = pre_st is None or "jpc=prepare" in pre_st
        if w and w[0] in ("stop", "leaveDone") and "snap" in steps[idx] and "stopping=1" in steps[idx]["snap"] and mid_prepare:
            return [KNOWN_STOP_KILLS_DRAINING]
        return ["gracefulDrain"]
    if name == "leaveAfterDrain":
        # known (1): stop() while a rejoin's on_join_prepare drains - the leave goes out, the drain is killed when the
        # leave reply arrives; known (2): the nested self.stop(error) of a FATAL error while a user stop() is still
        # draining the consumers (a second USER stop() is refused since the fix: that would be a new violation)
        if "jpc=prepare" in (steps[idx].get("st") or ""):
            return [KNOWN_STOP_KILLS_DRAINING]
        pre = steps[idx - 1]["snap"] if idx else ""
        fatal = any(ev.endswith(k) for k in (" nonKafka", " cancelled", "err:nonKafka", "err:cancelled"))
        if fatal and "stop" in scn["events"][:idx] and "started=1 stopping=0" in pre:
            return [KNOWN_SECOND_STOP]
        return ["leaveAfterDrain"]
    if name == "strictAfterStop":
        # known: heartbeats / coordinator look-ups while stop() drains.  The monitor reports its FIRST failing step only,
        # so every LATER step of the trace is looked at too: a JoinGroup / SyncGroup / partition load after stop() was
        # called is a different violation and must not hide behind an earlier known heartbeat
        for st in steps[idx:] if idx is not None else []:
            if any(isinstance(o, str) and o and o.split()[0] in ("join", "sync", "loadParts") for o in st["obs"]):
                return ["strictAfterStop-join-or-sync"]
        return [KNOWN_REQS_DURING_STOP_DRAIN]
    if name in ("neverIdle", "escapeSurfaces"):
        w = ev.split()
        if w and w[0] in ("coordDone", "metaDone", "partsDone") and len(w) > 1 and w[1] in ("err:nonKafka", "err:cancelled"):
            return [KNOWN_NONKAFKA_ESCAPE]
        return ["%s-after-%s" % (name, (w[0] + ":" + w[1]) if len(w) > 1 else ev)]
    return [name]


def classify(ctx, scn, steps, pid, failing):
    """failing check names -> list of monitor_failure dicts (one per distinct tag)."""
    first = first_failing_steps(ctx, scn, steps, pid)
    out = {}
    for name in failing:
        idx = first.get(name)
        tags = tags_for(name, scn, steps, idx, first) if idx is not None else [name]
        key = tags[0]
        if key not in out:
            out[key] = {"what": WHAT.get(name, name), "check": name, "step": idx, "event": steps[idx]["ev"] if idx is not None else None,
                        "scenario": {"cfg": scn["cfg"], "events": scn["events"][: (idx + 1) if idx is not None else len(steps)]}, "tags": tags}
    return list(out.values())


def still_fails_with(ctx, pid, tag):
    def f(scn):
        steps = S.run_impl(scn)
        if steps and steps[-1]["obs"] and steps[-1]["obs"][0].startswith("not-enabled"):
            return False
        r = S.check_scenarios(ctx, [(scn, steps)], pid)[0]
        if not r[3]:
            return False
        return any(tag in mf["tags"] for mf in classify(ctx, scn, steps, pid, r[3]))

    return f


def still_disagrees(ctx, pid):
    def f(scn):
        steps = S.run_impl(scn)
        if steps and steps[-1]["obs"] and steps[-1]["obs"][0].startswith("not-enabled"):
            return False
        return S.check_scenarios(ctx, [(scn, steps)], pid)[0][2] is not None

    return f


def account(res, pid, scn, steps):
    """Histograms and the non-trivial rule."""
    res.evaluations += 1
    res.traces_validated += 1
    started_consumers = False
    rebalanced = False
    fault = False
    stable = False
    for s in steps:
        w = s["ev"].split()
        op = w[0]
        res.count("ev:" + op)
        if op.endswith("Done") and len(w) > 1 and w[1].startswith("err:"):
            res.count("err@%s:%s" % (op[:-4], w[1][4:]))
            if "started=1 stopping=0" in s["snap"]:
                fault = True
        if op == "consumerErr":
            res.count("err@consumer:" + w[2])
            fault = True
        if op == "joinDone" and w[1] == "ok":
            res.count("join:" + ("leader" if w[4] == "1" else "follower"))
        if op == "stop":
            res.count("stop@" + [x for x in s["st"].split() if x.startswith("jpc=")][0][4:])
        for o in s["obs"]:
            k = o.split()[0]
            res.count("ob:" + k)
            if k == "consumerStart":
                started_consumers = True
            if k in ("consumerShutdown", "consumerStop") and started_consumers:
                rebalanced = True
        if "needed=0 hb=1" in s["snap"]:
            stable = True
    if stable:
        res.count("reached_stable")
    if scn.get("float_artefact"):
        res.count("float_artefact_followed")
    res.count("len<=%d" % (10 * ((len(steps) + 9) // 10)))
    if (pid == "C16" and rebalanced) or (pid == "C17" and fault):
        res.nontrivial(scn["events"])


def handle(ctx, res, pid, results, seen_tags, shrink=True):
    for scn, steps, dis, failing in results:
        account(res, pid, scn, steps)
        if dis is not None and len(res.disagreements) < 5:
            if shrink:
                small = S.ddmin_events(dis["scenario"], still_disagrees(ctx, pid))
                st2 = S.run_impl(small)
                d2 = S.check_scenarios(ctx, [(small, st2)], pid)[0][2]
                if d2 is not None:
                    dis = d2
            res.disagreements.append(dis)
        if failing:
            for mf in classify(ctx, scn, steps, pid, failing):
                tag = mf["tags"][0]
                res.count("monitor_fail:" + tag)
                if tag in seen_tags:
                    continue
                seen_tags.add(tag)
                if shrink:
                    small = S.ddmin_events(mf["scenario"], still_fails_with(ctx, pid, tag))
                    mf["scenario"] = small
                res.monitor_failures.append(mf)
        if len(res.samples) < 3 and len(steps) > 6:
            res.sample({"cfg": scn["cfg"], "events": scn["events"][:14], "impl_obs_of_last_shown": steps[min(13, len(steps) - 1)]["obs"]})


# ------------------------------------------------------------------ corpus

def corpus_files():
    return sorted(glob.glob(os.path.join(core.VERIF, "corpus", "group", "*.json")))


def run_corpus(ctx, res, pid, seen_tags):
    batch = []
    for p in corpus_files():
        d = json.load(open(p))
        scn = {"cfg": d["cfg"], "events": d["events"]}
        steps = S.run_impl(scn)
        if steps and steps[-1]["obs"] and steps[-1]["obs"][0].startswith("not-enabled"):
            res.disagreements.append({"component": "group", "corpus": os.path.basename(p), "scenario": scn, "impl": steps[-1]["obs"], "model": "corpus event not enabled on the implementation"})
            continue
        batch.append((scn, steps))
        res.count("corpus")
    handle(ctx, res, pid, S.check_scenarios(ctx, batch, pid), seen_tags, shrink=False)


# ------------------------------------------------------------------ random

def random_batch(seed, n, max_lens, pid):
    rng = random.Random(seed)
    out = []
    for _ in range(n):
        out.append(S.generate(rng, rng.choice(max_lens)))
    return out


def _worker_random(args):
    seed, n, max_lens, pid = args
    ctx = LocalCtx()
    quiet()
    batch = random_batch(seed, n, max_lens, pid)
    return S.check_scenarios(ctx, batch, pid)


# ------------------------------------------------------------------ bounded-exhaustive

EXH_ERRS = ["rebalanceInProgress", "notCoordinator", "illegalGeneration", "unknownMemberId", "requestTimedOut", "unknownError", "cancelled", "nonKafka"]
PREFIXES = {
    "fresh": [],
    "stable": ["start", "coordDone ok", "metaDone ok", "joinDone ok 1 5 0 0", "syncDone ok 1:0,1"],
    "stable-hb": ["start", "coordDone ok", "metaDone ok", "joinDone ok 1 5 1 2", "partsDone ok", "syncDone ok 1:0;2:1", "advance 5", "fire 0"],
    "prepare": ["start", "coordDone ok", "metaDone ok", "joinDone ok 1 5 0 0", "syncDone ok 1:0,1", "advance 5", "fire 0",
                "hbDone err:rebalanceInProgress", "advance 1/8", "fire 2", "coordDone ok", "metaDone ok"],
    # state left over from a failed call: stop() before the first start()
    "stop-first": ["stop", "start", "coordDone ok"],
    # a heartbeat still unanswered when the member has rejoined into a new generation by another path
    "hb-stale": ["start", "coordDone ok", "metaDone ok", "joinDone ok 1 5 0 0", "syncDone ok 1:0,1", "advance 5", "fire 0",
                 "consumerErr 0 illegalGeneration", "advance 1/8", "fire 2", "coordDone ok", "metaDone ok", "joinDone ok 1 6 0 0",
                 "syncDone ok 1:0"],
    # ... and a heartbeat still unanswered when the JoinGroup of the rejoin is out (the join reply abandons it)
    "hb-late-join": ["start", "coordDone ok", "metaDone ok", "joinDone ok 1 5 0 0", "syncDone ok 1:0,1", "advance 5", "fire 0",
                     "consumerErr 0 unknownMemberId", "advance 1/8", "fire 2", "coordDone ok", "metaDone ok"],
    "stop-drain": ["start", "coordDone ok", "metaDone ok", "joinDone ok 1 5 0 0", "syncDone ok 1:0,1", "advance 5", "fire 0",
                   "hbDone err:rebalanceInProgress", "stop"],
}
EXH_CFG = (1000, 125, 10000, 5000)


def actions(world, faults_only=False):
    """Deterministic list of the environment's next moves (each a list of events)."""
    e = world.enabled()
    g = world.group
    acts = []
    if g._start_d is None and not g._stopping:
        # never started: start(), or (the documented API in a "wrong" state) a stop() that raises RestopError
        return [["start"]] if faults_only else [["start"], ["stop"]]
    for fam in ("coord", "meta", "join", "parts", "sync", "hb", "leave"):
        if not e.get(fam):
            continue
        ev = S.REPLY_EVENT[fam]
        if fam == "join":
            m = int(world.join_member[1:]) if world.join_member else 1
            acts += [["joinDone ok %d %d 0 0" % (m, 6 + len(world.consumers))], ["joinDone ok %d %d 1 2" % (m, 7 + len(world.consumers))]]
            if world.join_member:
                # a coordinator that renames the member (not Kafka's habit, but the member must adopt what the reply says)
                acts += [["joinDone ok %d %d 0 0" % (m + 1, 8 + len(world.consumers))]]
        elif fam == "sync":
            acts += [["syncDone ok 1:0;2:1"]]
        elif fam == "coord":
            acts += [["coordDone ok"], ["coordDone none"]]
        else:
            acts += [[ev + " ok"]]
        errs = EXH_ERRS if fam != "leave" else ["unknownError"]
        acts += [["%s err:%s" % (ev, k)] for k in errs]
    for cid in e["down"][:2]:
        acts += [["consumerDown %d ok" % cid], ["consumerDown %d err" % cid]]
    if e["timer"] is not None:
        tid, due = e["timer"]
        dt = due - world.now
        acts.append((["advance %s" % show_frac(dt)] if dt > 0 else []) + ["fire %d" % tid])
    if not faults_only:
        # the documented API (start, stop) in EVERY state: started, stop() draining, Coordinator.stop waiting for
        # the leave reply, stopped for good; what they raise is an observation
        acts.append(["stop"])
        acts.append(["start"])
        if e["cerr"]:
            acts += [["consumerErr %d %s" % (e["cerr"][0], k)] for k in ("rebalanceInProgress", "illegalGeneration", "nonKafka")]
        if e["quirk"]:
            acts += [["consumerQuirk %d %s" % (e["quirk"][0], q)] for q in ("raises", "fails")]
    return acts


def exh_run(prefix, choices, faults_only):
    """Execute prefix then the chosen actions. -> (scenario, steps, number of actions enabled at the end)"""
    world = GroupWorld(EXH_CFG)
    steps = []
    try:
        for ev in prefix:
            try:
                steps.append(S.run_step(world, ev))
            except KeyError:
                break  # the (changed) code no longer enables this event: enumerate from where we are
        for c in choices:
            acts = actions(world, faults_only)
            for ev in acts[c]:
                steps.append(S.run_step(world, ev))
        n = len(actions(world, faults_only))
    finally:
        world.close()
    return {"cfg": list(EXH_CFG), "events": [s["ev"] for s in steps]}, steps, n


def _worker_exh(args):
    """Enumerate the whole subtree below `choices` down to `depth` more levels; check every leaf."""
    name, choices, depth, faults_only, pid = args
    quiet()
    ctx = LocalCtx()
    prefix = PREFIXES[name]
    leaves = []
    stack = [list(choices)]
    total = 0
    out = []
    while stack:
        ch = stack.pop()
        scn, steps, n = exh_run(prefix, ch, faults_only)
        if len(ch) - len(choices) >= depth or n == 0:
            leaves.append((scn, steps))
            total += 1
            if len(leaves) >= 400:
                out += [r for r in S.check_scenarios(ctx, leaves, pid) if r[2] is not None or r[3]]
                leaves = []
        else:
            for i in range(n):
                stack.append(ch + [i])
    if leaves:
        out += [r for r in S.check_scenarios(ctx, leaves, pid) if r[2] is not None or r[3]]
    return name, total, out


def exhaustive_jobs(depth, split_depth, faults_only, names):
    """Split each prefix's tree at `split_depth` into independent jobs."""
    jobs = []
    for name in names:
        frontier = [[]]
        for _ in range(min(split_depth, depth)):
            nxt = []
            for ch in frontier:
                _, _, n = exh_run(PREFIXES[name], ch, faults_only)
                nxt += [ch + [i] for i in range(n)] if n else []
            frontier = nxt or frontier
        jobs += [(name, ch, depth - min(split_depth, depth), faults_only) for ch in frontier]
    return jobs


def run_exhaustive(ctx, res, pid, seen_tags, depth, faults_only, names, pool):
    jobs = [j + (pid,) for j in exhaustive_jobs(depth, 2, faults_only, names)]
    results = pool.map(_worker_exh, jobs, chunksize=1) if pool else [_worker_exh(j) for j in jobs]
    for name, total, bad in results:
        res.count("exhaustive:%s:depth%d%s" % (name, depth, ":faults" if faults_only else ""), total)
        res.evaluations += total
        res.traces_validated += total
        for scn, steps, dis, failing in bad:
            res.evaluations -= 1
            res.traces_validated -= 1
        handle(ctx, res, pid, bad, seen_tags)


# ------------------------------------------------------------------ full stack

def _worker_fullstack(args):
    seed, pid = args
    quiet()
    from harness.lib import group_fullstack as FS

    ctx = LocalCtx()
    rng = random.Random(seed)
    sc = FS.gen_scenario(rng, flavour=seed % 4)
    run = FS.run_fullstack(seed, sc)
    out = {"seed": seed, "scenario": sc, "error": run.error, "problems": run.problems[:5], "members": [], "stats": run.stats}
    for mlog in ([] if run.error else run.logs):
        dis, failing, steps, scn = FS.check_member(ctx, mlog, pid)
        mfs = classify(ctx, scn, steps, pid, failing) if failing else []
        reqs = [r for st in steps for r in st.get("reqs", [])]
        out["members"].append({"name": mlog.name, "steps": len(steps), "disagreement": dis, "monitor_failures": mfs,
                               "consumer_fetches": sum(1 for r in reqs if r.startswith("fetch")), "consumer_commits": sum(1 for r in reqs if r.startswith("commit")),
                               "hard_stops": sum(1 for st in steps for o in st["obs"] if o.startswith("consumerStop")),
                               "errors_seen": sorted(set(s["ev"] for s in steps if " err:" in s["ev"]))})
    return out


# end-to-end findings that are about C17 (liveness); every other `e2e-*` tag is about C16 (fencing)
E2E_C17 = ("e2e-not-stable-after-faults", "e2e-client-call-never-completes")


def run_fullstack_stage(ctx, res, pid, seeds, pool, seen):
    jobs = [(s, pid) for s in seeds]
    results = pool.imap_unordered(_worker_fullstack, jobs, chunksize=1) if pool else map(_worker_fullstack, jobs)
    for r in results:
        res.count("fullstack:runs")
        res.evaluations += 1
        if r["error"]:
            res.count("fullstack:undecided-run")  # Livelock etc. in the simulation: not a verdict
            res.notes.append("fullstack seed %d: %s" % (r["seed"], r["error"]))
            continue
        for f in r["scenario"].get("faults", []):
            res.count("fullstack:fault:" + ("coordinator-moves" + ("-state-lost" if f.get("lose_state") else "") if "move" in f else
                                            "outage-" + ("failover" if f["elect"] else "comes-back") if "outage" in f else "slow-" + f["delay"] if "delay" in f else
                                            "silent-" + f["silent"] if "silent" in f else "error-" + f["api"]))
        if r["scenario"].get("grow"):
            res.count("fullstack:fault:topic-grows-partitions")
        for k, v in sorted((r.get("stats") or {}).items()):
            res.count("fullstack:coordinator:" + k, v)
        for m in r["members"]:
            res.traces_validated += 1
            res.count("fullstack:member-steps", m["steps"])
            res.count("fullstack:consumer-fetch-requests", m.get("consumer_fetches", 0))
            res.count("fullstack:consumer-commit-requests", m.get("consumer_commits", 0))
            res.count("fullstack:consumers-hard-stopped", m.get("hard_stops", 0))
            for e in m["errors_seen"]:
                res.count("fullstack:" + e.split()[0] + ":" + e.split()[-1])
            if m["disagreement"] is not None and len(res.disagreements) < 5:
                d = m["disagreement"]
                d["fullstack_seed"] = r["seed"]
                res.disagreements.append(d)
            for mf in m["monitor_failures"]:
                tag = mf["tags"][0]
                res.count("monitor_fail:" + tag)
                if tag not in seen:
                    seen.add(tag)
                    mf["fullstack_seed"] = r["seed"]
                    mf["member"] = m["name"]
                    res.monitor_failures.append(mf)
        for pr in r["problems"]:
            tag = pr["tags"][0]
            if (pid == "C17") != (tag in E2E_C17):
                continue
            res.count("monitor_fail:" + tag)
            if tag not in seen:
                seen.add(tag)
                res.monitor_failures.append({"what": pr["what"], "detail": pr["detail"], "tags": pr["tags"],
                                             "scenario": {"fullstack_seed": r["seed"], "fullstack": r["scenario"]}})
        if len(res.samples) < 4 and r["members"]:
            res.sample({"fullstack_seed": r["seed"], "scenario": r["scenario"], "member_steps": [m["steps"] for m in r["members"]]}, limit=4)


# ------------------------------------------------------------------ entry points

RULE = {
    "C16": "REAL ConsumerGroup over a scripted client/consumers. Random rebalance histories generated on-line against the real object "
           "(member leader or follower; assignments growing/shrinking/moving; every group error kind on every request; heartbeat failures during joins; "
           "consumer errors; shutdown completions ok/failed; stop at any point; timers early/late; the documented API start()/stop() issued in EVERY state - before start, "
           "while started, while a stop drains, while leaving, after the stop - with RestopError/RestartError as observations), plus bounded-exhaustive enumeration of every environment move "
           "(incl. start and stop in every state) from eight start states. Every step compares observations, inspected state and pending delayed calls with the Lean model (a delayed call of a kind the model does not have is the observation `setTimer <id> other`, "
           "a disagreement, and is fired by the generator like any timer); the Lean C16 monitors run on the "
           "implementation trace. FULL STACK: 2-3 real members, each over its own real KafkaClient and real Consumers, against the simulated coordinator "
           "(join windows up to 25 s, group error codes injected on JoinGroup/SyncGroup/Heartbeat/FindCoordinator/OffsetCommit/OffsetFetch, silent heartbeats, slow OffsetCommit replies with an "
           "eviction meanwhile (consumers hard-stopped with a commit in flight), the coordinator broker down for 15-40 s and back or failing over, the coordinator MOVING to another live broker - with or without losing the group's state, "
           "i.e. every member kicked - while commits are on their way to a slow old coordinator and look-ups are slow (several NOT_COORDINATOR replies for the group at different instants), "
           "a topic GROWING partitions between generations (the next rebalance hands out the new ones), a member stopping; what the coordinator went through is in the histogram: "
           "fullstack:coordinator:generations / leader-changes / session-expired / member-dropped / member-left / state-lost / consumers-on-grown-partitions); "
           "each member's trace at the group/client boundary is validated against the model and fed to the same monitors, EVERY fetch/commit call of every real partition consumer is recorded into "
           "the composed trace (product model Afkak.GroupCompose; monitors composedCommitIds/composedLive/composedFenced), and running consumers / commits are compared with the "
           "coordinator's generation and assignment. non-trivial = at least one consumer was started and later shut down or stopped (a rebalance, an eviction or a stop happened).",
    "C17": "FULL STACK as for C16 with the end-to-end check that every member not stopped is a stable member within 200 virtual seconds after the last fault (joins may take up to 35 s), and that a member whose join or heartbeat is 'in flight' has seen a reply within the last 120 virtual seconds (a client call that never completes = busy in name only). "
           "Scripted: same scenarios as C16 (scripted environment, on-line generation, bounded-exhaustive failure sequences at every step of the join protocol); after EVERY step the "
           "harness inspects _rejoin_d / heartbeat looper / reactor delayed calls / start's Deferred and the Lean C17 monitors run on that trace. "
           "non-trivial = at least one failure (error reply or consumer error) was injected while the member was started and not stopping.",
}


def run(ctx, res, pid):
    import logging

    quiet()
    try:
        res.rule = RULE[pid]
        seen = set()
        run_corpus(ctx, res, pid, seen)
        thorough = ctx.tier == "thorough"
        base = ctx.rng.randrange(1 << 30)
        if not thorough:
            for b in range(ctx.scale(30, 0)):
                handle(ctx, res, pid, S.check_scenarios(ctx, random_batch(base + b, 100, [10, 20, 40, 60, 90], pid), pid), seen)
            run_exhaustive(ctx, res, pid, seen, 3, False, ["fresh", "stable", "stable-hb", "prepare", "stop-drain", "stop-first", "hb-stale", "hb-late-join"], None)
            run_exhaustive(ctx, res, pid, seen, 4, True, ["fresh"], None)
            with multiprocessing.Pool(min(8, os.cpu_count() or 2)) as pool:
                run_fullstack_stage(ctx, res, pid, [base % 100000 + i for i in range(12)], pool, seen)
        else:
            with multiprocessing.Pool(min(16, os.cpu_count() or 2)) as pool:
                jobs = [(base + b, 250, [10, 20, 40, 60, 90, 150], pid) for b in range(400)]
                for results in pool.imap_unordered(_worker_random, jobs, chunksize=4):
                    handle(ctx, res, pid, results, seen)
                run_exhaustive(ctx, res, pid, seen, 5, False, ["fresh", "stable", "stable-hb", "prepare", "stop-drain", "stop-first", "hb-stale", "hb-late-join"], pool)
                run_exhaustive(ctx, res, pid, seen, 6, True, ["fresh", "stable"], pool)
                run_fullstack_stage(ctx, res, pid, [base % 100000 + i for i in range(300)], pool, seen)
        res.extra["error_kinds_hit"] = sorted(k for k in res.hist if k.startswith("err@"))
    finally:
        logging.disable(logging.NOTSET)


def search(ctx, res, broken, pid):
    """A proof or the correspondence broke: look for an input on which the PROPERTY fails on the code."""
    import logging

    quiet()
    try:
        r2 = core.Result()
        seen = set()
        prefixes = []
        for b in broken:
            w = b.get("what")
            if isinstance(w, dict) and isinstance(w.get("scenario"), dict):
                prefixes.append(w["scenario"])
        base = ctx.rng.randrange(1 << 30)
        # 1. continue the disagreeing scenarios (and their proper prefixes) in random directions
        for p in prefixes[:3]:
            rng = random.Random(base)
            batch = []
            for k in range(ctx.scale(600, 6000)):
                cut = rng.randrange(0, len(p["events"]) + 1)
                try:
                    batch.append(S.generate(rng, cut + rng.choice([5, 10, 20, 40]), cfg=tuple(p["cfg"]), prefix=p["events"][:cut]))
                except KeyError:
                    continue
            handle(ctx, r2, pid, S.check_scenarios(ctx, batch, pid), seen)
        # 2. fresh random scenarios and the bounded-exhaustive trees
        for b in range(ctx.scale(40, 400)):
            handle(ctx, r2, pid, S.check_scenarios(ctx, random_batch(base + 1000 + b, 100, [10, 20, 40, 60, 90], pid), pid), seen)
        run_exhaustive(ctx, r2, pid, seen, ctx.scale(4, 5), False, ["fresh", "stable", "stable-hb", "prepare", "stop-drain", "stop-first", "hb-stale", "hb-late-join"], None)
        with multiprocessing.Pool(min(8, os.cpu_count() or 2)) as pool:
            run_fullstack_stage(ctx, r2, pid, [base % 100000 + 1000 + i for i in range(ctx.scale(24, 200))], pool, seen)
        known = core.load_known_findings()
        return [f for f in r2.monitor_failures if not core.match_known(pid, f, known)][:3]
    finally:
        logging.disable(logging.NOTSET)


def replay(ctx, data, pid):
    scn = None
    f = data.get("failure")
    if isinstance(f, dict) and "scenario" in f:
        scn = f["scenario"]
    elif data.get("no_longer_checks"):
        for b in data["no_longer_checks"]:
            w = b.get("what")
            if isinstance(w, dict) and "scenario" in w:
                scn = w["scenario"]
                break
    elif "events" in data:
        scn = {"cfg": data["cfg"], "events": data["events"]}
    if isinstance(scn, dict) and "fullstack" in scn:
        quiet()
        from harness.lib import group_fullstack as FS

        run = FS.run_fullstack(scn["fullstack_seed"], scn["fullstack"])
        print("full-stack scenario (seed %s): %s" % (scn["fullstack_seed"], json.dumps(scn["fullstack"])))
        if run.error:
            print("UNDECIDED: the simulation could not run: %s" % run.error)
            return 2
        rc = 0
        known = core.load_known_findings()
        for mlog in run.logs:
            dis, failing, steps, mscn = FS.check_member(ctx, mlog, pid)
            print("member %s: %d steps; model/implementation %s; monitors %s" % (mlog.name, len(steps), "DISAGREE at step %d (%s)" % (dis["step"], dis["event"]) if dis else "agree", failing or "ok"))
            for mf in (classify(ctx, mscn, steps, pid, failing) if failing else []):
                if not core.match_known(pid, mf, known):
                    rc = 1
            if dis:
                rc = 1
        for pr in run.problems:
            if (pid == "C17") == (pr["tags"][0] in E2E_C17):
                print("end-to-end: %s -- %s" % (pr["what"], pr["detail"]))
                rc = 1
        if rc:
            print("VIOLATION property=%s replay=(this file)" % pid)
        return rc
    if scn is None:
        print("replay: nothing to re-run in this file (a proof obligation broke; see no_longer_checks)")
        print(json.dumps(data.get("no_longer_checks"), indent=1)[:3000])
        return 1
    quiet()
    steps = S.run_impl(scn)
    ans = ctx.model("group", S.model_lines(scn)[: 1 + len(steps)])
    for i, s in enumerate(steps):
        obs, snap, st = S.split_model_answer(ans[1 + i])
        same = obs == s["obs"] and snap == s["snap"] and st == s["st"]
        print("%3d %-40s impl : %s" % (i, s["ev"], "; ".join(s["obs"])))
        print("    %-40s model: %s%s" % ("", "; ".join(obs), "" if same else "   <-- DIFFERS"))
        if not same:
            print("      impl  %s\n            %s\n      model %s\n            %s" % (s["snap"], s["st"], snap, st))
    r = S.check_scenarios(ctx, [(scn, steps)], pid)[0]
    known = core.load_known_findings()
    rc = 0
    if r[3]:
        for mf in classify(ctx, scn, steps, pid, r[3]):
            k = core.match_known(pid, mf, known)
            print("monitor %s fails at step %s (%s): %s%s" % (mf["check"], mf["step"], mf["event"], mf["what"], "  [known finding %s]" % k["tag"] if k else ""))
            if not k:
                rc = 1
    else:
        print("monitors: ok")
    if r[2] is not None:
        print("model and implementation DISAGREE at step %d" % r[2]["step"])
        rc = 1
    if rc:
        print("VIOLATION property=%s replay=(this file)" % pid)
    return rc
