"""Drive the REAL leader glue of afkak._group.Coordinator across generations (C15).

One real `Coordinator` object is the group leader for every generation.  It talks to `LeaderClient`, a
fake of the few KafkaClient methods a Coordinator uses: requests are encoded by the real KafkaCodec
encoders (as the real client does), answered with hand-packed response bytes that the real decoders
parse, and `_load_topic_partitions` answers from the cluster's partition map AS IT IS IN THAT GENERATION,
for exactly the topics asked.  The other members are virtual: their JoinGroup metadata is what the
real `_ConsumerProtocol.join_group_protocols` produces for their subscriptions, and they decode their
share of the leader's SyncGroup request with the real `decode_assignment`.

A rebalance is triggered the way a broker does it: the next heartbeat fails with
REBALANCE_IN_PROGRESS, the coordinator schedules `join_and_sync` on its reactor (a
`twisted.internet.task.Clock`) and goes through `_join_and_sync` again.

Nothing here raises on an implementation that misbehaves: `run_history` returns, per generation,
either the (member id, bytes) list of the leader's SyncGroup request or a text saying what happened
instead.
"""
import logging
import struct

logging.getLogger("afkak").addHandler(logging.NullHandler())


class _Escapes(logging.Handler):
    """Collects the Failure objects the coordinator logs with `log.error("%s error during join_and_sync: %s", self, result)`:
    the only place an exception that leaves _join_and_sync becomes visible (the log TEXT is not looked at)."""

    def __init__(self):
        logging.Handler.__init__(self, level=logging.ERROR)
        self.failures = []

    def emit(self, record):
        for a in record.args if isinstance(record.args, tuple) else ():
            if hasattr(a, "value") and hasattr(a, "check"):
                self.failures.append(a)

CLIENT_ID = b"c15-leader"
GROUP = "c15-group"


def _short(s):
    b = s.encode("utf-8")
    return struct.pack(">h", len(b)) + b


def _int_bytes(b):
    return struct.pack(">i", -1) if b is None else struct.pack(">i", len(b)) + b


class LeaderClient(object):
    """What a Coordinator needs from a KafkaClient."""

    def __init__(self, clock, leader_id):
        self.reactor = clock
        self.leader_id = leader_id
        self.cluster = {}  # topic -> partition ids, current generation
        self.listed = []  # [(member id, metadata bytes or None for the leader itself)] in listing order
        self.generation = 0
        self.rebalancing = False
        self.corr = 0
        self.loads = []  # topics asked of _load_topic_partitions, per call
        self.syncs = []  # (generation, [(member id, bytes)]) per SyncGroup request received
        self.leader_metadata = None
        self.omit = ()  # topics a (non-conforming) loader answer leaves out in the current generation
        self.load_delay = {}  # topic -> seconds until the client has usable metadata for it (current generation)
        self.topic_partitions = {}  # the client's metadata cache: topics it has usable metadata for right now

    def _get_coordinator_for_group(self, group):
        from twisted.internet import defer

        return defer.succeed(object())

    def load_metadata_for_topics(self, *topics):
        from twisted.internet import defer

        return defer.succeed(None)

    def reset_consumer_group_metadata(self, *groups):
        pass

    def _load_topic_partitions(self, *topics):
        from twisted.internet import defer

        self.loads.append(sorted(topics))
        # the real client's contract: an entry for each requested topic (and only those), once every one of
        # them has usable metadata - which may take a while (the client keeps asking meanwhile)
        delay = max([self.load_delay.get(t, 0) for t in topics] or [0])

        def snapshot():
            for t in topics:
                self.topic_partitions[t] = list(self.cluster[t])
            return {t: list(self.cluster[t]) for t in topics if t not in self.omit}

        if not delay:
            return defer.succeed(snapshot())
        # meanwhile the cache holds the topics that are NOT slow
        for t in topics:
            if not self.load_delay.get(t, 0):
                self.topic_partitions[t] = list(self.cluster[t])
            else:
                self.topic_partitions.pop(t, None)
        d = defer.Deferred(lambda _d: dc.active() and dc.cancel())
        dc = self.reactor.callLater(delay, lambda: d.callback(snapshot()))
        return d

    def _send_request_to_coordinator(self, group, payload, encoder_fn, decode_fn, **kwargs):
        from twisted.internet import defer

        from afkak.common import BrokerResponseError

        try:
            self.corr += 1
            corr = self.corr
            encoder_fn(client_id=CLIENT_ID, correlation_id=corr, payload=payload)  # the real encoder must accept it
            kind = type(payload).__name__
            if kind == "_JoinGroupRequest":
                self.generation += 1
                self.rebalancing = False
                self.leader_metadata = bytes(payload.group_protocols[0].protocol_metadata)
                msg = struct.pack(">ihi", corr, 0, self.generation)
                msg += _short(payload.group_protocols[0].protocol_name) + _short(self.leader_id) + _short(self.leader_id)
                msg += struct.pack(">i", len(self.listed))
                for mid, md in self.listed:
                    msg += _short(mid) + _int_bytes(self.leader_metadata if md is None else md)
            elif kind == "_SyncGroupRequest":
                enc = [(m.member_id, bytes(m.member_metadata)) for m in payload.group_assignment]
                self.syncs.append((payload.generation_id, enc))
                own = dict(enc).get(self.leader_id, b"")
                msg = struct.pack(">ih", corr, 0) + _int_bytes(own)
            elif kind == "_HeartbeatRequest":
                msg = struct.pack(">ih", corr, 27 if self.rebalancing else 0)
            elif kind == "_LeaveGroupRequest":
                msg = struct.pack(">ih", corr, 0)
            else:
                raise AssertionError("unexpected request " + kind)
            decoded = decode_fn(msg)
            err = getattr(decoded, "error", 0)
            if err:
                raise BrokerResponseError.errnos.get(err, BrokerResponseError)()
            return defer.succeed(decoded)
        except Exception:  # noqa: BLE001 - handed to the coordinator as a failed request, like the real client
            return defer.fail()


def run_history(leader_id, leader_topics, gens):
    """gens: [{"members": [[id, [topic, ...]], ...] (listing order, contains leader_id), "cluster": [[topic, [p, ...]], ...]}].
    A generation may carry "load_delay": {topic: seconds}: the client has no usable metadata for these topics until then,
    `_load_topic_partitions` fires only when every asked topic is ready (the metadata cache holds the others meanwhile).
    A generation may carry "loader_omits": [topic, ...]: the loader's answer leaves these topics out (a loader that
    breaks its contract; the real client cannot since repo commit 9b87dea).
    -> list, one per generation: {"encs": [(id, bytes)] | None, "wire": [(id, metadata bytes)], "loads": [...],
        "leader_got": {topic: [p]} | None, "escaped": exception that left _join_and_sync | None, "idle": bool, "note": text}"""
    from twisted.internet import task

    from afkak._group import Coordinator, _ConsumerProtocol

    proto = _ConsumerProtocol()
    clock = task.Clock()
    client = LeaderClient(clock, leader_id)
    got = {}

    class Leader(Coordinator):
        def on_join_complete(self, assignments):
            got[client.generation] = dict((t, [int(p) for p in ps]) for t, ps in assignments.items())

    out = []
    coord = None
    errors = []
    esc = _Escapes()
    glog = logging.getLogger("afkak._group")
    glog.addHandler(esc)
    try:
        coord = Leader(client, GROUP, list(leader_topics))
        for g, gen in enumerate(gens, 1):
            rec = {"encs": None, "wire": None, "loads": None, "leader_got": None, "escaped": None, "idle": False, "note": ""}
            out.append(rec)
            try:
                n_esc = len(esc.failures)
                client.omit = tuple(gen.get("loader_omits", ()))
                client.cluster = dict((t, list(ps)) for t, ps in gen["cluster"])
                client.load_delay = dict(gen.get("load_delay") or {})
                wait = max(list(client.load_delay.values()) + [0])
                client.listed = [(i, None if i == leader_id else bytes(proto.join_group_protocols(list(s))[0].protocol_metadata)) for i, s in gen["members"]]
                n_loads, n_syncs = len(client.loads), len(client.syncs)
                if g == 1:
                    d = coord.start()
                    d.addErrback(lambda f: errors.append(f.getErrorMessage()))
                    if wait:
                        for _ in range(int(2 * wait) + 100):  # the partition load completes (or the leader stops waiting)
                            if len(client.syncs) > n_syncs:
                                break
                            clock.advance(0.5)
                else:
                    client.rebalancing = True
                    for _ in range(400):  # heartbeat notices the rebalance, the rejoin timer fires
                        if len(client.syncs) > n_syncs or coord._start_d is None:
                            break
                        clock.advance(0.1)
                    if wait:
                        for _ in range(int(2 * wait) + 100):  # the partition load completes (or the leader stops waiting)
                            if len(client.syncs) > n_syncs or coord._start_d is None:
                                break
                            clock.advance(0.5)
                rec["loads"] = client.loads[n_loads:]
                rec["wire"] = [(i, client.leader_metadata if md is None else md) for i, md in client.listed]
                new = client.syncs[n_syncs:]
                if len(new) == 1 and new[0][0] == client.generation:
                    rec["encs"] = new[0][1]
                    rec["leader_got"] = got.get(client.generation)
                else:
                    if len(esc.failures) > n_esc:
                        rec["escaped"] = esc.failures[-1].value
                    rec["idle"] = not new and not clock.getDelayedCalls() and not coord._heartbeat_looper.running
                    rec["note"] = "leader sent %d SyncGroup requests in generation %d (state %s, errors %s)" % (len(new), g, getattr(coord, "_state", "?"), errors[-2:])
            except Exception as e:  # noqa: BLE001
                rec["note"] = "generation %d: %s: %s" % (g, type(e).__name__, e)
    except Exception as e:  # noqa: BLE001
        out.append({"encs": None, "wire": None, "loads": None, "leader_got": None, "escaped": None, "idle": False, "note": "%s: %s" % (type(e).__name__, e)})
    finally:
        glog.removeHandler(esc)
        try:
            if coord is not None and coord._start_d is not None and not coord._stopping:
                coord.stop()
            for dc in clock.getDelayedCalls():
                dc.cancel()
        except Exception:  # noqa: BLE001
            pass
    return out


def _sstr(s):
    b = s.encode("ascii")
    return struct.pack(">h", len(b)) + b


def metadata_response(corr, reply, leaderless=None):
    """Hand-packed Metadata response v0; reply: [(topic, error code, [partition id, ...])].
    `leaderless`: None = no broker listed, every partition without a leader (-1); otherwise a set of
    (topic, partition) that have no leader right now (partition error 5 LEADER_NOT_AVAILABLE, leader
    -1) while every other partition is led by broker 1, which the response lists."""
    if leaderless is None:
        msg = struct.pack(">ii", corr, 0)
    else:
        msg = struct.pack(">ii", corr, 1) + struct.pack(">i", 1) + _sstr("broker1") + struct.pack(">i", 9092)
    msg += struct.pack(">i", len(reply))
    for topic, err, parts in reply:
        msg += struct.pack(">h", err) + _sstr(topic) + struct.pack(">i", len(parts))
        for p in parts:
            if leaderless is None or (topic, p) in leaderless:
                msg += struct.pack(">hiii", 0 if leaderless is None else 5, p, -1, 0) + struct.pack(">i", 0)
            else:
                msg += struct.pack(">hiii", 0, p, 1, 1) + struct.pack(">i", 1) + struct.pack(">i", 1) + struct.pack(">i", 1)
    return msg


def run_loader(asked, replies, leaderless=None):
    """Drive the REAL KafkaClient._load_topic_partitions(*asked): the k-th metadata request is answered with replies[k]
    (the real decoder parses the bytes); when the replies run out the next request is never answered.
    -> ("snap", {topic: [ids]} in dict order, requests sent) | ("pending", None, requests sent) | ("error", class name, n)"""
    from twisted.internet import defer, task

    from afkak.client import KafkaClient

    clock = task.Clock()
    client = KafkaClient("c15-loader:9092", reactor=clock, retry_policy=lambda attempt: 0.5)
    sent = []

    def answer(correlation_id, request):
        sent.append(correlation_id)
        if len(sent) > len(replies):
            return defer.Deferred()
        return defer.succeed(metadata_response(correlation_id, replies[len(sent) - 1], leaderless))

    client._send_broker_unaware_request = answer
    out = []
    try:
        d = client._load_topic_partitions(*asked)
        d.addBoth(out.append)
        for _ in range(2 * len(replies) + 4):
            if out:
                break
            clock.advance(0.5)
    except Exception as e:  # noqa: BLE001
        return "error", type(e).__name__, len(sent)
    finally:
        try:
            for dc in clock.getDelayedCalls():
                dc.cancel()
        except Exception:  # noqa: BLE001
            pass
    if not out:
        return "pending", None, len(sent)
    r = out[0]
    if hasattr(r, "check") and hasattr(r, "value"):
        return "error", type(r.value).__name__, len(sent)
    try:
        return "snap", [(str(t), [int(p) for p in ps]) for t, ps in r.items()], len(sent)
    except Exception as e:  # noqa: BLE001
        return "error", "shape-changed " + type(e).__name__, len(sent)
