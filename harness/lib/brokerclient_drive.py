"""Drivers of the REAL objects of the brokerclient package (C06, C10), in the world of harness/sim/world.py.

* `BCRun`     - one `_KafkaBrokerClient(reactor=Clock, endpointFactory=Net, retryPolicy=scripted)`; `ex(line)`
                executes one event line of the model's line protocol and returns the observation lines
                logged at the component boundary (in the order they happened).
* `FrameRun`  - a bare `KafkaProtocol` / `KafkaBootstrapProtocol` fed chunks directly (framing only).
* `BootRun`   - one connected `KafkaBootstrapProtocol`.

Nothing in afkak is patched.  Observation hooks: the class-level `write` / `loseConnection` of Twisted's
TEST transport `twisted.test.iosim.FakeTransport` are wrapped while `instrumented()` is active (to log
what the component hands to its transport, and to inject "write raises"), `Clock.callLater` is wrapped on
the instance, `Net.log` is replaced by a forwarding list, a logging handler listens on `afkak.brokerclient`.

Transport semantics emulated by this driver (they are what a real TCP transport does, iosim's pump is
NOT used to move bytes or to report disconnects):
* after `loseConnection()` a transport reads nothing more (`stopReading`) and drops writes;
* an exception escaping `dataReceived` makes the reactor call `connectionLost` at once.
"""
import contextlib
import logging
import struct
from fractions import Fraction

from twisted.internet import defer
from twisted.python.failure import Failure
from twisted.test import iosim

from harness.sim.world import Addr, Conn, Net, Pending, World

import signal
import threading


class LoopGuard(Exception):
    """dataReceived did not return within the time limit (an endless framing loop)."""


@contextlib.contextmanager
def time_limit(seconds=10.0):
    """Bound one call into the implementation by the CPU time of THIS process (an endless framing loop burns
    CPU; a process that is merely descheduled on a loaded machine does not).  Main thread only."""
    if threading.current_thread() is not threading.main_thread():
        yield
        return

    def on_alarm(signum, frame):
        raise LoopGuard("no return within %.1fs of CPU time" % seconds)

    old = signal.signal(signal.SIGVTALRM, on_alarm)
    signal.setitimer(signal.ITIMER_VIRTUAL, seconds)
    try:
        yield
    finally:
        signal.setitimer(signal.ITIMER_VIRTUAL, 0)
        signal.signal(signal.SIGVTALRM, old)


_active = []  # stack of objects with .on_write(transport, data) / .on_lose(transport)


@contextlib.contextmanager
def instrumented():
    """Wrap FakeTransport.write / loseConnection (class level) for the duration of a batch."""
    ow, ol = iosim.FakeTransport.write, iosim.FakeTransport.loseConnection

    def write(self, data):
        if _active and not self.isServer:
            _active[-1].on_write(self, data)  # may raise (write-failure injection)
        return ow(self, data)

    def loseConnection(self):
        if _active and not self.isServer:
            _active[-1].on_lose(self)
        return ol(self)

    iosim.FakeTransport.write, iosim.FakeTransport.loseConnection = write, loseConnection
    tap = _LogTap()
    logger = logging.getLogger("afkak.brokerclient")
    logger.addHandler(tap)
    try:
        yield
    finally:
        logger.removeHandler(tap)
        iosim.FakeTransport.write, iosim.FakeTransport.loseConnection = ow, ol


class StubbornNet(Net):
    """world.Net whose connection attempts can IGNORE cancel(): with `stubborn` on, the canceller of a pending
    attempt accepts the connection and fires the Deferred with the protocol (the pathological endpoint of
    afkak's test_close_connecting_succeed)."""

    def __init__(self):
        Net.__init__(self)
        self.stubborn = False
        self.on_stubborn_accept = None
        # what a cancelled attempt's Deferred fails with: "cancelled" = the canceller fires nothing and Twisted fires
        # CancelledError (a Deferred without a canceller behaves the same); "connecting" = ConnectingCancelledError,
        # which is what Twisted's TCP4/TCP6/HostnameEndpoint/wrapClientTLS report; "other" = some other failure
        self.cancel_kind = "cancelled"

    def _connect(self, host, port, factory):
        n = len(self.attempts)
        self.attempts.append((host, port))
        self.log.append(("connect", host, port))

        def cancel(d):
            p.cancelled = True
            if p in self.pending:
                self.pending.remove(p)
            self.log.append(("connect-cancelled", host, port))
            if self.stubborn:
                p.done = True
                proto = factory.buildProtocol(Addr(host, port))
                conn = Conn(self, len(self.conns), host, port, proto)
                self.conns.append(conn)
                self.log.append(("accepted", conn.cid, host, port))
                if self.on_stubborn_accept is not None:
                    self.on_stubborn_accept(conn)
                d.callback(proto)
            elif self.cancel_kind == "connecting":
                from twisted.internet import error

                d.errback(error.ConnectingCancelledError(Addr(host, port)))
            elif self.cancel_kind == "other":
                d.errback(EndpointGaveUp("attempt abandoned"))

        d = defer.Deferred(cancel)
        p = Pending(self, n, host, port, factory, d)
        self.pending.append(p)
        if self.policy is not None:
            self.policy(p)
        return d


class _FwdList(list):
    def __init__(self, cb):
        list.__init__(self)
        self.cb = cb

    def append(self, x):
        list.append(self, x)
        self.cb(x)


def frac(s):
    return Fraction(s)


def show_rat(q):
    q = Fraction(q)
    return str(q.numerator) if q.denominator == 1 else "%d/%d" % (q.numerator, q.denominator)


def hx(b):
    return b.hex() if b else "-"


def unhx(s):
    return b"" if s == "-" else bytes.fromhex(s)


def payload_for(cid, serial, extra=b""):
    """A request PDU: api key, version, correlation id (32 bits of `cid`), then the serial as a nonce."""
    return b"\x00\x03\x00\x00" + struct.pack(">I", cid & 0xFFFFFFFF) + struct.pack(">Q", serial) + extra


def err_kind(f):
    """failure -> model error kind"""
    n = f.value.__class__.__name__
    return {"CancelledError": "cancelled", "ClientError": "clientError", "InjectedWriteError": "writeError"}.get(n, "other:" + n)


class InjectedWriteError(Exception):
    pass


class EndpointGaveUp(Exception):
    """what an endpoint of kind "other" fails a cancelled connection attempt with"""


class InjectedLossReason(Exception):
    """a connectionLost reason that is neither ConnectionDone nor ConnectionLost"""


class _LogTap(logging.Handler):
    """An ERROR-level record logged by `handleResponse` is the operator-visible "unexpected response"."""

    def __init__(self):
        logging.Handler.__init__(self, level=logging.ERROR)

    def emit(self, record):
        if _active and record.funcName == "handleResponse" and hasattr(_active[-1], "on_unexpected"):
            a = record.args if isinstance(record.args, tuple) else ()
            _active[-1].on_unexpected(a[0] if a and isinstance(a[0], int) else "?")


class BCRun(object):
    """One real `_KafkaBrokerClient` in a fresh World."""

    def __init__(self, host, port, policy):
        from afkak.brokerclient import _KafkaBrokerClient
        from afkak.common import BrokerMetadata

        self.BrokerMetadata = BrokerMetadata
        self.policy = [Fraction(p) for p in policy]
        self.policy_calls = []
        self.world = World()
        self.world.net = StubbornNet()
        self.world.net.on_stubborn_accept = lambda conn: setattr(self, "cur", conn)
        self.log = []
        self.harness_errors = []  # things that must never happen (a bug in this driver or an untracked effect)
        self.serial = 0
        self.defs = {}  # correlation id -> latest Deferred
        self.by_serial = {}
        self.cur = None  # Conn currently bound to the client protocol
        self.wfail = False
        self.timers = []
        self.hooks = {}  # serial -> action words to run (re-entrantly) when that Deferred fires
        self.rx = []  # (connection id, bytes) for every chunk actually handed to a connection's transport, in order
        self.close_called = False
        self.sync = "none"
        self.world.net.log = _FwdList(self._net_event)
        clock = self.world.clock
        orig_call_later = clock.callLater

        def callLater(delay, f, *a, **kw):
            self.log.append("setTimer %s" % show_rat(Fraction(delay)))
            dc = orig_call_later(delay, f, *a, **kw)
            oc = dc.canceller

            def canceller(c):
                self.log.append("cancelTimer")
                return oc(c)

            dc.canceller = canceller
            return dc

        clock.callLater = callLater
        self.bc = _KafkaBrokerClient(
            reactor=clock,
            endpointFactory=self.world.net,
            brokerMetadata=BrokerMetadata(1, "h%d" % host, port),
            clientId="verif",
            retryPolicy=self._policy,
        )

    # ---- hooks
    def _policy(self, n):
        self.policy_calls.append(n)
        if not self.policy:
            return 0.0
        q = self.policy[n - 1] if 1 <= n <= len(self.policy) else self.policy[-1]
        return float(q)

    def _net_event(self, ev):
        if ev[0] == "connect":
            self.log.append("connect %s %d" % (ev[1][1:] if ev[1].startswith("h") else ev[1], ev[2]))
        elif ev[0] == "connect-cancelled":
            self.log.append("cancelConnect")

    def _conn_of(self, transport):
        for c in self.world.net.conns:
            if c.ct is transport:
                return c
        return None

    def on_write(self, transport, data):
        c = self._conn_of(transport)
        if c is None:
            self.harness_errors.append("write on an unknown transport")
            return
        if self.wfail:
            raise InjectedWriteError("write failed")
        body = data[4:]
        ok = len(data) >= 20 and struct.unpack(">I", data[:4])[0] == len(body)
        if not ok:
            self.log.append("write %d ? malformed:%s" % (c.cid, data.hex()))
            return
        cid32 = struct.unpack(">I", body[4:8])[0]
        serial = struct.unpack(">Q", body[8:16])[0]
        ent = self.by_serial.get(serial)
        if ent is None or ent[1] != body or (ent[0] & 0xFFFFFFFF) != cid32:
            self.log.append("write %d ? unknown-bytes:%s" % (c.cid, data.hex()))
            return
        self.log.append("%s %d %d %d" % ("writeLost" if transport.disconnecting else "write", c.cid, serial, ent[0]))

    def on_lose(self, transport):
        c = self._conn_of(transport)
        self.log.append("lose %s" % (c.cid if c is not None else "?"))

    def on_unexpected(self, cid):
        self.log.append("unexpected %s" % cid)

    # ---- moving client -> server bytes (bookkeeping only; never visible to the client)
    def _drain(self):
        for c in self.world.net.conns:
            data = c.ct.getOutBuffer()
            if data:
                c.st.bufferReceived(data)

    def _do_lost(self, kind="done"):
        """connectionLost(reason): ConnectionDone (clean close), ConnectionLost (unclean) or some other failure -
        `_connectionLost` only logs the reason, and the model ignores it"""
        from twisted.internet import error

        c, self.cur = self.cur, None
        c.ct.disconnectReason = {"done": error.ConnectionDone("Connection done"), "lost": error.ConnectionLost("lost"),
                                 "other": InjectedLossReason("other")}[kind]
        c.ct.disconnecting = True
        c.ct.disconnected = True
        c.st.disconnecting = True
        c.st.disconnected = True
        c.closed = True
        c.ct.reportDisconnect()

    # ---- events
    def ex(self, line):
        _active.append(self)
        n0 = len(self.log)
        try:
            try:
                self._ex(line.split())
            except ValueError as e:
                if str(e).startswith("unknown event"):
                    raise
                self.log.append("raise other:%s" % e.__class__.__name__)
            except Exception as e:
                # an exception escaping from a driven API call (makeRequest / cancel / close / disconnect /
                # connectionLost / a timer) is an observation like any other: the model never produces it
                self.log.append("raise other:%s" % e.__class__.__name__)
            try:
                self._drain()
            except Exception as e:
                self.harness_errors.append("drain raised %s" % e.__class__.__name__)
        finally:
            _active.pop()
        return self.log[n0:]

    def _fire_cb(self, serial, cid):
        def cb(r):
            if r is None:
                self.log.append("fire %d %d none" % (serial, cid))
            elif isinstance(r, bytes):
                self.log.append("fire %d %d ok %s" % (serial, cid, hx(r)))
            else:
                self.log.append("fire %d %d ok ?%r" % (serial, cid, r))
            self._run_hook(serial)

        def eb(f):
            self.log.append("fire %d %d err %s" % (serial, cid, err_kind(f)))
            self._run_hook(serial)

        return cb, eb

    def _run_hook(self, serial):
        """The caller's callback: one re-entrant call into the broker client, from inside the firing."""
        acts = self.hooks.pop(serial, None)
        if acts is None:
            return
        self.log.append("hook %d" % serial)
        for act in acts:  # the callback catches what each call raises and goes on
            try:
                self._ex(act)
            except Exception as e:  # would be swallowed by the Deferred ("Unhandled error"): made visible
                self.log.append("raise other:%s" % e.__class__.__name__)
        self.log.append("endhook")

    def _ex(self, w):
        op = w[0]
        net = self.world.net
        if op == "make":
            cid, expect = int(w[1]), w[2] == "1"
            from afkak.common import DuplicateRequestError

            # the serial is taken BEFORE the call: should makeRequest fire other Deferreds whose callbacks make
            # requests (re-entrantly, before it returns), those get later serials - the order of acceptance
            serial = self.serial
            self.serial += 1
            pl = payload_for(cid, serial)
            self.by_serial[serial] = (cid, pl)
            try:
                d = self.bc.makeRequest(cid, pl, expectResponse=expect)
            except DuplicateRequestError:
                del self.by_serial[serial]
                if self.serial == serial + 1:  # (raised before anything else could run)
                    self.serial = serial
                self.log.append("raise dup %d" % cid)
                return
            except BaseException:
                # no Deferred was handed out: the number is not used up (the exception itself is logged by `ex`)
                del self.by_serial[serial]
                if self.serial == serial + 1:
                    self.serial = serial
                raise
            self.defs[cid] = d
            self.log.append("made %d %d" % (serial, cid))
            if len(w) > 3 and w[3] == "hook":
                acts, cur = [], []
                for t in w[4:]:
                    if t == ";":
                        acts.append(cur)
                        cur = []
                    else:
                        cur.append(t)
                acts.append(cur)
                self.hooks[serial] = acts
            # callbacks are attached after makeRequest returned: anything that fired inside it is logged now,
            # AFTER the writes it made (the order a caller observes)
            d.addCallbacks(*self._fire_cb(serial, cid))
        elif op == "cancel":
            d = self.defs.get(int(w[1]))
            if d is None or d.called:
                self.log.append("badOp")
            else:
                d.cancel()
        elif op == "connOk":
            if not net.pending:
                self.log.append("badOp")
            else:
                if len(net.pending) > 1:
                    self.harness_errors.append("two connection attempts pending")
                self.cur = net.pending[0].accept()
        elif op == "connFail":
            if not net.pending:
                self.log.append("badOp")
            else:
                net.pending[0].refuse()
        elif op == "advance":
            q = Fraction(w[1])
            if q < 0:
                self.log.append("badOp")
            else:
                n = len(self.log)
                with time_limit():  # a zero-delay retry loop would never return
                    self.world.clock.advance(float(q))
                # a timer that fires logs nothing itself
                assert n <= len(self.log)
        elif op == "bytes":
            data = unhx(w[1])
            if self.cur is None or self.cur.ct.disconnecting:
                self.log.append("badOp")
            else:
                self.rx.append((self.cur.cid, data))
                try:
                    with time_limit():
                        self.cur.ct.bufferReceived(data)
                except Exception as e:  # the reactor logs it and drops the connection
                    n = e.__class__.__name__
                    self.log.append("raise underflow" if n == "BufferUnderflowError" else "raise other:" + n)
                    self._do_lost("other")
        elif op == "lost":
            kind = w[1] if len(w) > 1 else "done"
            if kind not in ("done", "lost", "other"):
                raise ValueError("unknown event %r" % (w,))
            if self.cur is None:
                self.log.append("badOp")
            else:
                self._do_lost(kind)
        elif op == "close":
            if not self.close_called:
                self.close_called = True
                self.log.append("closing")
            try:
                d = self.bc.close()
            except AssertionError:
                self.log.append("raise assert")
                return
            d.addCallbacks(lambda r: self.log.append("down"), lambda f: self.log.append("down err %s" % err_kind(f)))
        elif op == "disconnect":
            self.bc.disconnect()
        elif op == "meta":
            self.bc.updateMetadata(self.BrokerMetadata(1, "h%d" % int(w[1]), int(w[2])))
        elif op == "wfail":
            self.wfail = w[1] == "1"
        elif op == "stubborn":
            self.world.net.stubborn = w[1] == "1"
        elif op == "ckind":
            if w[1] not in ("cancelled", "connecting", "other"):
                raise ValueError("unknown event %r" % (w,))
            self.world.net.cancel_kind = w[1]
        elif op == "sync":
            # an endpoint whose connect() Deferred has ALREADY fired when connect() returns
            self.sync = w[1]
            if w[1] == "ok":
                net.policy = lambda p: setattr(self, "cur", p.accept())
            elif w[1] == "fail":
                net.policy = lambda p: p.refuse()
            elif w[1] == "none":
                net.policy = None
            else:
                raise ValueError("unknown event %r" % (w,))
        else:
            raise ValueError("unknown event %r" % (w,))

    # ---- what the generator / cross-checks look at
    def attempt_pending(self):
        return bool(self.world.net.pending)

    def timer_due(self):
        calls = self.world.clock.getDelayedCalls()
        return min(c.getTime() for c in calls) if calls else None

    def now(self):
        return self.world.clock.seconds()

    def connected(self):
        return self.cur is not None

    def readable(self):
        return self.cur is not None and not self.cur.ct.disconnecting

    def server_frames(self):
        """[(conn id, [frames the broker end has received])]"""
        return [(c.cid, list(c.frames)) for c in self.world.net.conns]

    def state_line(self):
        """The implementation's internal state rendered like the model's `bc-state` answer (white-box
        comparison; optional: raises AttributeError when the internals have been renamed)."""
        bc = self.bc
        lb = lambda b: "true" if b else "false"  # noqa: E731
        reqs = []
        for i, r in bc.requests.items():
            serial = struct.unpack(">Q", r.request[8:16])[0]
            reqs.append("%d:%d:%d%d%d" % (serial, i, bool(r.expectResponse), r.sent is not None, r.cancelled is not None))
        conn = bc.connector
        if conn is None:
            k = "none"
        elif conn.called:
            k = "stale"
        elif self.world.net.pending:
            k = "attempt"
        else:
            k = "backoff@%s" % show_rat(Fraction(self.timer_due()))
        return "state host=%s port=%d proto=%s losing=%s rbuf=%d connector=%s closed=%s failures=%d now=%s nconn=%d nmake=%d wfail=%s reqs=[%s]" % (
            bc.host[1:], bc.port, self.cur.cid if bc.proto is not None else "-",
            lb(bc.proto is not None and self.cur.ct.disconnecting),
            len(bc.proto._unprocessed) if bc.proto is not None else 0, k, lb(bc._dDown is not None),
            getattr(bc, "_failures", 0), show_rat(Fraction(self.now())), len(self.world.net.conns), self.serial,
            lb(self.wfail), " ".join(reqs))

    def fingerprint(self):
        """Implementation-side state, for deduplication in the bounded-exhaustive search."""
        bc = self.bc
        conn = bc.connector
        if conn is None:
            k = "none"
        elif not conn.called:
            k = "pending"
        else:
            k = "fired"
        return (
            tuple((i, r.expectResponse, r.sent is not None, r.cancelled is not None) for i, r in bc.requests.items()),
            bc.proto is not None,
            bool(self.cur is not None and self.cur.ct.disconnecting),
            k,
            bc._dDown is not None,
            getattr(bc, "_failures", 0),
            bc.host,
            bc.port,
            tuple(sorted(c.getTime() - self.now() for c in self.world.clock.getDelayedCalls())),
            bytes(bc.proto._unprocessed) if bc.proto is not None else b"",
            self.wfail,
            tuple(sorted((self.by_serial[k][0], tuple(tuple(a) for a in v)) for k, v in self.hooks.items())),
            self.world.net.stubborn,
            self.sync,
            self.world.net.cancel_kind,
        )


def run_bc(header, events):
    """header = (host, port, [policy]); -> (per-event observation lists, BCRun)"""
    r = BCRun(*header)
    out = []
    for e in events:
        out.append(r.ex(e))
    return out, r


def check_server_side(run, obs):
    """The broker end must have received exactly the `write` observations, per connection, in order."""
    want, odd = {}, []
    for ol in obs:
        for o in ol:
            w = o.split()
            if w[0] == "write":
                if w[2].lstrip("-").isdigit():
                    want.setdefault(int(w[1]), []).append(int(w[2]))
                else:  # bytes that are no request the harness handed over (`write <conn> ? …`): an observation, reported below
                    odd.append(o)
    problems = ["the implementation wrote bytes that are no known request: %s" % o[:120] for o in odd[:3]]
    for cid, frames in run.server_frames():
        got = []
        for f in frames:
            got.append(struct.unpack(">Q", f[8:16])[0] if len(f) >= 16 else -1)
            ent = run.by_serial.get(got[-1])
            if ent is None or ent[1] != f:
                problems.append("conn %d: broker received bytes that are no request: %s" % (cid, f.hex()))
        if got != want.get(cid, []):
            problems.append("conn %d: broker received serials %s, writes observed %s" % (cid, got, want.get(cid, [])))
    return problems


# ------------------------------------------------------------------------------------------ framing


class _RecFactory(object):
    def __init__(self, out):
        self.out = out

    def handleResponse(self, s):
        self.out.append("frame " + hx(bytes(s)))

    def _connectionLost(self, reason):
        self.out.append("lost")


class _DumbTransport(object):
    """Records loseConnection; keeps delivering (to exercise the loop as written)."""

    disconnecting = False

    def __init__(self, out):
        self.out = out

    def loseConnection(self):
        self.out.append("exceeded")
        self.disconnecting = True

    def getPeer(self):
        return "peer"

    def write(self, data):
        pass


class FrameRun(object):
    """`KafkaProtocol.dataReceived` fed directly; answers like the model's `fr-feed`."""

    def __init__(self, bootstrap=False):
        from afkak import _protocol

        self.out = []
        if bootstrap:
            p = _protocol.KafkaBootstrapProtocol()
            p.transport = _DumbTransport(self.out)
            p.connectionMade()
            outer = self

            class _Any(dict):
                def pop(self, k, *a):
                    return outer

            # every id is "pending": route each packet to us (framing only)
            p._pending = _Any()
            self.callback = lambda resp: self.out.append("frame " + hx(bytes(resp)))
        else:
            p = _protocol.KafkaProtocol()
            p.factory = _RecFactory(self.out)
            p.transport = _DumbTransport(self.out)
        self.p = p

    def feed(self, data):
        n0 = len(self.out)
        try:
            with time_limit():
                self.p.dataReceived(data)
        except Exception as e:  # never with the framing as modelled: reported as a difference
            self.out.append("raise %s" % e.__class__.__name__)
        return self.out[n0:] + ["buffered %d" % len(self.p._unprocessed)]


# ---------------------------------------------------------------------------------------- bootstrap


class BootRun(object):
    """One connected `KafkaBootstrapProtocol` over a FakeTransport."""

    def __init__(self):
        from afkak._protocol import KafkaBootstrapProtocol

        self.log = []
        self.p = KafkaBootstrapProtocol()
        self.t = iosim.FakeTransport(self.p, isServer=False)
        self.p.makeConnection(self.t)
        self.serial = 0
        self.ds = {}
        self.lost = False
        self.sending = None

    def on_write(self, transport, data):
        self.log.append("%s %d" % ("writeLost" if transport.disconnecting else "write", self.sending))

    def on_lose(self, transport):
        self.log.append("lose")

    def ex(self, line):
        _active.append(self)
        n0 = len(self.log)
        try:
            self._ex(line.split())
        finally:
            _active.pop()
        return self.log[n0:]

    def _ex(self, w):
        op = w[0]
        if op == "bs-request":
            k = self.serial
            self.sending = k
            try:
                d = self.p.request(unhx(w[1]))
            except AssertionError:
                self.log.append("raise assert")
                return
            self.serial += 1
            self.ds[k] = d

            def eb(f, k=k):
                n = f.value.__class__.__name__
                self.log.append("fire %d err %s" % (k, {"CancelledError": "cancelled", "ConnectionDone": "connLost done", "ConnectionLost": "connLost lost", "InjectedLossReason": "connLost other"}.get(n, "other:" + n)))

            d.addCallbacks(lambda r, k=k: self.log.append("fire %d ok %s" % (k, hx(bytes(r)))), eb)
        elif op == "bs-cancel":
            d = self.ds.get(int(w[1]))
            if self.lost or d is None or d.called:
                self.log.append("badOp")
            else:
                d.cancel()
        elif op == "bs-bytes":
            if self.lost or self.t.disconnecting:
                self.log.append("badOp")
            else:
                try:
                    with time_limit():
                        self.t.bufferReceived(unhx(w[1]))
                except Exception as e:
                    self.log.append("raise %s" % e.__class__.__name__)
        elif op == "bs-lost":
            if self.lost:
                self.log.append("badOp")
            else:
                # the reason connectionLost() is called with: ConnectionDone (default), ConnectionLost, or an
                # exception of our own (any other reason); the Deferreds must fail with exactly that reason
                from twisted.internet import error

                kind = w[1] if len(w) > 1 else "done"
                self.lost = True
                self.t.disconnecting = True
                self.t.disconnected = True
                self.t.disconnectReason = {"done": error.ConnectionDone("Connection done"), "lost": error.ConnectionLost("lost"), "other": InjectedLossReason("other")}[kind]
                self.t.reportDisconnect()
        else:
            raise ValueError(w)


def run_boot(events):
    r = BootRun()
    return [r.ex(e) for e in events], r
