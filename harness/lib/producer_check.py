"""Shared machinery of the producer properties C01 / C09 / C19: run scenarios on the real Producer
(scripted environment), diff against the Lean model, evaluate the Lean monitors on the
implementation's traces, shrink, search, replay."""
import glob
import json
import multiprocessing
import os
import random
import time

from harness import core
from harness.lib import producer_drive as D
from harness.lib import producer_gen as G

COMPONENTS = ["producer"]
MONITORS = {
    "C01": ["c01-once", "c01-acked", "c01-acks0", "c01-emptyanswer", "c01-payloads", "c01-resolved", "c01-dropped"],
    "C09": ["c09-order", "c09-onebatch", "c09-retry", "c09-reported", "c09-attempts", "c09-geometric"],
    "C19": ["c19-accounting", "c19-dispatch", "c19-cancel", "c19-detach", "c19-stop", "c19-schedule"],
}
WHAT = {
    "c01-once": "a send Deferred fired more than once",
    "c01-acked": "a send Deferred succeeded without an acknowledgement for a request carrying its messages (or with an exception as value; or, acks=0, with None although the answer in hand lists its payload as failed / is not the empty answer and attempts remain)",
    "c01-emptyanswer": "the client's empty answer to the request in flight did not fire every outstanding send of that request at once (acks=0: success with None; otherwise NoResponseError)",
    "c09-reported": "an answer of the client acknowledged a payload (error 0) but a send riding on it was not fired `ok` with that response in the same step; or the answer ended the batch (attempts used up / not a Kafka error) and a send on a failed payload was not failed with that error",
    "c01-acks0": "with req_acks=0 a send failed with NoResponseError although the request was handed over",
    "c01-payloads": "a produce payload is not made of whole, distinct sends of its topic, or its messages (key, size, order) are not exactly those sends' messages",
    "c01-dropped": "a send left _outstanding in a step in which its Deferred did not fire",
    "c01-resolved": "a batch resolved while one of its sends had not fired (sends of a batch for which the client did not account for every payload are exempt - that batch only)",
    "c09-order": "per-partition submission order violated in a produce request",
    "c09-onebatch": "a first-attempt produce request was made while the previous produce request was unanswered, or while an earlier batch was unresolved (or a retry carried foreign sends)",
    "c09-retry": "a retry did not send exactly the payloads reported failed (or re-sent an acknowledged payload)",
    "c09-attempts": "more produce attempts for a batch than max_req_attempts",
    "c09-geometric": "retry delay is not init*factor^k / was not reset when the batch resolved",
    "c19-accounting": "waiting message/byte counters differ from the sums over the queue",
    "c19-dispatch": "dispatch did not happen exactly when the thresholds/tick and the in-flight state demand",
    "c19-cancel": "cancel of a queued send did not remove it / cancel of a dispatched send did more than detach",
    "c19-detach": "after a send was cancelled late (after dispatch) a batch resolved while another of its sends had not fired: the cancel did more than detach its caller",
    "c19-stop": "stop() left a send outstanding, failed it with a non-cancellation error, or something was transmitted in/after stop(); or after stop() something was queued/outstanding, or a send_messages was not refused at once with CancelledError",
    "reentrant-tx-after-stop": "a produce or metadata request was issued after a stop() made by a callback of a send Deferred had returned",
    "success-never-sent": "a send Deferred succeeded although no produce request ever carried the send (ground truth of the scripted harness; with re-entrant callbacks the flat truthfulness monitor is not evaluated)",
    "escaped-exception": "an exception escaped a public call (send_messages / cancel / stop) or a timer callback of the Producer instead of being reported through the send's Deferred: whatever the call had taken out of the queue is neither transmitted nor failed",
    "c19-idleq": "after a step (re-entrant calls from callbacks of send Deferreds included) the producer was left with no batch in flight and a non-empty queue over the count or byte threshold: queued messages were not dispatched the moment the batch in flight resolved",
    "trace-unparseable": "the implementation's trace could not be read by the monitors (a produce payload that is not made of whole sends, a request made with other arguments than the configured acks/timeout/fail_on_error, an observation the model does not know)",
    "c19-schedule": "the batch_every_t looping call did not tick on its schedule (start+k*T, late calls collapsed, never while not due / stopped), or something else ran while a tick was overdue",
}
CORPUS = os.path.join(core.VERIF, "corpus", "producer")
TRUSTED = [
    "the Producer is modelled against the client INTERFACE (ClientIface, harness/lib/client_iface.md); in Lean the seam send_produce_request is composed with the client package's routing and assembling kernels (C09_composed_retry_only_failed; the product machine Afkak/ProducerCompose.lean, C01_composed_*), the rest of the client is not; on the code it is checked by the full-stack stage: ground-truth monitors, replay of the Producer/KafkaClient boundary trace to the model, and the composed client call `sendProduce` compared with every send_produce_request of the real client (harness/lib/producer_fstrace.py: a recording proxy at both sides of the client, trusted to be transparent)",
    "fake client of the scripted environment (harness/lib/producer_fakeclient.py) and its reproduction of the real client's cancel outcomes",
    "Twisted Deferred/inlineCallbacks/DeferredList/LoopingCall semantics as folded into the model's handlers; timers are abstract (set/fire), 'timers fire when due' is assumed",
    "snapshots of the real Producer's private bookkeeping fields (_batch_reqs, _waitingMsgCount, ...) read after every event",
]
ASSUMPTIONS = {
    "C01": ["the client names only payloads of the request in its result, each at most once (C07); 'fires when the batch resolves' additionally assumes the client accounts for every payload (C07 accounting): the sends of a batch for which it did not are exempt, per batch",
            "re-entrant calls into the Producer from callbacks of send Deferreds are modelled (Afkak/ProducerR.lean) and compared with the code, but the flat trace theorems are claimed for traces without such callbacks only"],
    "C09": ["as C01; send ids stand for submission order", "one-batch-in-flight is checked directly (no first-attempt request while a request is unanswered) and through 'every send of earlier requests has fired', the latter exempting the sends of a batch for which the client did not account (C07)"],
    "C19": ["as C01; time bounds are in model time (reactor latency not modelled)",
            "the client's answer to a cancel during stop() is one of ClientIface's cancel outcomes"],
}


REENTRANT_MONITORS = ["c01-once"]
# … and, for C19, the one clause of the dispatch monitor that looks at the bookkeeping AFTER a step only: never idle with a
# non-empty queue over a threshold (C19_never_idle_over_threshold; Afkak/Monitor/C19Idle.lean)
REENTRANT_EXTRA = {"C19": ["c19-idleq"]}


def has_hooks(real):
    return any(s[0].startswith("sendh ") for s in real.steps)


def trace_lines(real, monitors):
    """The implementation trace for the monitors.  A trace with re-entrant callbacks (hooks) is flattened: the hook
    markers are dropped and `sendh` reads `send`; only monitors that do not depend on the atomicity of a step are
    evaluated on it (the flat monitors are theorems of the flat model)."""
    tl = ["reset", D.cfg_line(real.cfg), "trace-begin"]
    flat_lines = getattr(real, "flat_lines", {})
    for i, (line, obs, st) in enumerate(real.steps):
        if i in flat_lines:
            # `send_messages` with raw arguments: a refused call is erased, an accepted one is its `send` event
            # (C01_args_run_is_producer_run: the run IS the Producer run on those events)
            if flat_lines[i] is None:
                continue
            line = flat_lines[i]
        if line.startswith("sendh "):
            line = "send " + " ".join(line.split(" ")[1:5])
        tl.append("> " + line)
        # (an exception that escaped the implementation is not an observation the monitors know: they see the rest of
        # the step and the bookkeeping as the exception left it; the harness reports it as `escaped-exception`)
        tl += [o for o in obs if not (o.startswith("hookbegin ") or o == "hookend" or o.startswith("impl-raised "))]
        tl.append(st)
    tl.append("trace-end " + " ".join(monitors))
    return tl


def evaluate(pid, runs, model=core.run_model, monitors=None):
    """runs: [(scenario, RealRun)].  -> [(scenario, real, disagreement|None, [failed monitor names])]"""
    lines = []
    for _scn, real in runs:
        lines += D.model_requests(real)
    ans = model("producer", lines) if lines else []
    out, k = [], 0
    for scn, real in runs:
        n = len(real.steps) + 2
        out.append([scn, real, D.diff(real, ans[k:k + n]), []])
        k += n
    tl, ends, used = [], [], []
    for scn, real, _d, _f in out:
        mons = ((MONITORS[pid] if monitors is None else monitors) if not has_hooks(real)
                else REENTRANT_MONITORS + REENTRANT_EXTRA.get(pid, []))
        if getattr(real, "sync_count", 0):
            # a synchronous answer of the client is handled inside the reactor call that made the request (a timer, a
            # tick): `scheduleFrom` ("while a tick is overdue nothing happens but timers firing") is an assumption on
            # the environment that such a trace does not meet by construction - the wait bound is not claimed for it
            mons = [m for m in mons if m != "c19-schedule"]
        used.append(mons)
        tl += trace_lines(real, mons)
        ends.append(len(tl) - 1)
    ans2 = model("producer", tl) if tl else []
    for item, e, mons in zip(out, ends, used):
        real = item[1]
        got = ans2[e]
        if got == ["bad-op"] or len(got) != len(mons):
            odd = [o for s in real.steps for o in s[1] if "=?" in o or "BADARGS" in o]
            # (a payload the harness could not segment into sends / a request made with other arguments than the
            # configured ones: C01's payload monitor for C01; for C09/C19 the trace cannot be judged - reported, not dropped)
            item[3] = ["c01-payloads"] if (odd and pid == "C01") else ["trace-unparseable"]
        else:
            item[3] = [l.split(" ")[0] for l in got if not l.endswith(" ok")]
        if getattr(real, "tx_after_stop", None):
            item[3].append("reentrant-tx-after-stop")
        if getattr(real, "success_never_sent", None):
            item[3].append("success-never-sent")
        if getattr(real, "escaped", False):
            item[3].append("escaped-exception")
    return out


def run_one(pid, scn):
    real = D.run_real(scn)
    return evaluate(pid, [(scn, real)])[0]


def signature(real):
    """Short description of a trace for tags: the event ops that occur."""
    ops = []
    for s in real.steps:
        op = s[0].split(" ")[0]
        if op not in ops:
            ops.append(op)
    return "+".join(ops)


def shrink_for(pid, scn, pred):
    def still(s):
        try:
            return pred(run_one(pid, s))
        except Exception:
            return False

    try:
        return G.shrink(scn, still, budget=250)
    except Exception:
        return scn


def features(scn, real, hist):
    cfg = scn["cfg"]
    hist["cfg:acks=%d" % cfg["acks"]] += 1
    hist["cfg:batched=%s" % cfg["batch_send"]] += 1
    hist["cfg:partitioner=" + cfg["partitioner"]] += 1
    hist["cfg:codec=%d" % cfg["codec"]] += 1
    hist["cfg:max_attempts=%d" % cfg["max_attempts"]] += 1
    flags = set()
    produces = 0
    for line, obs, st in real.steps:
        a = line.split(" ")
        hist["ev:" + a[0]] += 1
        if a[0] == "prodone":
            hist["result:" + a[2]] += 1
        if a[0] == "stop":
            hist["stop:" + ("produce-pending" if a[2] != "-" else "meta-pending" if a[3] != "-" else "other")] += 1
        for o in obs:
            b = o.split(" ")
            hist["ob:" + b[0]] += 1
            if b[0] == "fire":
                hist["fire:" + " ".join(b[2:3] + ([b[3]] if b[2] == "err" else []))] += 1
                if a[0] in ("prodone", "stop") and b[2] in ("ok", "oknone", "err"):
                    flags.add("completion-fired")
            if b[0] == "produce":
                produces += 1
                if a[0] == "timer":
                    flags.add("retry")
                if ";" in b[2]:
                    flags.add("multi-partition")
                if "," in b[2]:
                    flags.add("merged-sends")
        if a[0] == "cancel" and obs:
            flags.add("cancel-effective")
        if a[0] == "stop" and any(o.startswith("fire") for o in obs):
            flags.add("stop-outstanding")
        if a[0] == "tick" and obs:
            flags.add("tick-dispatch")
    if produces >= 2:
        flags.add("several-requests")
    if getattr(real, "sync_count", 0):
        flags.add("sync-answer")
        hist["ev:prodone-synchronous"] += real.sync_count
        if has_hooks(real):
            flags.add("sync-answer-with-callbacks")
            # … and a callback really ran inside the step that handles a synchronous answer
            for i, (line, obs, _st) in enumerate(real.steps):
                if line.startswith("prodone ") and any(o.startswith("hookbegin ") for o in obs) and i > 0 \
                        and any(o.startswith("produce ") for o in real.steps[i - 1][1]):
                    flags.add("callback-inside-sync-completion")
                    break
    if getattr(real, "escaped", False):
        flags.add("escaped-exception")
    for f in flags:
        hist["scn:" + f] += 1
    return flags


NONTRIVIAL = {
    "C01": lambda f: "completion-fired" in f,
    "C09": lambda f: "retry" in f or ("several-requests" in f and "merged-sends" in f),
    "C19": lambda f: bool({"cancel-effective", "stop-outstanding", "tick-dispatch"} & f),
}
RULES = {
    "C01": "scripted environment: real Producer over the fake client; configurations acks in {0,1,-1}, batched or not, codec none/gzip, attempt limit 0..10, round-robin/hashed; sends over 1-3 topics with null/empty/short/large values and a small key set; each client request completed with a ClientIface result kind (responses with error codes incl. codes persisting to the limit, failed payloads, total failures, empty/None, unaccounted payloads), cancels, stop with the real client's cancel outcomes, timers; in a fifth of the scenarios the client answers some produce requests SYNCHRONOUSLY (already fired Deferreds: one by one, or every request of a stretch); 6% of the send_messages calls carry arguments of arbitrary Python types (ill-typed topic/key/msgs/elements, str or bytes objects as msgs, tuples); retry intervals 0..60 s, attempt limits up to 25. non-trivial = a produce completion (or stop) fired at least one send Deferred. distinct = by content hash of the event list.",
    "C09": "as C01 with more retries and several topics/partitions; non-trivial = at least one retry produce request, or several produce requests with merged sends.",
    "C19": "as C01 biased to batching (every_n/b/t incl. disabled and negative), cancels and stop; non-trivial = an effective cancel, a stop with outstanding sends, or a dispatch by the periodic tick.",
}


class Tally(object):
    def __init__(self):
        import collections

        self.hist = collections.Counter()
        self.evaluations = 0
        self.nontrivial = []  # content hashes
        self.samples = []
        self.disagreements = []
        self.failures = []


def _hash(scn):
    import hashlib

    return hashlib.sha1(json.dumps(scn, sort_keys=True).encode()).hexdigest()


def check_batch(pid, scns_runs, tally, do_shrink=True):
    for scn, real, d, fails in evaluate(pid, scns_runs):
        tally.evaluations += 1
        flags = features(scn, real, tally.hist)
        if NONTRIVIAL[pid](flags):
            tally.nontrivial.append(_hash(scn))
        if len(tally.samples) < 3 and len(scn["events"]) <= 14 and NONTRIVIAL[pid](flags):
            tally.samples.append({"scenario": scn, "impl_trace": [[s[0]] + s[1] for s in real.steps]})
        if d is not None and len(tally.disagreements) < 5:
            small = shrink_for(pid, scn, lambda r: r[2] is not None) if do_shrink else scn
            r2 = run_one(pid, small)
            dd = r2[2] or d
            tally.disagreements.append({"component": "producer", "scenario": small, "step": dd[0], "impl": dd[1], "model": dd[2]})
        elif d is not None:
            tally.hist["disagreements-not-shrunk"] += 1
        for m in fails:
            if sum(1 for f in tally.failures if f["monitor"] == m) >= 2:
                continue
            small = shrink_for(pid, scn, lambda r, m=m: m in r[3]) if do_shrink else scn
            r2 = run_one(pid, small)
            tally.failures.append({
                "monitor": m, "what": WHAT.get(m, m), "scenario": small,
                "impl_trace": [[s[0]] + s[1] + [s[2]] for s in r2[1].steps],
                "tags": [m, m + ":" + signature(r2[1])],
            })


def random_batch(pid, seed, n, tally, exhaustive_depth=0):
    rng = random.Random(seed)
    chunk = []
    for i in range(n):
        scn, real = G.gen_scenario(rng, pid)
        chunk.append((scn, real))
        if len(chunk) >= 400:
            check_batch(pid, chunk, tally)
            chunk = []
    if chunk:
        check_batch(pid, chunk, tally)


# ---- bounded-exhaustive enumeration (thorough tier): every event sequence up to a depth over a small alphabet
EXH_CFGS = [
    dict(acks=1, max_attempts=2, retry_interval="1/4", batch_send=False, n=1, b=1, t=None, partitioner="rr", codec=0, api_versions=0),
    dict(acks=1, max_attempts=2, retry_interval="1/4", batch_send=True, n=2, b=0, t="1", partitioner="rr", codec=0, api_versions=0),
    dict(acks=0, max_attempts=1, retry_interval="1/4", batch_send=True, n=0, b=15, t="1", partitioner="rr", codec=0, api_versions=0),
    dict(acks=-1, max_attempts=3, retry_interval="0", batch_send=True, n=3, b=0, t=None, partitioner="hashed", codec=0, api_versions=0),
]


def exh_options(real, events, nsend, hooks=False):
    """the alphabet enabled after `events` (looked up in the real objects' state).  hooks: every send is also
    offered with a re-entrant callback - stop(), cancel of the oldest send, another send_messages"""
    opts = []
    sent = sum(1 for e in events if e[0] in ("send", "sendh", "sendraw"))
    if sent < nsend:
        sid = real.next_sid
        key = "6b" if real.cfg["partitioner"] == "hashed" else None
        opts.append([["send", sid, sent % 2, key, [10]]])
        if sent == 0:
            # `send_messages` with raw arguments: one refused call (a str key), one accepted (a tuple of bytes)
            opts.append([["sendraw", "s2:%d" % (sent % 2), "o", "S10", 0]])
            opts.append([["sendraw", "s2:%d" % (sent % 2), "N" if key is None else "b" + key, "S10,n", 1]])
        if hooks:
            opts.append([["sendh", sid, sent % 2, key, [10], [["x"]]]])
            opts.append([["sendh", sid, sent % 2, key, [10], [["c", 0]]]])
            opts.append([["sendh", sid, sent % 2, key, [10], [["s", (sent + 1) % 2, key, [10]]]]])
    for sid in real.outstanding():
        opts.append([["cancel", sid]])
    pend = real.pending_requests()
    for rid, kind, args in pend:
        if kind == "meta":
            t = D.topic_index(args[0])
            opts.append([["metaset", t, 0, [0, 1]], ["metadone", rid, ["ok"]]])
            opts.append([["metadone", rid, ["ok"]]])
            opts.append([["metadone", rid, ["err", "ua"]]])
        else:
            tps = [(D.topic_index(p.topic), p.partition) for p in args]
            opts.append([["prodone", rid, ["resp", [[t, p, 0, 5] for t, p in tps]]]])
            opts.append([["prodone", rid, ["resp", [[t, p, 6 if i == len(tps) - 1 else 0, 5] for i, (t, p) in enumerate(tps)]]]])
            opts.append([["prodone", rid, ["err", "lu"]]])
            opts.append([["prodone", rid, ["fail", [], [[t, p, "cc", True] for t, p in tps]]]])
    timers = real.pending_timers()
    if timers:
        due = min(t for _tid, t in timers) - real.client.reactor.seconds()
        from fractions import Fraction

        steps = int(Fraction(due) / Fraction(1, 16)) + 1
        opts.append([["advance", "%d/16" % max(steps, 1)]])
    if not any(e[0] == "stop" for e in events):
        outs = {}
        for rid, kind, args in pend:
            if kind == "meta":
                outs[str(rid)] = ["ok"]
            else:
                outs[str(rid)] = ["fail", [], [[D.topic_index(p.topic), p.partition, "tc", True] for p in args]]
        opts.append([["stop", bool(outs), outs]])
        if pend:
            opts.append([["stop", False, {}]])
    return opts


def exhaustive(pid, cfg, depth, nsend, prefix_choices, tally, cap=None):
    """DFS over all option sequences of length `depth` that start with `prefix_choices` (indices)"""
    batch = []

    run_cfg = {k: v for k, v in cfg.items() if k not in ("meta_ready", "hooks")}
    with_hooks = bool(cfg.get("hooks"))

    def run_prefix(events):
        real = D.RealRun(run_cfg)
        for ev in events:
            real.apply(ev)
        return real

    def rec(events, d, forced):
        real = run_prefix(events)
        opts = exh_options(real, events, nsend, hooks=with_hooks)
        if d == 0 or not opts:
            batch.append(({"cfg": run_cfg, "events": events}, real))
            if len(batch) >= 400:
                check_batch(pid, batch, tally)
                del batch[:]
            return
        if forced:
            i = forced[0]
            if i < len(opts):
                rec(events + opts[i], d - 1, forced[1:])
            return
        for o in opts:
            if cap is not None and tally.evaluations + len(batch) >= cap:
                return
            rec(events + o, d - 1, [])

    rec([["metaset", 0, 0, [0, 1]]] if cfg.get("meta_ready", True) else [], depth, list(prefix_choices))
    check_batch(pid, batch, tally)


def _exh_worker(args):
    pid, ci, first, depth, nsend, repo = args
    import sys

    if repo not in sys.path:
        sys.path.insert(0, repo)
    t = Tally()
    cfg = dict(EXH_CFGS[ci % 100])
    if (ci // 100) % 2 == 1:
        cfg["meta_ready"] = False
    if ci >= 200:
        cfg["hooks"] = True
    exhaustive(pid, cfg, depth, nsend, first, t)
    t.hist["exhaustive-sequences"] += t.evaluations
    return t


def _worker(args):
    pid, seed, n, repo = args
    import sys

    if repo not in sys.path:
        sys.path.insert(0, repo)
    t = Tally()
    random_batch(pid, seed, n, t)
    return t


def merge(res, tally):
    res.evaluations += tally.evaluations
    res.traces_validated += tally.evaluations
    for k, v in tally.hist.items():
        res.count(k, v)
    res.distinct.update(tally.nontrivial)
    for s in tally.samples:
        res.sample(s)
    res.disagreements.extend(tally.disagreements)
    for f in tally.failures:
        res.monitor_failures.append({k: f[k] for k in ("what", "scenario", "tags", "monitor", "impl_trace")})


def corpus(pid, res):
    runs = []
    for fn in sorted(glob.glob(os.path.join(CORPUS, "*.json"))):
        data = json.load(open(fn))
        if data.get("fullstack"):
            from harness.lib import producer_fullstack as FS

            data.pop("note", None)
            for f in FS.check(FS.run_script(data), pid):
                f["scenario"] = data
                res.monitor_failures.append(f)
            res.evaluations += 1
            continue
        scn = {"cfg": data["cfg"], "events": data["events"]}
        if data.get("encode_fails"):
            real, fails = run_encode_failure(pid, scn)
            res.evaluations += 1
            for m in fails:
                res.monitor_failures.append({"what": "codec not available: " + WHAT.get(m, m), "scenario": data, "monitor": m,
                                             "tags": [m, "encode-failure:" + m],
                                             "impl_trace": [[s[0]] + s[1] + [s[2]] for s in real.steps]})
            continue
        runs.append((scn, D.run_real(scn)))
    t = Tally()
    check_batch(pid, runs, t, do_shrink=False)
    res.count("corpus", len(runs))
    merge(res, t)


def scripted(ctx, res, pid, n_quick, n_thorough):
    res.rule = RULES[pid]
    corpus(pid, res)
    if ctx.tier == "thorough":
        workers = min(16, os.cpu_count() or 4)
        per = n_thorough // workers
        seeds = [ctx.rng.randrange(1 << 30) for _ in range(workers)]
        with multiprocessing.Pool(workers) as pool:
            for t in pool.map(_worker, [(pid, s, per, core.REPO) for s in seeds]):
                merge(res, t)
            # bounded-exhaustive: all sequences of 7 choices over the small alphabet, <= 3 sends, with and
            # without metadata in place; sharded by configuration and first two choices
            jobs = [(pid, ci, [a, b], 7, 3, core.REPO) for ci in range(len(EXH_CFGS)) for a in range(3) for b in range(6)]
            # ... and without metadata in place (look-ups, back-off), depth 6
            jobs += [(pid, ci + 100, [a], 6, 2, core.REPO) for ci in range(len(EXH_CFGS)) for a in range(4)]
            # ... and with re-entrant callbacks on the sends (stop / cancel / send from inside the firing loops),
            # metadata in place (depth 5) and not (depth 5: look-ups fail and fire inside _send_requests)
            jobs += [(pid, ci + 200, [a], 5, 3, core.REPO) for ci in range(len(EXH_CFGS)) for a in range(4)]
            jobs += [(pid, ci + 300, [a], 5, 3, core.REPO) for ci in range(len(EXH_CFGS)) for a in range(4)]
            for t in pool.map(_exh_worker, jobs, chunksize=1):
                merge(res, t)
    else:
        t = Tally()
        random_batch(pid, ctx.rng.randrange(1 << 30), n_quick, t)
        merge(res, t)


class raising_encoder(object):
    """the message sets cannot be built: `create_message_set` (as the Producer imported it) raises for codec 2"""

    def __enter__(self):
        import afkak.producer as AP

        self.AP, self.orig = AP, AP.create_message_set
        orig = self.orig

        def raising(requests, codec=0, *a, **kw):
            if codec == 2:
                raise NotImplementedError("Snappy codec is not available")
            return orig(requests, codec, *a, **kw)

        AP.create_message_set = raising
        return self

    def __exit__(self, *exc):
        self.AP.create_message_set = self.orig
        return False


def run_encode_failure(pid, scn):
    """one scenario of the encode-failure stage: the real Producer only, monitors without the model diff"""
    scn = {"cfg": scn["cfg"], "events": scn["events"]}
    with raising_encoder():
        real = D.run_real(scn)
        _scn, real, _d, fails = evaluate(pid, [(scn, real)])[0]
    if any(o.startswith("produce ") for s in real.steps for o in s[1]):
        fails = fails + ["encfail-transmitted"]
    return real, fails


def encode_failure_stage(ctx, res, pid):
    """BEYOND-MODEL stage (audit round 2, C01-1; F32): the message sets of a batch cannot be BUILT - the configured
    codec is not available (codec=CODEC_SNAPPY without the snappy library, which the constructor accepts), an encoder
    raises.  The model has no such input (its `_send_requests` is total), so model and code are not diffed here; the
    monitors (which need no model) are evaluated on the traces of the real Producer: every send of the batch must fire
    (c01-resolved, c01-dropped), once (c01-once), nothing is left idle over a threshold (c19-dispatch), the
    accounting holds, nothing is transmitted.  Scenarios: the scripted generator with codec 2 (encoder forced to
    raise whether or not a snappy library is installed)."""
    n = ctx.scale(250, 6000)
    rng = random.Random(ctx.rng.randrange(1 << 30))
    t = Tally()
    with raising_encoder():
        runs = []
        for _ in range(n):
            cfg = G.gen_cfg(rng, pid)
            cfg["codec"] = 2
            runs.append(G.gen_scenario(rng, pid, cfg=cfg, hooks=0.0))
        for scn, real, _d, fails in evaluate(pid, runs):
            t.evaluations += 1
            t.hist["encfail:scenarios"] += 1
            nf = sum(1 for s in real.steps for o in s[1] if o.startswith("fire ") and "NotImplementedError" in o)
            t.hist["encfail:sends-failed-with-the-encoder's-exception"] += nf
            if any(o.startswith("produce ") for s in real.steps for o in s[1]):
                fails = fails + ["encfail-transmitted"]
            for m in fails:
                if sum(1 for f in t.failures if f["monitor"] == m) >= 2:
                    continue
                t.failures.append({
                    "monitor": m, "what": "codec not available (message sets cannot be built): " + WHAT.get(m, m),
                    "scenario": dict(scn, encode_fails=True),
                    "impl_trace": [[s[0]] + s[1] + [s[2]] for s in real.steps],
                    "tags": [m, "encode-failure:" + m],
                })
    merge(res, t)


def run(ctx, res, pid):
    scripted(ctx, res, pid, n_quick=5000, n_thorough=240000)
    encode_failure_stage(ctx, res, pid)
    try:
        from harness.lib import producer_fullstack as FS
    except ImportError:
        res.notes.append("full-stack stage not available")
    else:
        FS.stage(ctx, res, pid)


def search(ctx, res, broken, pid):
    """The proof or the correspondence broke: look for an input on which the PROPERTY fails on the
    implementation (monitors are evaluated on every implementation trace, whatever the model says)."""
    found = []
    t = Tally()
    # 1. around the disagreeing scenarios: their prefixes and continuations
    for b in broken:
        w = b.get("what")
        if b["kind"] == "correspondence" and isinstance(w, dict) and "scenario" in w and not w["scenario"].get("fullstack"):
            scn = w["scenario"]
            runs = []
            rng = random.Random(ctx.seed)
            for _ in range(60):
                try:
                    base, real = G.normalize(scn)
                    ext, real2 = G.gen_scenario(rng, pid, length=len(base["events"]) + rng.choice([2, 4, 8]), cfg=base["cfg"])
                    runs.append((ext, real2))
                except Exception:
                    pass
            runs.append((scn, D.run_real(scn)))
            check_batch(pid, runs, t)
    # 2. fresh seeds, all three foci (a defect anchored elsewhere may only show under another bias)
    n = ctx.scale(6000, 40000)
    for k, focus in enumerate(G.FOCI):
        rng = random.Random((ctx.seed + 1) * 7919 + k)
        chunk = []
        for _ in range(n // 3):
            chunk.append(G.gen_scenario(rng, focus))
            if len(chunk) >= 400:
                check_batch(pid, chunk, t)
                chunk = []
                if t.failures:
                    break
        check_batch(pid, chunk, t)
        if t.failures:
            break
    for f in t.failures:
        found.append({k: f[k] for k in ("what", "scenario", "tags", "monitor", "impl_trace")})
    return found[:3]


def replay(ctx, data, pid):
    f = data.get("failure") or {}
    scn = f.get("scenario")
    if scn is None and data.get("fullstack"):
        scn = data  # a bare full-stack script
    if scn is None:
        for b in data.get("no_longer_checks", []):
            w = b.get("what")
            if isinstance(w, dict) and "scenario" in w:
                scn = w["scenario"]
                break
    if scn is not None and scn.get("fullstack"):
        from harness.lib import producer_fullstack as FS

        return FS.replay(ctx, scn, pid)
    if scn is None or "cfg" not in scn:
        print("replay: no producer scenario in this file:", json.dumps(data)[:400])
        return 2
    if scn.get("encode_fails"):
        real, fails = run_encode_failure(pid, scn)
        print("replay (encode-failure stage: the message sets cannot be built; no model diff): cfg", json.dumps(scn["cfg"]))
        for line, obs, st in real.steps:
            print("  > %s\n      impl : %s" % (line, " | ".join(obs + [st])))
        print("monitors failing on the implementation trace:", fails or "none")
        if fails:
            print("VIOLATION property=%s replay=(this file)" % pid)
            return 1
        return 0
    scn, real, d, fails = run_one(pid, scn)
    ans = core.run_model("producer", D.model_requests(real))
    print("replay: cfg", json.dumps(scn["cfg"]))
    for (line, obs, st), g in zip(real.steps, ans[2:]):
        print("  > %s" % line)
        print("      impl : %s" % " | ".join(obs + [st]))
        print("      model: %s" % " | ".join(g))
    print("model/impl:", "agree" if d is None else "DISAGREE at step %d" % d[0])
    print("monitors failing on the implementation trace:", fails or "none")
    if fails:
        print("VIOLATION property=%s replay=(this file)" % pid)
        return 1
    return 0 if d is None else 1
