"""Second stage of the consumer checks: the real `Consumer` over the REAL `KafkaClient` over real
`_KafkaBrokerClient`s over in-memory transports talking to `harness/sim/cluster.py`.

One run = a simulated cluster with a partition log built from ctx.rng (plain messages of both formats,
gzip wrappers of both formats at non-zero offsets, gaps, wrappers thinned by compaction, null/empty keys
and values, a few large messages), a consumer configuration, a start position, a fault mix (error codes,
dropped connections, leader moves, silent broker), a processor behaviour, and a script of application
calls (commit / stop / restart from the committed offset / shutdown).

Checked on the recorded run:
* C02: the delivered stream against the simulated partition log (Lean monitors `increasingOk`,
  `noOverlapOk`, `noGapOk`/`completeOk` on a trace rebuilt from the recording: offsets, keys, values as stored);
* C03: every offset the coordinator stored was processed successfully before; a consumer restarted from
  the stored offset asks for (and gets) exactly the first message after it; `last_committed_offset` only ever
  holds a value the coordinator acknowledged (an OffsetCommit answered with error 0, or the offset an
  OffsetFetch answered with error 0) - also when the coordinator answers COORDINATOR_LOAD_IN_PROGRESS /
  NOT_COORDINATOR / COORDINATOR_NOT_AVAILABLE to an OffsetFetch or OffsetCommit;
* C13: after stop()/shutdown completed: no fetch/commit request of this consumer reaches a broker, the
  processor is not invoked, no delayed call of the consumer is left; the start Deferred fired once;
* C14: the buffer announced in successive fetch requests follows the growth rule (Lean `growthOk`).
"""
import random

from harness import core

TOPIC = "t"


def _multi_member(rng, cluster):
    """Rewrite the compressed wrapper just appended so that its payload is a MULTI-MEMBER gzip stream (RFC 1952:
    members concatenated; what a flush-per-batch compressor writes and a broker stores verbatim), cut at
    arbitrary byte positions of the inner message set."""
    from harness.sim import refcodec as R

    e = cluster.log_of(TOPIC, 0).entries[-1]
    raw = R.gzip_decompress(e.msg["value"])
    if len(raw) < 2:
        return False
    cuts = sorted(set(rng.randrange(1, len(raw)) for _ in range(rng.choice([1, 1, 2]))))
    parts = [raw[a:b] for a, b in zip([0] + cuts, cuts + [len(raw)])]
    e.msg = dict(e.msg, value=b"".join(R.gzip_compress(p) for p in parts))
    e._raw = None
    return True


def build_log(rng, cluster, small, big=False, stats=None):
    """Fill t/0.  Returns nothing; the ground truth is cluster.log_of(TOPIC, 0).messages().
    `big`: at least one message is (much) larger than the small fetch buffers."""
    c = cluster
    stats = stats if stats is not None else {}
    c.add_topic(TOPIC, partitions=1)
    n_seg = rng.randrange(2, 7)
    big_seg = rng.randrange(n_seg) if big else -1
    v = 0
    if rng.random() < 0.3:
        c.log_of(TOPIC, 0).skip(rng.randrange(1, 5))
    oversize = (not big) and (not small) and rng.random() < 0.15   # one message larger than the initial buffer, in any run
    over_seg = rng.randrange(n_seg) if oversize else -1
    for seg in range(n_seg):
        k = rng.randrange(1, 5)
        vals = []
        for j in range(k):
            r = rng.random()
            if seg == big_seg and j == 0:
                vals.append(bytes([97 + v % 26]) * rng.choice([600, 2000, 5000, 20000]))
                stats["big"] = stats.get("big", 0) + 1
            elif seg == over_seg and j == 0:
                vals.append(bytes([97 + v % 26]) * rng.choice([5000, 9000]))
                stats["larger_than_buffer"] = stats.get("larger_than_buffer", 0) + 1
            elif r < 0.08:
                vals.append(None)
            elif r < 0.16:
                vals.append(b"")
            elif r < 0.22 and not small:
                vals.append(bytes([65 + v % 26]) * rng.choice([300, 900, 2000]))
            else:
                vals.append(b"v%d" % v)
            v += 1
        keys = [rng.choice([None, b"", b"k%d" % i]) for i in range(k)]
        kind = rng.randrange(6)
        if kind == 0:
            c.append(TOPIC, 0, vals, keys=keys)
        elif kind == 1:
            c.append(TOPIC, 0, vals, keys=keys, magic=1)
        elif kind == 2:
            c.append(TOPIC, 0, vals, keys=keys, magic=0, codec="gzip")
        elif kind == 3:
            c.append(TOPIC, 0, vals, keys=keys, magic=1, codec="gzip")
        elif kind == 4 and k >= 2:
            # a v1 wrapper thinned by compaction: inner relative offsets with gaps
            base = c.log_of(TOPIC, 0).next
            offs, o = [], base
            for _ in range(k):
                offs.append(o)
                o += rng.choice([1, 2, 4])
            # (a v0 wrapper carries absolute inner offsets: a compacted one has gaps too)
            mg = rng.choice([1, 1, 0])
            c.append(TOPIC, 0, vals, keys=keys, magic=mg, codec="gzip", offsets=offs)
            stats["wrapper_with_gaps_v%d" % mg] = stats.get("wrapper_with_gaps_v%d" % mg, 0) + 1
        else:
            c.append(TOPIC, 0, vals, keys=keys, magic=rng.choice([0, 1]))
        if kind in (2, 3) or (kind == 4 and k >= 2):
            if rng.random() < 0.4 and _multi_member(rng, c):
                stats["multi_member_gzip"] = stats.get("multi_member_gzip", 0) + 1
        if rng.random() < 0.3:
            c.log_of(TOPIC, 0).skip(rng.randrange(1, 4))


def gen_spec(rng):
    small = rng.random() < 0.5
    return {
        "seed": rng.randrange(1 << 30),
        "brokers": rng.choice([1, 2, 3]),
        "small": small,
        "buffer": rng.choice([256, 512, 4096]) if small else rng.choice([256, 1024, 4096]),
        "max_buffer": rng.choice([None, 65536, 2 ** 21]),
        "group": rng.random() < 0.6,
        "auto_n": rng.choice([0, 1, 2, 3]),
        "behaviour": rng.choice(["sync", "sync", ["async", 0.05], ["async", 0.4]]),
        "start": rng.choice(["earliest", "earliest", "zero", "inside", "latest", "committed"]),
        "faults": [rng.choice(["none", "none", "error6", "error3", "error7", "drop_after", "drop_before", "leader_move", "delay",
                               "bounce_newaddr", "leader_down"])
                   for _ in range(rng.randrange(0, 3))],
        "script": rng.choice(["run", "run", "stop-restart", "shutdown-restart", "commit-stop-resume", "stop-early"]),
        "api_versions": rng.choice(["default", "default", "old"]),
        # coordinator answers an OffsetFetch / OffsetCommit with a retriable coordinator error (group runs only)
        "group_fault": rng.choice([None, None, None, ["OffsetFetch", 14], ["OffsetFetch", 14], ["OffsetFetch", 15], ["OffsetFetch", 16],
                                   ["OffsetCommit", 14], ["OffsetCommit", 14], ["OffsetCommit", 15], ["OffsetCommit", 16]]),
        "group_fault_nth": rng.choice([1, 1, 2]),
        "prestored": rng.random() < 0.4,
        # while the consumer is stopped the group's stored offset moves without this Consumer object learning of it
        # (a commit by another member that owned the partition meanwhile / a commit whose reply was lost)
        "foreign_commit": rng.random() < 0.5,
    }


def gen_outage_spec(rng):
    """The group coordinator (a broker other than the partition leader) hangs with a commit in flight and dies; the
    commit times out in the client and is retried - by then with a later offset - at the broker that took the group
    over; later the old broker comes back and is the coordinator again.  What the consumer was told is committed must
    be what the coordinator holds."""
    spec = gen_spec(rng)
    spec.update(brokers=rng.choice([2, 3]), group=True, auto_n=rng.choice([1, 1, 2]), behaviour="sync", faults=[], script="coord-outage",
                start=rng.choice(["earliest", "zero"]), group_fault=None, prestored=False, foreign_commit=False, api_versions="default",
                outage={"hang_at": rng.choice([1.0, 1.25]), "dies_after": rng.choice([0.5, 0.75, 1.0]), "back_after": rng.choice([3.5, 4.0, 5.0]),
                        "first": rng.choice([1, 2, 3]), "second": rng.choice([1, 2, 4])})
    return spec


def gen_growth_spec(rng):
    """An undisturbed run from the beginning over a log that holds a message larger than the fetch buffer: the buffer
    must grow and everything must be delivered."""
    spec = gen_spec(rng)
    spec.update(small=False, big=True, buffer=rng.choice([128, 256, 512]), max_buffer=rng.choice([None, None, 2 ** 21, 2 ** 16]),
                start=rng.choice(["earliest", "zero"]), faults=[], script="run", group_fault=None,
                behaviour=rng.choice(["sync", "sync", ["async", 0.05]]))
    return spec


def run_spec(spec):
    """-> dict with everything the checks need (JSON-able except bytes, which are hex-encoded)."""
    from harness.sim.cluster import Cluster
    from harness.sim.fullstack import Determinism, Recorder, make_client, make_consumer

    rng = random.Random(spec["seed"])
    c = Cluster(brokers=spec["brokers"], rng=random.Random(spec["seed"] + 1))
    if spec["api_versions"] == "old":
        for b in c.brokers.values():
            b.max_magic = 0 if rng.random() < 0.5 else 1
    log_stats = {}
    build_log(rng, c, spec["small"], big=spec.get("big", False), stats=log_stats)
    truth = c.log_of(TOPIC, 0).messages()  # [(offset, key, value, ts, magic)]
    offs = [m[0] for m in truth]
    rec = Recorder(c)
    out = {"truth": [(m[0], m[1], m[2]) for m in truth], "errors": [], "log_stats": log_stats}
    kw = dict(buffer_size=spec["buffer"], max_buffer_size=spec["max_buffer"], request_retry_init_delay=0.05, request_retry_max_delay=0.5)
    if spec["group"]:
        kw.update(consumer_group="g", auto_commit_every_n=spec["auto_n"], auto_commit_every_ms=0)
    start = spec["start"]
    if start == "zero":
        start_off = 0
    elif start == "inside":
        start_off = rng.choice(offs) + rng.choice([0, 0, 1]) if offs else 0
    elif start == "earliest":
        start_off = -2
    elif start == "latest":
        start_off = -1
    else:
        start_off = -101 if spec["group"] else -2
    behaviour = tuple(spec["behaviour"]) if isinstance(spec["behaviour"], list) else spec["behaviour"]
    with Determinism(c, spec["seed"]):
        cl = make_client(c, timeout=2000)
        # faults
        for i, f in enumerate(spec["faults"]):
            nth = rng.randrange(1, 5)
            if f.startswith("error"):
                c.inject("error", api="Fetch", code=int(f[5:]), nth=nth)
            elif f in ("drop_after", "drop_before"):
                c.inject(f, api="Fetch", nth=nth)
            elif f == "delay":
                c.inject("delay", api="Fetch", seconds=0.7, nth=nth)
        gf = spec.get("group_fault")
        if gf and spec["group"]:
            c.inject("error", api=gf[0], code=gf[1], nth=spec.get("group_fault_nth", 1))
        if spec.get("prestored") and spec["group"] and offs:
            # an offset committed by an earlier incarnation of this consumer
            pre = rng.choice(offs)
            c.offsets[("g", TOPIC, 0)] = dict(t=0.0, group="g", topic=TOPIC, partition=0, offset=pre, metadata="", generation=-1,
                                              member="", broker=c.coordinator_of("g"), conn=None, corr=None)
            out["prestored"] = pre
        outage = spec.get("outage") if spec["script"] == "coord-outage" else None
        coord = None
        if outage:
            lead = c.leader_of(TOPIC, 0)
            coord = rng.choice([b for b in c.alive_ids() if b != lead])
            c.set_coordinator("g", coord)
            out["outage_coordinator"] = coord
        co = make_consumer(cl, TOPIC, 0, rec, name="c", behaviour=behaviour, **kw)
        out["committed_at_start"] = {"start#1": c.committed("g", TOPIC, 0) if spec["group"] else None}
        out["lc_samples"] = []
        rec.call("start#1", co.start, start_off)
        t_end = 12.0
        step = 0.25
        script = spec["script"]
        moved = False
        bounced = False
        downed = False
        restarted = False
        phase = 1
        t = 0.0
        while t < t_end:
            c.advance(step)
            t += step
            out["lc_samples"].append((c.clock.seconds(), co.last_committed_offset))
            if "leader_move" in spec["faults"] and not moved and t >= 0.5 and spec["brokers"] > 1:
                moved = True
                cur = c.leader_of(TOPIC, 0)
                others = [b for b in c.alive_ids() if b != cur]
                if others:
                    c.move_leader(TOPIC, 0, rng.choice(others))
            if outage:
                # phases: 1 running -> 11 coordinator hangs -> 12 new messages (their commit is swallowed) -> 13 the hung
                # broker dies (the group fails over) -> 14 more messages -> 15 the old broker is back and coordinator again
                t0 = outage["hang_at"]
                if phase == 1 and t >= t0:
                    c.brokers[coord].silent = True
                    phase = 11
                elif phase == 11 and t >= t0 + 0.25:
                    c.append(TOPIC, 0, [b"o%d" % i for i in range(outage["first"])])
                    phase = 12
                elif phase == 12 and t >= t0 + 0.25 + outage["dies_after"]:
                    c.kill_broker(coord)
                    phase = 13
                elif phase == 13 and t >= t0 + 0.5 + outage["dies_after"]:
                    c.append(TOPIC, 0, [b"p%d" % i for i in range(outage["second"])])
                    phase = 14
                elif phase == 14 and t >= t0 + 0.5 + outage["dies_after"] + outage["back_after"]:
                    c.brokers[coord].silent = False
                    c.start_broker(coord)
                    c.move_coordinator("g", coord)
                    phase = 15
            if "bounce_newaddr" in spec["faults"] and not bounced and t >= 0.75 and spec["brokers"] > 1:
                # the partition leader is restarted and comes back at a NEW address (the old one refuses): the client has to
                # learn the address from fresh metadata (served by another broker: with a single broker nobody could tell it)
                bounced = True
                cur = c.leader_of(TOPIC, 0)
                if cur is not None and cur != -1:
                    c.restart_broker(cur, port=c.brokers[cur].port + 1000)
            if "leader_down" in spec["faults"] and not downed and t >= 1.0 and spec["brokers"] > 1:
                # the leader dies with a fetch parked at it; another replica takes over (and the group, if it coordinated it)
                downed = True
                cur = c.leader_of(TOPIC, 0)
                others = [b for b in c.alive_ids() if b != cur]
                if others and cur is not None and cur != -1:
                    c.move_leader(TOPIC, 0, rng.choice(others), old="down")
            if script == "stop-early" and phase == 1 and t >= 0.25:
                rec.call("stop#1", co.stop)
                out["t_stop1"] = c.clock.seconds()
                phase = 9
            if script in ("stop-restart", "commit-stop-resume") and phase == 1 and t >= 1.5:
                if script == "commit-stop-resume" and spec["group"]:
                    rec.call("commit#1", co.commit)
                    c.advance(0.5)
                    t += 0.5
                rec.call("stop#1", co.stop)
                out["t_stop1"] = c.clock.seconds()
                out["committed_at_stop"] = c.committed("g", TOPIC, 0) if spec["group"] else None
                phase = 2
            elif script == "shutdown-restart" and phase == 1 and t >= 1.5:
                rec.call("shutdown#1", co.shutdown)
                phase = 3
            elif phase == 3 and rec.outcome("shutdown#1") is not None:
                out["t_stop1"] = c.clock.seconds()
                out["committed_at_stop"] = c.committed("g", TOPIC, 0) if spec["group"] else None
                phase = 2
            elif phase == 2 and t >= 3.0 and not restarted:
                restarted = True
                lp = co.last_processed_offset
                if (spec.get("foreign_commit") and spec["group"] and offs and out.get("committed_at_stop") is not None
                        and out["committed_at_stop"] >= 0):
                    others = [o for o in offs if o != out["committed_at_stop"]]
                    if others:
                        moved_to = rng.choice(others)
                        c.offsets[("g", TOPIC, 0)] = dict(t=c.clock.seconds(), group="g", topic=TOPIC, partition=0, offset=moved_to, metadata="",
                                                          generation=-1, member="", broker=c.coordinator_of("g"), conn=None, corr=None)
                        out["foreign_commit"] = moved_to
                        out["committed_at_stop"] = moved_to
                if spec["group"] and out.get("committed_at_stop") is not None and out["committed_at_stop"] >= 0:
                    out["resume_from"] = ("committed", out["committed_at_stop"])
                    out["committed_at_start"]["start#2"] = c.committed("g", TOPIC, 0)
                    rec.call("start#2", co.start, -101)
                else:
                    out["resume_from"] = ("numeric", (lp + 1) if lp is not None else (offs[0] if offs else 0))
                    rec.call("start#2", co.start, out["resume_from"][1])
                out["t_start2"] = c.clock.seconds()
                phase = 4
        if co._start_d is not None:
            rec.call("stop#final", co.stop)
        out["t_final_stop"] = c.clock.seconds()
        out["lc_samples"].append((c.clock.seconds(), co.last_committed_offset))
        c.advance(3.0)  # nothing may happen any more
        out["delayed_after"] = [repr(getattr(dc.func, "__qualname__", dc.func)) for dc in c.clock.getDelayedCalls()
                                if "Consumer" in repr(getattr(dc.func, "__qualname__", "")) or "LoopingCall" in repr(dc.func)]
        rec.call("close", cl.close)
        c.advance(1.0)
    if outage:
        out["truth"] = [(m[0], m[1], m[2]) for m in c.log_of(TOPIC, 0).messages()]  # messages were appended during the run
    out["violations"] = [(v["what"], str(v["error"])[:80]) for v in c.violations]
    out["events"] = rec.events
    out["requests"] = [e for e in c.log if e.get("kind") == "request" and e.get("client_id") == cl.clientId]
    out["last_processed"] = co.last_processed_offset
    out["last_committed"] = co.last_committed_offset
    out["stored"] = c.committed("g", TOPIC, 0) if spec["group"] else None
    out["start_off"] = start_off
    return out


def _fetch_offsets(req):
    """(offset, max_bytes) of our partition in a Fetch request body parsed by refcodec."""
    for t in req["request"].get("topics", []):
        if t.get("topic") == TOPIC:
            for p in t.get("partitions", []):
                if p.get("partition") == 0:
                    return p.get("fetch_offset", p.get("offset")), p.get("max_bytes")
    return None, None


def analyse(spec, out):
    """-> (problems [(property, what)], lean lines for the monitors, names of the lean monitors)"""
    probs = []
    truth = out["truth"]
    index = {(o, k, v): i + 1 for i, (o, k, v) in enumerate(truth)}
    evs = out["events"]
    procs = [e for e in evs if e["kind"] == "proc" and e["name"] == "c"]
    # ---- the trace for the Lean monitors
    lines = ["new group=%d autoN=0 autoS=0 buf=%d max=%s init=1/20 maxd=1/2 attempts=0 reset=- cancelReq=- cancelCommit=-"
             % (1 if spec["group"] else 0, spec["buffer"], "-" if spec["max_buffer"] is None else spec["max_buffer"]), "tr-reset"]
    reqs = out["requests"]
    merged = sorted(list(evs) + list(reqs), key=lambda e: e["n"])
    nfetch = 0
    unknown = 0
    for e in merged:
        k = e.get("kind")
        if k == "issued" and e.get("label", "").startswith("start#"):
            off = out["start_off"] if e["label"] == "start#1" else (-101 if out.get("resume_from", ("", 0))[0] == "committed" else out["resume_from"][1])
            lines.append("tr ev start %d" % off)
        elif k == "request" and e["api"] == "ListOffsets" and e.get("response"):
            try:
                o = e["response"]["topics"][0]["partitions"][0]["offsets"][0]
                lines.append("tr ev offsetDone 0 ok %d" % o)
            except (KeyError, IndexError):
                pass
        elif k == "request" and e["api"] == "OffsetFetch" and e.get("response"):
            try:
                o = e["response"]["topics"][0]["partitions"][0]["offset"]
                lines.append("tr ev offsetFetchDone 0 ok %d" % o)
            except (KeyError, IndexError):
                pass
        elif k == "request" and e["api"] == "Fetch":
            off, mb = _fetch_offsets(e)
            if off is not None:
                lines.append("tr ob fetch %d %d %d" % (nfetch, off, mb))
                lines.append("tr ev fetchDone %d ok - %s" % (nfetch, "small" if _is_partial(e, truth, off, mb) else "end"))
                nfetch += 1
        elif k == "proc" and e["name"] == "c":
            items = []
            for o, kk, vv in zip(e["offsets"], e["keys"], e["values"]):
                pid = index.get((o, kk, vv), 0)
                if pid == 0:
                    unknown += 1
                items.append("%d:%d" % (o, pid))
            lines.append("tr ob proc " + ",".join(items))
            lines.append("tr ob procRet " + ("ok" if spec["behaviour"] == "sync" else "defer"))
            if e.get("prev_pending"):
                probs.append(("C02", "processor invoked while the previous result was pending: offsets %s" % e["offsets"]))
        elif k == "proc-done" and e["name"] == "c":
            lines.append("tr ev procDone ok" if e.get("ok") else "tr ob procCancel")
        elif k == "proc-cancelled" and e["name"] == "c":
            pass
        elif k == "returned" and e.get("label", "").startswith("stop#"):
            lines.append("tr ob stopReturned %s" % ("none" if e["result"] is None else e["result"]))
        elif k == "deferred" and e.get("label", "").startswith("start#"):
            r = e["result"]
            if e["ok"]:
                lines.append("tr ob startFired ok %s" % ("none" if r is None else r))
            else:
                lines.append("tr ob startFired err ext:kafka:1")
    log_arg = ",".join("%d:%d" % (o, i + 1) for i, (o, _, _) in enumerate(truth)) or "-"
    mons = ["mon c02-increasing", "mon c02-no-overlap", "mon c13-fires-once", "mon-nogap " + log_arg, "mon c14-growth"]
    names = ["c02-increasing", "c02-no-overlap", "c13-fires-once", "c02-nogap", "c14-growth"]
    if unknown:
        probs.append(("C02", "%d delivered messages are not (offset, key, value) triples of the partition log" % unknown))
    # ---- completeness of the first run when it ran to the end undisturbed by fatal errors
    delivered = [(e["offsets"], e["keys"], e["values"]) for e in procs]
    flat = [(o, k, v) for offs, ks, vs in delivered for o, k, v in zip(offs, ks, vs)]
    start_failed = any(e["kind"] == "deferred" and e.get("label", "").startswith("start#") and not e["ok"] for e in evs)
    if spec["script"] == "run" and not start_failed and spec["start"] in ("earliest", "zero") and not out["violations"]:
        fits = all((len(v or b"") + len(k or b"") + 60) <= (spec["max_buffer"] or 10 ** 9) for _, k, v in truth)
        if fits and flat != truth:
            probs.append(("C02", "undisturbed run from the beginning delivered %d of %d log messages (first difference at index %d)"
                          % (len(flat), len(truth), next((i for i, (a, b) in enumerate(zip(flat, truth)) if a != b), min(len(flat), len(truth))))))
    # ---- C14/C02: a fetch answered with nothing but a partial message makes the NEXT fetch of that position ask for more
    #      (or, at the maximum, the start Deferred fails): the message is never skipped and never waited for in vain
    fetches = [r for r in reqs if r["api"] == "Fetch" and _fetch_offsets(r)[0] is not None]
    for a, b in zip(fetches, fetches[1:]):
        oa, ma = _fetch_offsets(a)
        ob, mb = _fetch_offsets(b)
        if _is_partial(a, truth, oa, ma) and a.get("response") and not any(
                e["kind"] == "issued" and e.get("label", "").startswith(("start#", "stop#")) and a["n"] < e["n"] < b["n"] for e in evs):
            at_max = spec["max_buffer"] is not None and ma >= spec["max_buffer"]
            if ob == oa and mb <= ma and not at_max:
                probs.append(("C14", "fetch at offset %d with max_bytes=%d was answered with only a partial message; the next fetch asks for offset %d with max_bytes=%d: the buffer did not grow (max_buffer_size=%s)"
                              % (oa, ma, ob, mb, spec["max_buffer"])))
                break
            if ob > oa:
                probs.append(("C14", "fetch at offset %d (max_bytes=%d) answered with only a partial message; the next fetch asks for offset %d: the message was skipped" % (oa, ma, ob)))
                break
    # ---- C13: nothing after the stop completed
    t_final = out["t_final_stop"]
    late_reqs = [r for r in reqs if r["t"] > t_final + 1e-9 and r["api"] in ("Fetch", "OffsetCommit", "ListOffsets", "OffsetFetch")]
    if late_reqs:
        probs.append(("C13", "%d request(s) reached a broker after stop() returned: %s" % (len(late_reqs), [(r["api"], round(r["t"], 3)) for r in late_reqs[:4]])))
    late_procs = [e for e in procs if e["t"] > t_final + 1e-9]
    if late_procs:
        probs.append(("C13", "processor invoked after stop() returned: offsets %s" % late_procs[0]["offsets"]))
    if out["delayed_after"]:
        probs.append(("C13", "delayed calls of the consumer left after stop(): %s" % out["delayed_after"]))
    if "t_stop1" in out:
        hi = out.get("t_start2", t_final)
        mid = [r for r in reqs if out["t_stop1"] + 1e-9 < r["t"] < hi - 1e-9 and r["api"] in ("Fetch", "OffsetCommit", "ListOffsets", "OffsetFetch")]
        if mid and spec["script"] != "shutdown-restart":
            probs.append(("C13", "%d request(s) reached a broker between stop() and the next start(): %s" % (len(mid), [(r["api"], round(r["t"], 3)) for r in mid[:4]])))
        midp = [e for e in procs if out["t_stop1"] + 1e-9 < e["t"] < hi - 1e-9]
        if midp:
            probs.append(("C13", "processor invoked between stop() and the next start(): offsets %s" % midp[0]["offsets"]))
    for label in ("start#1", "start#2"):
        n = sum(1 for e in evs if e["kind"] == "deferred" and e.get("label") == label)
        issued = any(e["kind"] == "issued" and e.get("label") == label for e in evs)
        if issued and n != 1:
            probs.append(("C13", "the Deferred of %s fired %d times" % (label, n)))
    # ---- C03: what the coordinator stored was processed; resume at stored + 1
    if spec["group"]:
        done = set()
        pending = {}
        for e in merged:
            k = e.get("kind")
            if k == "proc" and e["name"] == "c":
                if spec["behaviour"] == "sync":
                    done.update(e["offsets"])
                else:
                    pending[tuple(e["offsets"])] = e["offsets"]
            elif k == "proc-done" and e["name"] == "c" and e.get("ok"):
                done.update(e["offsets"])
            elif k == "request" and e["api"] == "OffsetCommit":
                try:
                    off = e["request"]["topics"][0]["partitions"][0]["offset"]
                except (KeyError, IndexError):
                    continue
                if off not in done and off >= 0:
                    probs.append(("C03", "commit request for offset %d which had not been processed successfully (processed: %s)" % (off, sorted(done)[-5:])))
        # last_committed_offset only holds what the coordinator acknowledged
        acks = []
        for r in reqs:
            try:
                if r["api"] == "OffsetCommit" and r.get("response"):
                    if r["response"]["topics"][0]["partitions"][0]["error_code"] == 0:
                        acks.append((r["t"], r["request"]["topics"][0]["partitions"][0]["offset"]))
                elif r["api"] == "OffsetFetch" and r.get("response"):
                    pr = r["response"]["topics"][0]["partitions"][0]
                    if pr["error_code"] == 0 and pr["offset"] >= 0:
                        acks.append((r["t"], pr["offset"]))
            except (KeyError, IndexError, TypeError):
                continue
        for ts, lc in out.get("lc_samples", []):
            if lc is not None and not any(t0 <= ts + 1e-9 and o == lc for t0, o in acks):
                probs.append(("C03", "last_committed_offset = %s at t=%.2f but the coordinator never acknowledged that offset (acknowledged: %s; stored now: %s)"
                              % (lc, ts, sorted({o for _, o in acks})[-4:], out["stored"])))
                break
        # one consumer, one run, no other writer: what the coordinator applies never goes backwards, and what the consumer
        # was told is committed is what the coordinator holds in the end
        if spec["script"] == "coord-outage":
            applied = []
            for r in sorted(reqs, key=lambda r: r["n"]):
                try:
                    if r["api"] == "OffsetCommit" and r.get("response") and r["response"]["topics"][0]["partitions"][0]["error_code"] == 0:
                        applied.append(r["request"]["topics"][0]["partitions"][0]["offset"])
                except (KeyError, IndexError, TypeError):
                    continue
            back = [(a, b) for a, b in zip(applied, applied[1:]) if b < a]
            if back:
                probs.append(("C03", "the coordinator applied a commit of offset %d AFTER it had acknowledged offset %d to this consumer (one run, no restart): "
                              "applied in order %s" % (back[0][1], back[0][0], applied[-6:])))
            if out["last_committed"] is not None and out["stored"] != out["last_committed"]:
                probs.append(("C03", "after the run last_committed_offset = %s but the group's stored offset is %s (no other writer): a consumer "
                              "started from the committed position would %s" % (out["last_committed"], out["stored"],
                                                                                "get messages again" if (out["stored"] or -1) < out["last_committed"] else "skip messages")))
        # a start from the committed offset asks for the message after the stored offset
        issued = {e["label"]: e["n"] for e in evs if e["kind"] == "issued" and e.get("label", "").startswith("start#")}
        for label, stored in (out.get("committed_at_start") or {}).items():
            is_committed_start = (label == "start#1" and out["start_off"] == -101) or (label == "start#2" and out.get("resume_from", ("", 0))[0] == "committed")
            if not is_committed_start or stored is None or stored < 0 or label not in issued:
                continue
            nxt = min([n for l, n in issued.items() if n > issued[label]] + [10 ** 12])
            fetches = [r for r in reqs if r["api"] == "Fetch" and issued[label] < r["n"] < nxt]
            if fetches:
                off, _ = _fetch_offsets(fetches[0])
                if off is not None and off != stored + 1:
                    probs.append(("C03", "%s from the committed offset: the coordinator holds %d, the first fetch asks for offset %d (expected %d)"
                                  % (label, stored, off, stored + 1)))
        rf = out.get("resume_from")
        if rf and rf[0] == "committed":
            after = [e for e in procs if e["t"] >= out["t_start2"] - 1e-9]
            if after:
                first = after[0]["offsets"][0]
                expect = next((o for o, _, _ in truth if o > rf[1]), None)
                if expect is not None and first != expect:
                    probs.append(("C03", "restart from committed offset %d: first delivered offset %d, expected %d" % (rf[1], first, expect)))
    if out["violations"]:
        probs.append(("C04", "protocol violations seen by the simulated brokers: %s" % out["violations"][:2]))
    return probs, lines + mons, names


def _is_partial(req, truth, off, mb):
    """Did the broker answer this fetch with nothing but a partial message (the consumer must grow its buffer)?"""
    for a in req.get("applied") or []:
        if a.get("op") == "fetch" and a.get("topic") == TOPIC and a.get("partition") == 0:
            return a.get("whole_entries") == 0 and a.get("partial_tail", 0) > 0
    return False


def run_stage(ctx, res, pid, n, gen=None, mine=None, label="fullstack"):
    """n full-stack runs; failures of THIS property go to res.monitor_failures.  `gen`: spec generator (default
    gen_spec); `mine`: the property ids whose problems count as failures of the calling check (default: pid)."""
    import json

    gen = gen or gen_spec
    mine = set(mine) if mine is not None else ({pid, "C04"} if pid == "C02" else {pid})
    lines_all, metas = [], []
    for i in range(n):
        spec = gen(ctx.rng)
        try:
            out = run_spec(spec)
        except Exception as e:  # the simulation could not run this spec: not a verdict
            res.count("fullstack:error:" + type(e).__name__)
            res.notes.append("full-stack run failed to execute: %s %r" % (type(e).__name__, str(e)[:200]))
            continue
        probs, lines, names = analyse(spec, out)
        res.count(label + ":runs")
        res.count("fullstack:script=" + spec["script"])
        for k, v in (out.get("log_stats") or {}).items():
            res.count("fullstack:log:" + k, v)
        if any(_is_partial(r, out["truth"], *_fetch_offsets(r)) for r in out["requests"] if r["api"] == "Fetch" and _fetch_offsets(r)[0] is not None):
            res.count("fullstack:runs-with-a-partial-only-answer")
        if "foreign_commit" in out:
            res.count("fullstack:foreign-commit-before-restart")
        for f in spec["faults"]:
            res.count("fullstack:fault=" + f)
        if spec.get("group_fault") and spec["group"]:
            res.count("fullstack:coordinator-error=%s:%d" % tuple(spec["group_fault"]))
        res.count("fullstack:delivered", sum(len(e["offsets"]) for e in out["events"] if e["kind"] == "proc"))
        lines_all.append(lines)
        metas.append((spec, probs, names, len(lines)))
    flat = [l for ls in lines_all for l in ls]
    answers = core.run_model("consumer", flat) if flat else []
    pos = 0
    for spec, probs, names, n_lines in metas:
        ans = answers[pos:pos + n_lines]
        pos += n_lines
        for l, a in zip(lines_all[metas.index((spec, probs, names, n_lines))] if False else [], []):
            pass
        verdicts = ans[-len(names):]
        bad_tr = [a for a in ans[2:-len(names)] if a]
        if bad_tr:
            raise core.Undecided("full-stack trace line not understood by the driver: %r" % bad_tr[:2])
        for nm, a in zip(names, verdicts):
            if a != ["ok"]:
                probs.append((nm[:3].upper(), "Lean monitor %s rejects the full-stack trace" % nm))
        for prop, what in probs:
            if prop in mine:
                res.monitor_failures.append({"what": "full stack: " + what, "scenario": {"fullstack_spec": spec}, "monitor": "fullstack", "tags": ["fullstack"]})
            else:
                res.count("fullstack:other-property-problem:" + prop)
    res.extra[label + "_runs"] = res.hist.get(label + ":runs", 0)
    res.traces_validated += len(metas)


def growth_stage(ctx, res, pid, n, mine=("C02", "C14", "C12")):
    """n undisturbed full-stack runs (real Consumer over the real KafkaClient over the simulated cluster) from the beginning
    of a log that holds a message larger than the fetch buffer: the buffer must grow by the rule and EVERY message must be
    delivered.  Every problem found (never-delivered message, buffer not growing, skipped message, growth rule) counts as
    a failure of the calling check `pid` - callable from other packages' checks (e.g. harness/props/c12.py)."""
    run_stage(ctx, res, pid, n, gen=gen_growth_spec, mine=set(mine) | {pid}, label="fullstack-growth")


def replay_spec(spec):
    out = run_spec(spec)
    probs, lines, names = analyse(spec, out)
    answers = core.run_model("consumer", lines)
    verdicts = dict(zip(names, [a for a in answers[-len(names):]]))
    return out, probs, verdicts
