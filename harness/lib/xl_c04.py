"""C04 end to end: every frame a broker RECEIVES.

The real Producer over the real KafkaClient (version discovery on) over the simulated cluster, with fault
schedules around version discovery: transport failures of produce requests (lost before / after being
applied, swallowed, answered late, answer cut), brokers that do not answer ApiVersions for N x timeout (from
the start, or in a window after a produce request failed), whole brokers hung and healed, pre-0.10 brokers,
ApiVersions answered with an error code, wide / permuted version tables, broker errors, restarts, chunked
delivery; a fetch of everything through the real client at the end.

Judged:
  * every frame parses under the independent codec harness/sim/refcodec.py, strictly, under the version in
    its header, and that version is one the receiving broker advertises (cluster.violations is empty);
  * Lean monitors (Afkak/Monitor/C04.lean via `model_wire`): for every Produce / Fetch frame
    `versionVerdict table key headerVersion magics` with the receiving broker's table (header version
    advertised and implemented, message format allowed by it: format 1 only from Produce v2 on) or, for a
    broker without a table, and for every frame received before any ApiVersions request was answered
    without error, `fallbackOk` (version 0, format 0);
  * the messages inside a Produce frame are whole sends of the script (key and values, in order), the
    wrapper's compression attribute is the producer's codec;
  * an acknowledged send reports the base offset the broker answered (the reply was decoded under the
    layout of the version that was sent); what the final fetch decodes is a prefix of the partition log.
"""
import collections
import random

from harness.lib import xl_run as X
from harness.lib.wire_common import vr

ALL_KEYS = [(0, 0, 2), (1, 0, 2), (2, 0, 0), (3, 0, 1), (4, 0, 0), (5, 0, 0), (6, 0, 2), (7, 1, 1), (8, 0, 2),
            (9, 0, 1), (10, 0, 0), (11, 0, 0), (12, 0, 0), (13, 0, 0), (14, 0, 0), (15, 0, 0), (16, 0, 0), (17, 0, 0), (18, 0, 0)]


def gen_api(rng):
    kind = rng.choice(["default", "default", "permuted", "wide", "wide", "old-close", "old-ignore", "error"])
    if kind in ("old-close", "old-ignore"):
        return kind, {"table": None, "old_mode": kind[4:]}
    table = [list(e) for e in ALL_KEYS]
    if kind in ("wide", "permuted"):
        for e in table:
            if e[0] in (0, 1):
                e[2] = rng.choice([2, 3, 5, 7, 11])
    if kind in ("permuted", "wide") and rng.random() < 0.7:
        rng.shuffle(table)
    api = {"table": table}
    if kind == "error":
        api["error"] = rng.choice([35, 2, -1])
    return kind, api


def gen_script(rng):
    brokers = rng.choice([1, 1, 2, 3])
    nodes = list(range(1, brokers + 1))
    topics = []
    for name in ["v0", "v1"][: rng.choice([1, 1, 2])]:
        n = rng.choice([1, 1, 2, 3])
        order = list(range(n))
        rng.shuffle(order)
        topics.append({"name": name, "order": order, "leaders": [rng.choice(nodes) for _ in order],
                       # the format the broker keeps the log in: as produced | converted to 0 | to 1 (fetch replies are built from it)
                       "message_format": rng.choice([None, None, 0, 1])})
    api_kind, api = gen_api(rng)
    timeout = rng.choice([1000, 1000, 2000])
    ts = timeout / 1000.0
    batch = rng.random() < 0.3
    partitioner = rng.choice(["rr", "hashed"])
    prod = {
        "req_acks": rng.choice([1, 1, 1, -1, 0]),
        "max_req_attempts": rng.choice([5, 10, 30, 30]),
        "retry_interval": rng.choice([0.1, 0.25]),
        "batch_send": batch,
        "batch_every_n": rng.choice([2, 3]) if batch else 10,
        "batch_every_b": 32768,
        "batch_every_t": rng.choice([0.5, 1]) if batch else 30,
        "codec": rng.choice([None, None, 1]),
        "partitioner": partitioner,
    }
    # further producers with settings of their own SHARING the client: the frame a broker receives must
    # carry the acks / timeout of the producer whose messages it holds
    producers = []
    stagger = rng.random() < 0.12
    # (one Producer never has two produce requests in flight: overlapping discoveries need several callers)
    if stagger or rng.random() < 0.3:
        prod["ack_timeout"] = rng.choice([1000, 1500, 3000])
        for _ in range(rng.choice([1, 1, 2])):
            p2 = dict(prod)
            p2.update({"req_acks": rng.choice([1, -1, -1, 0]), "ack_timeout": rng.choice([250, 500, 2500, 5000, 30000]), "codec": rng.choice([None, 1])})
            producers.append(p2)
    steps = []
    plots = []
    span = rng.choice([3, 10, 25]) * ts
    nsend = rng.choice([3, 5, 8, 12])
    times = sorted(round(rng.random() * span, 3) for _ in range(nsend))
    if rng.random() < 0.7:
        times[0] = 0.0
    if stagger:
        # several version discoveries overlap: requests issued at different moments while the table is
        # unknown each start a discovery of their own; the earlier one gives up (nobody answers its rounds:
        # 3 failures of (known brokers + bootstrap hosts) x timeout), a later one has a request in flight at
        # that moment which is answered LATE - after the earlier fell back; sends before, between and after
        m = rng.choice([3 * (brokers + 1), 3 * (brokers + 1), 3 * (brokers + 1), 3 * brokers, 3, 6])  # rounds until the first gives up
        phi = rng.choice([0.15, 0.3, 0.5, 0.7, 0.85])  # phase of the later discovery's requests
        late = round(rng.choice([x for x in (0.3, 0.5, 0.7, 0.9, 0.97) if x > 1 - phi] + [0.97]) * ts, 3)
        nsend = rng.choice([5, 6, 8])
        times = [0.0] + sorted(round((rng.randrange(0, m) + phi) * ts, 3) for _ in range(rng.choice([1, 1, 2])))
        times += sorted(round(m * ts + rng.uniform(0.0, 4.0) * ts, 3) for _ in range(nsend - len(times)))
    for sid, t in enumerate(times):
        topic = rng.choice([tp["name"] for tp in topics])
        key = ("6b%02x" % rng.randrange(6)) if (partitioner == "hashed" or rng.random() < 0.3) else None
        st = {"at": t, "do": "send", "sid": sid, "topic": topic, "key": key, "n": rng.choice([1, 1, 2, 3]), "size": rng.choice([0, 0, 30, 300])}
        if producers:
            st["producer"] = rng.randrange(len(producers) + 1)
        steps.append(st)
    if stagger:
        plots.append("staggered-discovery")
        e = round((m - 1 + phi * rng.choice([0.2, 0.5, 0.9])) * ts, 3)
        # (in front of the sends: steps at the same instant run in list order)
        steps[0:0] = [{"at": 0.0, "do": "inject", "action": "silent", "api": "ApiVersions", "times": None, "block": False,
                       "t_from": 0.0, "t_to": e, "name": "apiversions-unanswered-from-start"},
                      {"at": 0.0, "do": "inject", "action": "delay", "api": "ApiVersions", "times": None, "seconds": late,
                       "t_from": e, "t_to": round(e + rng.choice([1, 2, 4]) * ts, 3), "name": "apiversions-answered-late"}]
    for _ in range(rng.choice([0, 0, 1]) if stagger else rng.choice([0, 1, 1, 2, 2, 3])):
        plot = rng.choice(["transport", "transport", "transport+apiv", "transport+apiv", "transport+apiv", "hang", "hang", "apiv-at-start", "errors", "kill", "fetch", "fetch",
                           "apiv-fault", "apiv-fault", "metadata-fault", "unreachable", "slow", "restart", "delist", "move"])
        plots.append(plot)
        if plot in ("transport", "transport+apiv"):
            act = rng.choice(["drop_before", "drop_after", "silent", "delay", "drop_mid"])
            nth = rng.choice([1, 2, 2, 3, 4])
            st = {"at": 0.0, "do": "inject", "action": act, "api": "Produce", "nth": nth, "name": "produce-" + act}
            if act == "delay":
                st["seconds"] = rng.choice([0.5, 2.5]) * ts
            if act == "silent":
                st["block"] = False
            if act == "drop_mid":
                st["fraction"] = rng.choice([0.1, 0.5, 0.9])
            steps.append(st)
            if plot == "transport+apiv":
                # from now on (until the window closes) nobody answers ApiVersions; everything else is served
                d = rng.choice([0.5, 2, 4, 7, 12, 20]) * ts * rng.choice([1, 1, brokers])
                t0 = rng.choice([0.01, 0.01, round(rng.random() * span, 3)])
                steps.append({"at": t0, "do": "inject", "action": "silent", "api": "ApiVersions", "times": None, "block": False,
                              "t_from": t0, "t_to": round(t0 + d, 3), "name": "apiversions-unanswered"})
        elif plot == "hang":
            t0 = round(rng.random() * span, 3)
            who = nodes if rng.random() < 0.7 else [rng.choice(nodes)]
            steps.append({"at": t0, "do": "hang", "nodes": who})
            steps.append({"at": round(t0 + rng.choice([0.5, 2, 4, 7, 12, 20]) * ts * rng.choice([1, 1, brokers]), 3), "do": "heal", "nodes": who})
        elif plot == "apiv-at-start":
            d = rng.choice([0.5, 2, 4, 7, 12]) * ts * rng.choice([1, brokers])
            steps.append({"at": 0.0, "do": "inject", "action": "silent", "api": "ApiVersions", "times": None, "block": False,
                          "t_from": 0.0, "t_to": d, "name": "apiversions-unanswered-from-start"})
        elif plot == "errors":
            tp = rng.choice(topics)
            steps.append({"at": round(rng.random() * span, 3), "do": "inject", "action": "error", "api": "Produce", "topic": tp["name"],
                          "code": rng.choice([6, 3, 7, 5]), "times": rng.choice([1, 2])})
        elif plot == "kill" and brokers > 1:
            node = rng.choice(nodes)
            t0 = round(rng.random() * span, 3)
            steps.append({"at": t0, "do": "kill_broker", "node_id": node, "elect": True})
            if rng.random() < 0.7:
                steps.append({"at": round(t0 + rng.choice([0.5, 3, 10]), 3), "do": "start_broker", "node_id": node})
        elif plot == "fetch":
            # callers with fetch settings of their own (two consumers on one client): tagged by max_bytes
            for k in range(rng.choice([1, 2, 3])):
                steps.append({"at": round(rng.random() * span, 3), "do": "fetch", "label": "mid%d" % k, "tag": 1 + len([x for x in steps if x["do"] == "fetch"]),
                              "max_wait_time": rng.choice([0, 10, 100, 250, 500]), "min_bytes": rng.choice([0, 1, 1, 64, 4096, 65536])})
        elif plot == "apiv-fault":
            # the ApiVersions exchange itself goes wrong: error code, connection lost before / after / in the middle of the reply, late reply
            act = rng.choice(["error", "error", "drop_before", "drop_after", "drop_mid", "delay"])
            t0 = rng.choice([0.0, 0.0, round(rng.random() * span, 3)])
            st = {"at": t0, "do": "inject", "action": act, "api": "ApiVersions", "times": rng.choice([1, 1, 2, 3]), "name": "apiversions-" + act}
            if act == "error":
                st["code"] = rng.choice([35, 35, 2, -1])
            elif act == "drop_mid":
                st["fraction"] = rng.choice([0.2, 0.6, 0.95])
            elif act == "delay":
                st["seconds"] = rng.choice([0.5, 2.5]) * ts
            steps.append(st)
        elif plot == "metadata-fault":
            act = rng.choice(["error", "drop_after", "drop_mid", "delay", "silent"])
            st = {"at": rng.choice([0.0, round(rng.random() * span, 3)]), "do": "inject", "action": act, "api": "Metadata", "times": rng.choice([1, 2]), "name": "metadata-" + act}
            if act == "error":
                st["code"] = rng.choice([5, 3])
                st["topic"] = rng.choice(topics)["name"]
            elif act == "delay":
                st["seconds"] = rng.choice([0.5, 2.5]) * ts
            elif act == "silent":
                st["block"] = False
            steps.append(st)
        elif plot == "unreachable":
            node = rng.choice(nodes)
            t0 = round(rng.random() * span, 3)
            steps.append({"at": t0, "do": "set", "broker": node, "attr": "mode", "value": rng.choice(["refuse", "blackhole"])})
            steps.append({"at": t0, "do": "restart_broker", "node_id": node})
            steps.append({"at": round(t0 + rng.choice([0.5, 3, 10]) * ts, 3), "do": "set", "broker": node, "attr": "mode", "value": "accept"})
        elif plot == "slow":
            node = rng.choice(nodes)
            t0 = round(rng.random() * span, 3)
            steps.append({"at": t0, "do": "set", "broker": node, "attr": "response_delay", "value": rng.choice([0.05, 0.3 * ts, 0.8 * ts])})
            steps.append({"at": round(t0 + rng.choice([1, 5]) * ts, 3), "do": "set", "broker": node, "attr": "response_delay", "value": 0})
        elif plot == "restart":
            steps.append({"at": round(rng.random() * span, 3), "do": "restart_broker", "node_id": rng.choice(nodes)})
        elif plot == "delist" and brokers > 1:
            node = rng.choice(nodes)
            t0 = round(rng.random() * span, 3)
            steps.append({"at": t0, "do": "remove_from_metadata", "node_id": node})
            steps.append({"at": round(t0 + rng.choice([0.5, 3]) * ts, 3), "do": "restore_to_metadata", "node_id": node})
        elif plot == "move":
            tp = rng.choice(topics)
            steps.append({"at": round(rng.random() * span, 3), "do": "move_leader", "topic": tp["name"], "partition": rng.choice(tp["order"]),
                          "new": rng.choice(nodes), "old": rng.choice(["not_leader", "unknown", "silent"])})
    return {"xl": "c04", "seed": rng.randrange(1 << 30), "api_kind": api_kind, "plots": plots,
            # (a pre-0.10 broker that CLOSES the connection on the unknown ApiVersions key: the broker client re-connects and
            # re-sends at once until the request times out; with a zero-latency network that never advances the clock)
            "cluster": {"brokers": brokers, "topics": topics, "chunked": rng.random() < 0.15, "api": api,
                        "connect_delay": 0.05 if api_kind == "old-close" else rng.choice([0, 0, 0.01])},
            "client": {"timeout": timeout, "enable_protocol_version_discovery": rng.random() < 0.88},
            "producer": prod, "producers": producers, "warm": rng.random() < 0.2, "steps": steps, "until": 200.0, "final_fetch": True}


class Judged(object):
    def __init__(self, script):
        self.script = script
        self.lines, self.groups, self.failures = [], [], []

    def ask(self, what, tag, line):
        self.groups.append((what, tag, len(self.lines)))
        self.lines.append(line)


def _split_whole_sends(deep, topic, sends_by_first):
    """-> None when `deep` is whole sends of `topic` in some order, else text"""
    i = 0
    while i < len(deep):
        m = deep[i]
        s = sends_by_first.get(m["value"])
        if s is None or s["topic"] != topic:
            return "message %r (key %r) is no first message of a send to %s" % (m["value"][:30], m["key"], topic)
        vals = s["values"]
        got = [(x["key"], x["value"]) for x in deep[i:i + len(vals)]]
        if got != [(s["key"], v) for v in vals]:
            return "messages %r are not the send (key %r, values %r)" % ([(k, v[:20]) for k, v in got], s["key"], [v[:20] for v in vals])
        i += len(vals)
    return None


def judge(r, hist):
    sc = r.script
    j = Judged(sc)
    if r.error:
        j.failures.append({"what": r.error, "tags": ["c04-xl:livelock"]})
        return j
    cluster = r.cluster
    for v in cluster.violations:
        j.failures.append({"what": "a broker received a frame that is not a conforming request: %s (%s); frame %s" % (v["what"], v["error"], v["frame"].hex()[:160]),
                           "tags": ["c04-xl:frame-nonconforming"]})
    discovery_on = sc["client"].get("enable_protocol_version_discovery", True)
    # n_sent of the first ApiVersions answer without an error code (a discovery can have succeeded from then on)
    answered = [e["n_sent"] for e in cluster.log if e.get("kind") == "request" and e.get("api_key") == 18 and e.get("fate") == "answered"
                and e.get("n_sent") is not None and (e.get("response") or {}).get("error_code") == 0]
    first_ok = min(answered) if (answered and discovery_on) else None
    for e in cluster.log:
        if e.get("kind") == "request" and e.get("api_key") == 18:
            hist["xl:apiversions-request-" + str(e.get("fate"))] += 1
    sends_by_first = {s["values"][0]: s for s in r.sends.values()}
    all_prod = [sc["producer"]] + list(sc.get("producers") or [])
    send_of_value = {v: s for s in r.sends.values() for v in s["values"]}
    frames = X.produce_frames(cluster)
    for e, ver, parts in frames:
        b = cluster.brokers[e["broker"]]
        magics = []
        # whose messages does the frame carry?  (a Producer sends its own batches: one owner per frame)
        owners = sorted(set(send_of_value[m["value"]].get("producer", 0) for _t, _p, _sh, deep in parts if isinstance(deep, list)
                            for m in deep if m["value"] in send_of_value))
        if len(owners) > 1:
            j.failures.append({"what": "Produce frame (n=%d) mixes messages of producers %r" % (e["n"], owners), "tags": ["c04-xl:payload"]})
        owner = all_prod[owners[0]] if owners else sc["producer"]
        codec = owner.get("codec") or 0
        if owners:
            want = (owner["req_acks"], owner.get("ack_timeout", 1000))
            got = (e["request"].get("acks"), e["request"].get("timeout"))
            hist["xl:produce-frame-request-fields-checked" + (":several-producers-on-the-client" if len(all_prod) > 1 else "")] += 1
            if got != want:
                j.failures.append({"what": "Produce v%d frame (n=%d) carrying the messages of producer #%d (req_acks=%r, ack_timeout=%r) says acks=%r timeout=%r: "
                                           "not the values the caller supplied" % (ver, e["n"], owners[0], want[0], want[1], got[0], got[1]), "tags": ["c04-xl:request-fields"]})
        for topic, pid, shallow, deep in parts:
            magics += [m["magic"] for m in shallow]
            if isinstance(deep, list):
                magics += [m["magic"] for m in deep]
                why = _split_whole_sends(deep, topic, sends_by_first)
                if why:
                    j.failures.append({"what": "Produce v%d frame (n=%d) for %s/%d: %s" % (ver, e["n"], topic, pid, why), "tags": ["c04-xl:payload"]})
            else:
                j.failures.append({"what": "Produce v%d frame (n=%d) for %s/%d: %s" % (ver, e["n"], topic, pid, deep), "tags": ["c04-xl:payload"]})
            for m in shallow:
                if (m["attributes"] & 0x07) != (1 if codec == 1 else 0):
                    j.failures.append({"what": "Produce frame (n=%d): message attributes %d with producer codec %r" % (e["n"], m["attributes"], codec), "tags": ["c04-xl:attributes"]})
        hist["xl:produce-frame:v%d:magics=%s" % (ver, ",".join(str(x) for x in sorted(set(magics))) or "-")] += 1
        _ask_version(j, e, b, 0, ver, magics, first_ok, hist)
    if first_ok is not None and any(e["n"] < first_ok for e, _v, _p in frames) and any(e["n"] > first_ok for e, _v, _p in frames):
        hist["xl:produce-frames-before-AND-after-the-first-answered-ApiVersions"] += 1
    fetch_calls = {f["max_bytes"]: f for f in r.fetches if "max_bytes" in f}
    hist["xl:fetch-calls-with-distinct-settings=%d" % len(set((f.get("max_wait_time"), f.get("min_bytes")) for f in r.fetches))] += 1
    for e in cluster.log:
        if e.get("kind") == "request" and e.get("api_key") == 1 and e.get("request") is not None:
            hist["xl:fetch-frame:v%d" % e["version"]] += 1
            _ask_version(j, e, cluster.brokers[e["broker"]], 1, e["version"], [], first_ok, hist)
            # the caller's request-level fields: the call is identified by the max_bytes it asked for
            rq = e["request"]
            mbs = sorted(set(p["max_bytes"] for t in rq.get("topics", []) for p in t["partitions"]))
            if len(mbs) != 1 or mbs[0] not in fetch_calls:
                j.failures.append({"what": "Fetch frame (n=%d) asks for max_bytes %r: no fetch call of the script did" % (e["n"], mbs), "tags": ["c04-xl:request-fields"]})
                continue
            f = fetch_calls[mbs[0]]
            hist["xl:fetch-frame-request-fields-checked"] += 1
            got = (rq.get("replica_id"), rq.get("max_wait_time"), rq.get("min_bytes"))
            want = (-1, f["max_wait_time"], f["min_bytes"])
            if got != want:
                j.failures.append({"what": "Fetch v%d frame (n=%d) of the call %r (max_wait_time=%r, min_bytes=%r) says replica_id=%r max_wait_time=%r min_bytes=%r: "
                                           "not the values the caller supplied" % (e["version"], e["n"], f["label"], want[1], want[2], got[0], got[1], got[2]),
                                   "tags": ["c04-xl:request-fields"]})
    # replies: an acknowledged send reports what the broker answered
    appended = collections.defaultdict(list)  # (topic, partition, base_offset) -> [(n_sent, values)]
    for e, _ver, _parts in frames:
        if e.get("fate") == "answered":
            for a in e.get("applied", []):
                if a.get("op") == "append" and a["error"] == 0:
                    appended[(a["topic"], a["partition"], a["base_offset"])].append((e["n_sent"], [v for (_o, _k, v) in a["messages"]]))
    for sid, outs in sorted(r.outcomes.items()):
        if len(outs) != 1 or not outs[0][2]:
            continue
        _t, n, _ok, res = outs[0]
        s = r.sends[sid]
        acks = all_prod[s.get("producer", 0)]["req_acks"]
        if res is None:
            if acks != 0:
                j.failures.append({"what": "send %d succeeded with None, req_acks=%r" % (sid, acks), "tags": ["c04-xl:reply-decode"]})
            continue
        if not (isinstance(res, (tuple, list)) and res and res[0] == "ProduceResponse"):
            j.failures.append({"what": "send %d succeeded with %r" % (sid, res), "tags": ["c04-xl:reply-decode"]})
            continue
        _name, topic, partition, error, offset = res[:5]
        hist["xl:acknowledged-send-checked-against-broker-answer"] += 1
        if error != 0 or topic != s["topic"] or not any(ns < n and s["values"][0] in vals for ns, vals in appended.get((topic, partition, offset), [])):
            j.failures.append({"what": "send %d was acknowledged with %r; no broker answered an append of its messages to that partition at that base offset "
                                       "(the reply was not decoded under the layout of the version that was sent?)" % (sid, res), "tags": ["c04-xl:reply-decode"]})
    for f in r.fetches:
        res = f["result"]
        if not isinstance(res, list):
            hist["xl:fetch-%s-not-answered" % f["label"]] += 1
            continue
        for topic, pid, error, hw, msgs in res:
            if error != 0:
                hist["xl:fetch-partition-error"] += 1
                continue
            log = [(o, k, v) for (o, k, v, _ts, _m) in cluster.log_of(topic, pid).messages()]
            hist["xl:fetch-partition-decoded"] += 1
            if not isinstance(msgs, list):
                j.failures.append({"what": "fetch %s of %s/%d: %s" % (f["label"], topic, pid, msgs), "tags": ["c04-xl:fetch-decode"]})
            elif msgs != log[: len(msgs)] or (hw > 0 and not msgs) or hw > len(log):
                j.failures.append({"what": "fetch %s of %s/%d decoded %r (high watermark %r), the log holds %r" % (f["label"], topic, pid, msgs[:6], hw, log[:6]),
                                   "tags": ["c04-xl:fetch-decode"]})
    return j


def _ask_version(j, e, b, key, ver, magics, first_ok, hist):
    name = "Produce" if key == 0 else "Fetch"
    if b.api_versions is None or first_ok is None or e["n"] < first_ok:
        why = "a broker without version discovery" if b.api_versions is None else "no ApiVersions request had been answered without error yet"
        hist["xl:judged-fallback:" + name] += 1
        j.ask("%s v%d frame (n=%d, t=%s) with message formats %r received by broker %d: %s, the client must use version 0 / format 0"
              % (name, ver, e["n"], e["t"], sorted(set(magics)), b.node_id, why), "c04-xl:fallback-not-zero",
              "mon-fallback %s %s" % (vr(ver), vr(magics)))
    else:
        hist["xl:judged-version:" + name] += 1
        j.ask("%s v%d frame (n=%d, t=%s) with message formats %r received by broker %d advertising %r: version not advertised / not implemented, "
              "or the message format does not belong to that version" % (name, ver, e["n"], e["t"], sorted(set(magics)), b.node_id,
                                                                          [x for x in b.api_versions if x[0] == key]),
              "c04-xl:version-or-format", "mon-version %s %s %s %s" % (vr([list(x) for x in b.api_versions]), vr(key), vr(ver), vr(magics)))


def summarize(r, hist):
    sc = r.script
    hist["xl:runs"] += 1
    hist["xl:api-table=" + sc.get("api_kind", "?")] += 1
    hist["xl:discovery=" + ("on" if sc["client"].get("enable_protocol_version_discovery", True) else "off")] += 1
    for p in sc.get("plots", []):
        hist["xl:plot-" + p] += 1
    for tp in sc["cluster"]["topics"]:
        hist["xl:log-message-format=%s" % tp.get("message_format")] += 1
    if sc["cluster"].get("chunked"):
        hist["xl:chunked-delivery"] += 1
    hist["xl:codec=%s:acks=%s" % (sc["producer"].get("codec") or 0, sc["producer"]["req_acks"])] += 1
    for p2 in sc.get("producers") or []:
        hist["xl:further-producer:acks=%s:ack_timeout=%s" % (p2["req_acks"], p2.get("ack_timeout"))] += 1
    for st in sc["steps"]:
        if st["do"] == "inject":
            hist["xl:step-inject:" + st.get("name", st["action"])] += 1
        elif st["do"] != "send":
            hist["xl:step-" + st["do"]] += 1
    for sid, outs in r.outcomes.items():
        if not outs:
            hist["xl:send-unresolved"] += 1
        else:
            res = outs[0][3]
            hist["xl:send-" + ("ok" if outs[0][2] else "fail:" + str(res[1] if isinstance(res, (tuple, list)) else res))] += 1
    for _n, state in r.api_states:
        hist["xl:client-version-state-at-send=" + state] += 1
    seq = [st for _n, st in r.api_states]
    if "fallback" in seq and "table" in seq[seq.index("fallback"):]:
        hist["xl:sends-in-fallback-THEN-sends-with-table (a later discovery was answered)"] += 1
    if len(sc.get("producers") or []):
        hist["xl:several-producers-share-the-client"] += 1
    for e in r.cluster.log:
        if e.get("kind") == "request" and e.get("fault"):
            hist["xl:fault-fired:" + e["fault"]] += 1


def evaluate(ctx, res, judged, limit=3):
    lines = [l for j in judged for l in j.lines]
    got = ctx.model("wire", lines) if lines else []
    pos, bad = 0, 0
    for j in judged:
        g = got[pos:pos + len(j.lines)]
        pos += len(j.lines)
        fails = list(j.failures)
        for what, tag, i in j.groups:
            verdict = g[i][0] if g[i] else "none"
            res.count("xl:verdict:%s:%s" % (j.lines[i].split(" ")[0], verdict))
            if verdict not in ("ok", "out-of-range"):
                fails.append({"what": what, "tags": [tag], "monitor_line": j.lines[i][:600], "verdict": g[i]})
        if fails:
            bad += 1
            if bad <= limit:
                f = fails[0]
                f["scenario"] = j.script
                f["also"] = [x["what"][:300] for x in fails[1:4]]
                res.monitor_failures.append(f)
    return bad


def stage(ctx, res, n):
    rng = random.Random(ctx.rng.randrange(1 << 30))
    hist = collections.Counter()
    judged, bad = [], 0
    for i in range(n):
        script = gen_script(rng)
        try:
            r = X.run_script(script)
        except Exception as e:  # noqa: BLE001 - a crash of the stack under a scenario is a finding to look at
            import traceback

            res.monitor_failures.append({"what": "cross-layer run crashed: %r" % (e,), "scenario": script, "tags": ["c04-xl:crash"], "trace": traceback.format_exc()[-1200:]})
            continue
        res.evaluations += 1
        res.traces_validated += 1
        res.count("op:xl")
        summarize(r, hist)
        j = judge(r, hist)
        if j.lines:
            res.nontrivial(script)
        judged.append(j)
        if len(judged) >= 150:
            bad += evaluate(ctx, res, judged, max(0, 3 - bad))
            judged = []
    bad += evaluate(ctx, res, judged, max(0, 3 - bad))
    for k, v in hist.items():
        res.count(k, v)
    return bad


def replay(ctx, script):
    from harness.core import Result

    r = X.run_script(script)
    hist = collections.Counter()
    j = judge(r, hist)
    res = Result()
    evaluate(ctx, res, [j])
    print("cross-layer C04 scenario: %d sends; frames received by the brokers:" % len(r.sends))
    for e in r.cluster.log:
        if e.get("kind") == "request" and e.get("api_key") in (0, 1, 18):
            extra = ""
            if e.get("api_key") == 0 and e.get("request"):
                extra = " magics=%r" % sorted(set(m["magic"] for t in e["request"]["topics"] for p in t["partitions"] for m in (p.get("messages") or [])))
            print("  t=%-8s broker %d  %s v%s%s  -> %s%s" % (e["t"], e["broker"], e["api"], e["version"], extra, e["fate"], (" [fault %s]" % e["fault"]) if e.get("fault") else ""))
    for f in res.monitor_failures:
        print("  FAIL:", f["what"])
        for a in f.get("also", []):
            print("  also:", a)
    return 1 if res.monitor_failures else 0
